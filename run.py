#!/usr/bin/env python3
"""Orchestrator of the minicbor runtime-monitoring checks.

  ./run.py check <ID> quick|thorough     run one property check (exit 0 held / 1 violation / 2 inconclusive)
  ./run.py replay <path>                 re-execute the case stored in a replay file
  ./run.py build                         build all harness binaries (MANIFEST.setup_cmd)
  ./run.py seeded [<dir> ...]            run the registered checks against the seeded breaking changes

Every check rebuilds its harness binaries against /repo's current working tree
(path dependencies), spawns single-threaded worker processes, merges their
reports into evidence/<ID>.json and prints KNOWN-FINDING / VIOLATION /
INCONCLUSIVE lines.
"""
import json
import os
import shutil
import signal
import subprocess
import sys
import time

ROOT = os.path.dirname(os.path.abspath(__file__))
sys.path.insert(0, ROOT)
HARNESS = os.path.join(ROOT, "harness")
EVID = os.path.join(ROOT, "evidence")
REPLAYS = os.path.join(ROOT, "replays")
KNOWN = os.path.join(ROOT, "known_findings.json")
NCPU = int(os.environ.get("VERIF_JOBS", "16"))

ENV = dict(os.environ)
ENV.update({"CARGO_NET_OFFLINE": "true", "CARGO_TERM_COLOR": "never"})


class Inconclusive(Exception):
    pass


FATAL_SIGNALS = {4: "SIGILL", 6: "SIGABRT", 7: "SIGBUS", 8: "SIGFPE", 11: "SIGSEGV"}


def log(*a):
    print(*a, flush=True)


# --------------------------------------------------------------------------- builds

def cargo_build(pkg_args, cwd=HARNESS, env=None, toolchain=None, what="harness"):
    cmd = ["cargo"] + ([toolchain] if toolchain else []) + ["build", "--release", "--offline"] + pkg_args
    e = dict(ENV)
    if env:
        e.update(env)
    t0 = time.time()
    p = subprocess.run(cmd, cwd=cwd, env=e, stdout=subprocess.PIPE, stderr=subprocess.STDOUT, text=True)
    if p.returncode != 0:
        tail = "\n".join(p.stdout.splitlines()[-40:])
        raise Inconclusive("%s build failed against the current tree:\n%s" % (what, tail))
    return time.time() - t0


def build_vmain():
    cargo_build(["-p", "vmain"])
    return os.path.join(HARNESS, "target", "release", "vmain")


VCFG = os.path.join(HARNESS, "vcfg")
CONFIGS = [("none", ""), ("none+half", "half"), ("alloc", "alloc"), ("alloc+half", "alloc,half"), ("std", "std"), ("std+half", "std,half")]


def build_vcfg(only=None):
    """Build the feature-matrix probe once per configuration (separate target
    directories, built concurrently).  RUSTFLAGS is cleared: these binaries are
    the library as a user of that configuration compiles it (no hooks); the probe's
    release profile keeps overflow checks and debug assertions on, so arithmetic
    that silently wraps in a plain release build is a panic here."""
    lock = os.path.join(VCFG, "Cargo.lock")
    if not os.path.exists(lock):
        shutil.copy(os.path.join(HARNESS, "Cargo.lock"), lock)
    procs = []
    e = dict(ENV)
    e["RUSTFLAGS"] = ""
    for name, feats in CONFIGS:
        if only and name not in only:
            continue
        tdir = os.path.join(HARNESS, "target", "cfg-" + name)
        cmd = ["cargo", "build", "--release", "--offline", "--no-default-features", "--features", feats, "--target-dir", tdir, "-j", "4"]
        procs.append((name, tdir, subprocess.Popen(cmd, cwd=VCFG, env=e, stdout=subprocess.PIPE, stderr=subprocess.STDOUT, text=True)))
    bins = {}
    for name, tdir, p in procs:
        out, _ = p.communicate()
        if p.returncode != 0:
            raise Inconclusive("feature configuration '%s' of the probe does not build against the current tree:\n%s" % (name, "\n".join(out.splitlines()[-30:])))
        bins[name] = os.path.join(tdir, "release", "vcfg")
    return bins


# --------------------------------------------------------------------------- workers

def run_workers(binary, sub, tier, seed, nshards, outdir, extra=None, timeout=3600, env=None, tag="w"):
    """Run nshards worker processes; returns (reports, problems)."""
    os.makedirs(outdir, exist_ok=True)
    procs = []
    e = dict(ENV)
    if env:
        e.update(env)
    for k in range(nshards):
        out = os.path.join(outdir, "%s%d.json" % (tag, k))
        err = open(os.path.join(outdir, "%s%d.stderr" % (tag, k)), "wb")
        cmd = list(binary) if isinstance(binary, (list, tuple)) else [binary]
        cmd += [sub, "--tier", tier, "--seed", str(seed), "--shard", str(k), "--nshards", str(nshards), "--out", out]
        if extra:
            cmd += extra
        procs.append((k, out, err, subprocess.Popen(cmd, cwd=HARNESS, env=e, stdout=subprocess.DEVNULL, stderr=err)))
    reports, problems = [], []
    deadline = time.time() + timeout
    for k, out, err, p in procs:
        try:
            rc = p.wait(timeout=max(1, deadline - time.time()))
        except subprocess.TimeoutExpired:
            p.kill()
            p.wait()
            rc = "timeout"
        err.close()
        errtxt = open(err.name, "rb").read().decode("utf-8", "replace")
        if rc == 0 and os.path.exists(out):
            try:
                reports.append(json.load(open(out)))
            except Exception as ex:  # noqa
                problems.append({"kind": "harness", "shard": k, "detail": "unreadable report: %s" % ex})
            continue
        prob = {"shard": k, "rc": rc, "stderr_tail": errtxt[-2000:]}
        marker = None
        for line in errtxt.splitlines():
            if line.startswith("VERIF-WATCHDOG") or line.startswith("VERIF-ALLOC-REFUSED"):
                marker = line
        if rc == 97 and marker:
            prob.update(kind="watchdog", marker=marker)
        elif marker and marker.startswith("VERIF-ALLOC-REFUSED"):
            prob.update(kind="alloc-refused", marker=marker)
        elif rc == "timeout":
            prob.update(kind="timeout")
        elif isinstance(rc, int) and rc < 0:
            prob.update(kind="signal", signal=-rc)
        else:
            prob.update(kind="harness")
        problems.append(prob)
    return reports, problems


def merge_reports(reports):
    m = {"evaluations": 0, "distinct_enumerated": 0, "counters": {}, "maxima": {}, "samples": [], "violations": {}, "notes": [], "exhaustive": [], "inconclusive": [], "distinct_saturated": False}
    for r in reports:
        m["evaluations"] += r["evaluations"]
        m["distinct_enumerated"] += r["distinct_enumerated"]
        m["distinct_saturated"] |= r.get("distinct_saturated", False)
        for k, v in r["counters"].items():
            m["counters"][k] = m["counters"].get(k, 0) + v
        for k, v in r["maxima"].items():
            if v is not None:
                m["maxima"][k] = max(m["maxima"].get(k, v), v)
        for s in r["samples"]:
            if len(m["samples"]) < 8:
                m["samples"].append(s)
        for v in r["violations"]:
            e = m["violations"].setdefault(v["signature"], {"count": 0, "examples": []})
            e["count"] += v["count"]
            for x in v["examples"]:
                if len(e["examples"]) < 3:
                    e["examples"].append(x)
        for k in ("notes", "exhaustive", "inconclusive"):
            for s in r[k]:
                if s not in m[k]:
                    m[k].append(s)
    return m


def merge_hashes(vmain, outdirs):
    files = []
    for d in outdirs:
        if os.path.isdir(d):
            for f in sorted(os.listdir(d)):
                if f.endswith(".hashes"):
                    files.append(os.path.join(d, f))
    if not files:
        return 0
    p = subprocess.run([vmain, "merge-hashes"] + files, stdout=subprocess.PIPE, text=True)
    try:
        return int(p.stdout.strip())
    except ValueError:
        return 0


# --------------------------------------------------------------------------- known findings

def load_known():
    if not os.path.exists(KNOWN):
        return []
    return json.load(open(KNOWN)).get("findings", [])


def classify(pid, violations):
    """Split merged violations into (known_open, unknown)."""
    known = {f["signature"]: f for f in load_known() if f.get("property") == pid and f.get("status") == "open"}
    k, u = [], []
    for sig, v in sorted(violations.items()):
        if sig in known:
            k.append((sig, v, known[sig]))
        else:
            u.append((sig, v))
    return k, u


# --------------------------------------------------------------------------- evidence

def write_evidence(pid, tier, seed, level, coverage, wall, violations, assumptions):
    os.makedirs(EVID, exist_ok=True)
    ev = {
        "property_id": pid,
        "tier": tier,
        "seed": seed,
        "level": level,
        "coverage": coverage,
        "assumptions": assumptions,
        "wall_s": round(wall, 3),
        "violations": violations,
    }
    path = os.path.join(EVID, "%s.json" % pid)
    tmp = path + ".tmp"
    with open(tmp, "w") as f:
        json.dump(ev, f, indent=1, sort_keys=False)
        f.write("\n")
    os.replace(tmp, path)
    return path


def write_replay(pid, idx, sig, example):
    os.makedirs(REPLAYS, exist_ok=True)
    path = os.path.join(REPLAYS, "%s-%d.json" % (pid, idx))
    with open(path, "w") as f:
        json.dump({"property": pid, "signature": sig, "detail": example.get("detail"), "argv": example.get("replay", [])}, f, indent=1)
    return path


# --------------------------------------------------------------------------- generic check driver

def finish(pid, tier, seed, spec, merged, problems, distinct_hashed, wall, extra_cov=None):
    """Print verdict lines, write evidence, return exit code."""
    known, unknown = classify(pid, merged["violations"])
    inconclusive = list(merged["inconclusive"])
    # problems: watchdog / alloc-refused / timeouts / harness failures
    for pr in problems:
        kind = pr.get("kind")
        if kind == "alloc-refused":
            sig = "%s|alloc-cap" % pid
            merged["violations"].setdefault(sig, {"count": 0, "examples": []})
            merged["violations"][sig]["count"] += 1
            merged["violations"][sig]["examples"].append({"detail": {"what": "a single allocation request above the hard cap was made", "marker": pr.get("marker")}, "replay": []})
            unknown.append((sig, merged["violations"][sig]))
        elif kind == "signal" and pr.get("signal") in FATAL_SIGNALS and "memory allocation of" not in (pr.get("stderr_tail") or ""):
            # the worker process died while executing library code (stack overflow, memory error in
            # unsafe code, abort): the call did not "return Ok or Err".  SIGKILL (OOM killer, timeouts)
            # is not in this class and stays inconclusive.
            sig = "%s|fatal-signal|%s" % (pid, FATAL_SIGNALS[pr["signal"]])
            e = merged["violations"].setdefault(sig, {"count": 0, "examples": []})
            e["count"] += 1
            if len(e["examples"]) < 2:
                e["examples"].append({"detail": {"what": "worker shard %s was killed by %s while running the workload" % (pr.get("shard"), FATAL_SIGNALS[pr["signal"]]), "stderr_tail": (pr.get("stderr_tail") or "")[-600:], "rerun": "the shard is deterministic: harness/target/release/vmain %s --tier %s --seed %d --shard %s --nshards %d" % (spec.get("sub", ""), tier, seed, pr.get("shard"), NCPU)}, "replay": []})
            if not any(s0 == sig for s0, _ in unknown):
                unknown.append((sig, e))
        elif kind == "watchdog":
            inconclusive.append("watchdog fired in shard %s: %s" % (pr.get("shard"), pr.get("marker")))
        else:
            inconclusive.append("worker shard %s failed (%s rc=%s): %s" % (pr.get("shard"), kind, pr.get("rc"), (pr.get("stderr_tail") or "")[-300:].replace("\n", " | ")))
    for sig, v, f in known:
        log("KNOWN-FINDING: property=%s %s [signature %s, reproduced %d times]" % (pid, f.get("what", ""), sig, v["count"]))
    rc = 0
    n = 0
    replay_paths = []
    for sig, v in unknown:
        ex = v["examples"][0] if v["examples"] else {}
        path = write_replay(pid, n, sig, ex)
        replay_paths.append(path)
        n += 1
        log("VIOLATION property=%s replay=%s" % (pid, path))
        log("  signature: %s (x%d)" % (sig, v["count"]))
        log("  detail: %s" % json.dumps(ex.get("detail"))[:600])
        rc = 1
    distinct = distinct_hashed + merged["distinct_enumerated"]
    coverage = {
        "evaluations": merged["evaluations"],
        "distinct_nontrivial": distinct,
        "rule": spec["rule"],
        "samples": merged["samples"],
        "exhaustive": False,
        "exhaustive_subspaces": merged["exhaustive"],
        "distinct_by_hash": distinct_hashed,
        "distinct_by_enumeration": merged["distinct_enumerated"],
        "distinct_hash_set_saturated": merged["distinct_saturated"],
        "tables": merged["counters"],
        "monitor_maxima": merged["maxima"],
        "notes": merged["notes"],
        "known_findings_reproduced": [{"signature": s, "count": v["count"]} for s, v, _ in known],
        "unknown_violation_signatures": [s for s, _ in unknown],
        "inconclusive": inconclusive,
        "technique": spec.get("technique", ""),
    }
    if extra_cov:
        coverage.update(extra_cov)
    if merged["evaluations"] == 0 or distinct < 2:
        inconclusive.append("the run observed nothing (evaluations=%d distinct=%d)" % (merged["evaluations"], distinct))
    if not merged["samples"]:
        inconclusive.append("the workers recorded no sample case")
    if merged["evaluations"] > 0 and distinct >= 2 and merged["samples"]:
        write_evidence(pid, tier, seed, spec["level"], coverage, wall, len(unknown), spec["assumptions"])
    if rc == 0 and inconclusive:
        for s in inconclusive:
            log("INCONCLUSIVE property=%s reason=%s" % (pid, s[:500]))
        rc = 2
    if rc == 0:
        log("HELD property=%s tier=%s seed=%d evaluations=%d distinct_nontrivial=%d wall=%.1fs" % (pid, tier, seed, merged["evaluations"], distinct, wall))
    return rc


def outdir_for(pid, tier):
    d = os.path.join(HARNESS, "target", "run", "%s-%s-%d" % (pid, tier, os.getpid()))
    if os.path.isdir(d):
        shutil.rmtree(d)
    os.makedirs(d)
    return d


def simple_check(pid, tier, seed, spec):
    t0 = time.time()
    vmain = build_vmain()
    od = outdir_for(pid, tier)
    try:
        reports, problems = run_workers(vmain, spec["sub"], tier, seed, spec.get("shards", NCPU), od, timeout=spec.get("timeout", {}).get(tier, 3600))
        merged = merge_reports(reports)
        dh = merge_hashes(vmain, [od])
        extra = None
        if "post" in spec:
            extra = spec["post"](pid, tier, seed, spec, merged, problems, od)
        return finish(pid, tier, seed, spec, merged, problems, dh, time.time() - t0, extra)
    finally:
        shutil.rmtree(od, ignore_errors=True)


def cfg_check(pid, tier, seed, spec):
    """C20: online differential monitor over the six separately built configurations."""
    t0 = time.time()
    vmain = build_vmain()
    bins = build_vcfg()
    od = outdir_for(pid, tier)
    try:
        extra = ["--bins", ",".join("%s=%s" % kv for kv in bins.items())]
        reports, problems = run_workers(vmain, spec["sub"], tier, seed, NCPU, od, extra=extra, timeout=spec.get("timeout", {}).get(tier, 7200))
        merged = merge_reports(reports)
        dh = merge_hashes(vmain, [od])
        ops = {}
        for name, path in bins.items():
            p = subprocess.run([path, "ops"], stdout=subprocess.PIPE, text=True)
            ops[name] = len(p.stdout.split())
        return finish(pid, tier, seed, spec, merged, problems, dh, time.time() - t0, {"configurations": sorted(bins), "operations_per_configuration": ops})
    finally:
        shutil.rmtree(od, ignore_errors=True)


def skip_check(pid, tier, seed, spec):
    """C06: the std build in vmain, then the same oracle against the separately built no-alloc probe."""
    t0 = time.time()
    vmain = build_vmain()
    bins = build_vcfg(only=("none", "none+half", "alloc"))
    od = outdir_for(pid, tier)
    try:
        reports, problems = run_workers(vmain, spec["sub"], tier, seed, NCPU, os.path.join(od, "std"), timeout=3600)
        extra = ["--bins", ",".join("%s=%s" % kv for kv in bins.items())]
        r2, p2 = run_workers(vmain, "c06n", tier, seed, NCPU, os.path.join(od, "noalloc"), extra=extra, timeout=3600)
        merged = merge_reports(reports + r2)
        dh = merge_hashes(vmain, [os.path.join(od, "std"), os.path.join(od, "noalloc")])
        return finish(pid, tier, seed, spec, merged, problems + p2, dh, time.time() - t0, {"no_alloc_configurations": sorted(bins)})
    finally:
        shutil.rmtree(od, ignore_errors=True)


# --------------------------------------------------------------------------- generated derive-schema crates

GEN_TARGET = os.path.join(HARNESS, "target", "gen")
QUICK_GEN = ("q", 0, 90, 16)


def gen_specs(tier, seed):
    """(name, generator seed, #types, #chains) of the schema crates of a tier."""
    if tier == "thorough":
        return [QUICK_GEN] + [("t%d" % k, 1000 + seed * 16 + k, 120, 24) for k in range(5)]
    return [QUICK_GEN]


def build_gen_crate(name, gseed, ntypes, nchains):
    """Generate the crate (deterministic in its parameters) and build it against /repo.
    Every generated crate builds to the same <target>/release/vgen, so generation, build and
    copy happen under one lock (two checks may run at the same time), and the copy is replaced
    atomically (a worker of another check may be executing the old file)."""
    import fcntl
    os.makedirs(GEN_TARGET, exist_ok=True)
    bindir = os.path.join(GEN_TARGET, "bin")
    os.makedirs(bindir, exist_ok=True)
    dst = os.path.join(bindir, "vgen-%s" % name)
    with open(os.path.join(GEN_TARGET, ".verif-build-lock"), "w") as lk:
        fcntl.flock(lk, fcntl.LOCK_EX)
        d = os.path.join(HARNESS, "gen", name)
        os.makedirs(d, exist_ok=True)
        p = subprocess.run([sys.executable, os.path.join(ROOT, "gen_schemas.py"), d, str(gseed), str(ntypes), str(nchains)], stdout=subprocess.PIPE, stderr=subprocess.STDOUT, text=True)
        if p.returncode != 0:
            raise Inconclusive("schema generator failed: %s" % p.stdout[-800:])
        lock = os.path.join(d, "Cargo.lock")
        if not os.path.exists(lock):
            shutil.copy(os.path.join(HARNESS, "Cargo.lock"), lock)
        cargo_build([], cwd=d, env={"CARGO_TARGET_DIR": GEN_TARGET}, what="generated schema crate %s" % name)
        tmp = "%s.tmp%d" % (dst, os.getpid())
        shutil.copy2(os.path.join(GEN_TARGET, "release", "vgen"), tmp)
        os.replace(tmp, dst)
    return dst


def derive_check(pid, tier, seed, spec):
    """C07 (derived part, plus the built-in part), C08, C09, C10 over generated schema crates."""
    t0 = time.time()
    sub = spec["sub"]
    od = outdir_for(pid, tier)
    values = spec.get("values", {}).get(tier, 300)
    try:
        all_reports, all_problems, dirs = [], [], []
        vmain = build_vmain()
        if spec.get("builtin_too"):
            reports, problems = run_workers(vmain, sub, tier, seed, NCPU, os.path.join(od, "builtin"), timeout=3600)
            all_reports += reports
            all_problems += problems
            dirs.append(os.path.join(od, "builtin"))
        crates = []
        for (name, gseed, ntypes, nchains) in gen_specs(tier, seed):
            binary = build_gen_crate(name, gseed, ntypes, nchains)
            crates.append({"name": name, "generator_seed": gseed, "types_requested": ntypes, "chains": nchains})
            wd = os.path.join(od, name)
            reports, problems = run_workers(binary, sub, tier, seed, NCPU, wd, extra=["--values", str(values)], timeout=3600)
            for r in reports:
                for v in r["violations"]:
                    for ex in v["examples"]:
                        if ex.get("replay"):
                            ex["replay"][0] = "%s@%s,%d,%d,%d" % (ex["replay"][0], name, gseed, ntypes, nchains)
            all_reports += reports
            all_problems += problems
            dirs.append(wd)
        merged = merge_reports(all_reports)
        extra = {"generated_crates": crates, "values_per_type": values}
        if spec.get("neg"):
            ns, nv, ni = neg_stage(pid)
            extra["rejected_definitions"] = ns
            merged["violations"].update(nv)
            merged["inconclusive"] += ni
            merged["evaluations"] += ns["programs"]
            merged["counters"]["definitions the macros must reject: rejected at compile time"] = ns["rejected"]
            merged["counters"]["definitions the macros must reject: accepted, self-check consistent"] = ns["accepted_consistent"]
        dh = merge_hashes(vmain, dirs)
        return finish(pid, tier, seed, spec, merged, all_problems, dh, time.time() - t0, extra)
    finally:
        shutil.rmtree(od, ignore_errors=True)


VNEG = os.path.join(HARNESS, "vneg")


def neg_stage(pid):
    """Definitions the derive macros reject today, one per binary of harness/vneg.  A binary that
    does not build counts as rejected; one that builds (a changed macro accepts the definition)
    is run and reports its own self-check (len = bytes, well-formed output without duplicate
    map keys, round trip).  Returns (summary, violations, inconclusive)."""
    summ = {"tool": "cargo build of harness/vneg binaries (derive macros run on definitions they must reject or handle consistently)", "rejected": 0, "accepted_consistent": 0, "programs": 0}
    viol, inconc = {}, []
    lock = os.path.join(VNEG, "Cargo.lock")
    if not os.path.exists(lock):
        shutil.copy(os.path.join(HARNESS, "Cargo.lock"), lock)
    e = dict(ENV)
    e["RUSTFLAGS"] = ""
    tdir = os.path.join(HARNESS, "target", "neg")
    b = subprocess.run(["cargo", "build", "--release", "--offline", "--lib", "--target-dir", tdir], cwd=VNEG, env=e, stdout=subprocess.PIPE, stderr=subprocess.STDOUT, text=True)
    if b.returncode != 0:
        inconc.append("negative-definition stage: the support library does not build: %s" % b.stdout[-800:].replace("\n", " | "))
        return summ, viol, inconc
    for f in sorted(os.listdir(os.path.join(VNEG, "src", "bin"))):
        name = f[:-3]
        summ["programs"] += 1
        b = subprocess.run(["cargo", "build", "--release", "--offline", "--bin", name, "--target-dir", tdir], cwd=VNEG, env=e, stdout=subprocess.PIPE, stderr=subprocess.STDOUT, text=True)
        if b.returncode != 0:
            summ["rejected"] += 1
            continue
        try:
            r = subprocess.run([os.path.join(tdir, "release", name)], stdout=subprocess.PIPE, stderr=subprocess.STDOUT, text=True, timeout=60)
        except subprocess.TimeoutExpired:
            inconc.append("negative-definition program %s did not finish" % name)
            continue
        lines = [l for l in r.stdout.splitlines() if l.startswith("NEG ")]
        if r.returncode != 0 or not lines:
            # the accepted definition makes the generated code panic / abort on its own value
            sig = "%s|accepted-definition|%s|crash" % (pid, name)
            viol[sig] = {"count": 1, "examples": [{"detail": {"what": "the macros now accept this definition and the program ended with %s: %s" % (r.returncode, r.stdout[-400:]), "source": "harness/vneg/src/bin/%s.rs" % name}, "replay": []}]}
            continue
        mine = [l for l in lines if " FAIL %s:" % pid in l]
        if mine:
            sig = "%s|accepted-definition|%s" % (pid, name)
            viol[sig] = {"count": len(mine), "examples": [{"detail": {"what": "the macros now accept this definition, and: " + " ; ".join(l.split(" FAIL ", 1)[1] for l in mine)[:900], "source": "harness/vneg/src/bin/%s.rs" % name}, "replay": []}]}
        else:
            summ["accepted_consistent"] += 1
    return summ, viol, inconc


# --------------------------------------------------------------------------- sanitizer stages

VMIRI = os.path.join(HARNESS, "vmiri")


def miri_stage(pid, seed, ops_total, outdir, nproc=NCPU, timeout=1800):
    """Run the vmiri workloads under the Miri interpreter, sharded over processes.
    Returns (summary dict, violations dict, inconclusive list)."""
    summ = {"tool": "cargo +nightly miri run (vmiri)", "ops": 0, "checks": 0, "processes": 0}
    viol, inconc = {}, []
    e = dict(ENV)
    e["MIRIFLAGS"] = "-Zmiri-disable-isolation"
    # build once (ops = 0), then run the shards in parallel
    b = subprocess.run(["cargo", "+nightly", "miri", "run", "--offline", "--", str(seed), "0", "1", "0"], cwd=VMIRI, env=e, stdout=subprocess.PIPE, stderr=subprocess.STDOUT, text=True)
    if b.returncode != 0 or "VMIRI ok" not in b.stdout:
        if "Undefined Behavior" in b.stdout:
            viol["%s|miri|undefined-behaviour" % pid] = {"count": 1, "examples": [{"detail": {"what": b.stdout[-3000:]}, "replay": []}]}
        else:
            inconc.append("miri stage could not be built/run: %s" % b.stdout[-1500:].replace("\n", " | "))
        return summ, viol, inconc
    procs = []
    for k in range(nproc):
        out = open(os.path.join(outdir, "miri%d.out" % k), "w")
        procs.append((k, out, subprocess.Popen(["cargo", "+nightly", "miri", "run", "--offline", "--", str(seed), str(k), str(nproc), str(ops_total)], cwd=VMIRI, env=e, stdout=out, stderr=subprocess.STDOUT)))
    deadline = time.time() + timeout
    for k, out, p in procs:
        try:
            rc = p.wait(timeout=max(1, deadline - time.time()))
        except subprocess.TimeoutExpired:
            p.kill()
            p.wait()
            rc = "timeout"
        out.close()
        txt = open(out.name).read()
        ok = [l for l in txt.splitlines() if l.startswith("VMIRI ok")]
        if rc == 0 and ok:
            kv = dict(x.split("=") for x in ok[-1].split()[2:])
            summ["ops"] += int(kv.get("ops", 0))
            summ["checks"] += int(kv.get("checks", 0))
            summ["processes"] += 1
            for key in ("array_decodes", "byteslice_ops", "writer_ops"):
                summ[key] = summ.get(key, 0) + int(kv.get(key, 0))
        elif "Undefined Behavior" in txt or "VMIRI-FAIL" in txt or "memory leaked" in txt:
            kind = "undefined-behaviour" if "Undefined Behavior" in txt else ("leak" if "memory leaked" in txt else "logical-failure")
            lines = [l for l in txt.splitlines() if "Undefined Behavior" in l or "VMIRI-FAIL" in l or "memory leaked" in l or "-->" in l]
            sig = "%s|miri|%s" % (pid, kind)
            v = viol.setdefault(sig, {"count": 0, "examples": []})
            v["count"] += 1
            if len(v["examples"]) < 2:
                v["examples"].append({"detail": {"what": " ; ".join(lines[:8])[:1500], "shard": k, "seed": seed, "rerun": "cd harness/vmiri && cargo +nightly miri run --offline -- %d %d %d %d" % (seed, k, nproc, ops_total)}, "replay": []})
        else:
            inconc.append("miri shard %d ended rc=%s without a verdict: %s" % (k, rc, txt[-400:].replace("\n", " | ")))
    return summ, viol, inconc


def asan_stage(pid, sub, seed, outdir, timeout=3600):
    """Re-run a worker sub-command under an AddressSanitizer+LeakSanitizer build."""
    summ = {"tool": "rustc -Zsanitizer=address (nightly), ASAN_OPTIONS=halt_on_error=1:detect_leaks=1", "evaluations": 0}
    viol, inconc = {}, []
    tdir = os.path.join(HARNESS, "target", "asan")
    try:
        cargo_build(["--target", "x86_64-unknown-linux-gnu", "--target-dir", tdir, "-p", "vmain"], toolchain="+nightly", what="ASan harness",
                    env={"RUSTFLAGS": "--cfg minicbor_verif --cfg verif_no_alloc_monitor -Zsanitizer=address -Cforce-frame-pointers=yes"})
    except Inconclusive as ex:
        inconc.append("ASan build failed: %s" % str(ex)[-800:])
        return summ, viol, inconc
    binary = os.path.join(tdir, "x86_64-unknown-linux-gnu", "release", "vmain")
    reports, problems = run_workers(binary, sub, "asan", seed, NCPU, outdir, timeout=timeout, tag="asan",
                                    env={"ASAN_OPTIONS": "halt_on_error=1:abort_on_error=1:detect_leaks=1", "VERIF_WATCHDOG_SECS": "900"})
    m = merge_reports(reports)
    summ["evaluations"] = m["evaluations"]
    for sig, v in m["violations"].items():
        viol["%s [asan build]" % sig] = v
    for pr in problems:
        tail = pr.get("stderr_tail") or ""
        if "AddressSanitizer" in tail or "LeakSanitizer" in tail:
            first = [l.strip() for l in tail.splitlines() if "ERROR:" in l or "SUMMARY:" in l]
            frames = [l.strip() for l in tail.splitlines() if "/repo/" in l]
            sig = "%s|asan|%s" % (pid, (frames[0].split(" in ")[-1] if frames else (first[0] if first else "report"))[:120])
            v = viol.setdefault(sig, {"count": 0, "examples": []})
            v["count"] += 1
            if len(v["examples"]) < 2:
                v["examples"].append({"detail": {"what": " ; ".join(first + frames[:6])[:1500], "shard": pr.get("shard")}, "replay": []})
        else:
            inconc.append("asan shard %s failed (%s): %s" % (pr.get("shard"), pr.get("kind"), tail[-300:].replace("\n", " | ")))
    return summ, viol, inconc


VFUZZ = os.path.join(HARNESS, "vfuzz")


def fuzz_stage(pid, seed, vmain, outdir, seconds):
    """libFuzzer (cargo-fuzz, ASan build) as a coverage-guided workload source for C02: the
    evolved corpus and every crash / timeout / oom artifact are replayed through vmain's
    monitors, which give the verdict.  Returns (summary, violations, inconclusive, reports)."""
    summ = {"tool": "cargo +nightly fuzz run decode_any (libFuzzer, -fork=%d, AddressSanitizer)" % NCPU, "seconds": seconds}
    viol, inconc = {}, []
    corpus = os.path.join(outdir, "fuzz-corpus")
    art = os.path.join(outdir, "fuzz-artifacts")
    os.makedirs(art, exist_ok=True)
    e = dict(ENV)
    e["RUSTFLAGS"] = ""
    lock = os.path.join(VFUZZ, "fuzz", "Cargo.lock")
    if not os.path.exists(lock):
        shutil.copy(os.path.join(HARNESS, "Cargo.lock"), lock)
    b = subprocess.run(["cargo", "+nightly", "fuzz", "build", "decode_any"], cwd=VFUZZ, env=e, stdout=subprocess.PIPE, stderr=subprocess.STDOUT, text=True)
    if b.returncode != 0:
        inconc.append("libFuzzer target does not build against the current tree: %s" % b.stdout[-800:].replace("\n", " | "))
        return summ, viol, inconc, []
    subprocess.run([vmain, "c02", "--tier", "seedcorpus", "--seed", str(seed), "--dir", corpus], cwd=HARNESS, env=ENV, stdout=subprocess.DEVNULL, stderr=subprocess.DEVNULL)
    summ["seed_corpus_files"] = len(os.listdir(corpus)) if os.path.isdir(corpus) else 0
    cmd = ["cargo", "+nightly", "fuzz", "run", "decode_any", corpus, "--", "-max_total_time=%d" % seconds, "-fork=%d" % NCPU, "-timeout=20", "-malloc_limit_mb=256", "-rss_limit_mb=4096",
           "-max_len=512", "-len_control=0", "-seed=%d" % (seed + 1), "-ignore_crashes=1", "-ignore_timeouts=1", "-ignore_ooms=1", "-artifact_prefix=%s/" % art]
    try:
        p = subprocess.run(cmd, cwd=VFUZZ, env=e, stdout=subprocess.PIPE, stderr=subprocess.STDOUT, text=True, timeout=seconds + 600)
        out = p.stdout
    except subprocess.TimeoutExpired as ex:
        out = (ex.stdout or b"").decode("utf-8", "replace") if isinstance(ex.stdout, bytes) else (ex.stdout or "")
        inconc.append("libFuzzer did not stop within its time box")
    import re as _re
    stats = _re.findall(r"#(\d+): cov: (\d+) ft: (\d+) corp: (\d+)", out)
    if stats:
        n, cov, ft, corp = stats[-1]
        summ.update({"executions": int(n), "coverage_edges": int(cov), "features": int(ft), "corpus_units": int(corp)})
    else:
        inconc.append("no libFuzzer statistics in its output: %s" % out[-400:].replace("\n", " | "))
    arts = sorted(os.listdir(art))
    summ["artifacts"] = {k: len([a for a in arts if a.startswith(k)]) for k in ("crash", "timeout", "oom", "leak")}
    # replay: artifacts first (copied next to the corpus so that one pass covers both)
    for a in arts:
        shutil.copy(os.path.join(art, a), os.path.join(corpus, a))
    summ["corpus_files_replayed"] = len(os.listdir(corpus))
    reports, problems = run_workers(vmain, "c02", "fuzzreplay", seed, NCPU, os.path.join(outdir, "fuzzreplay"), extra=["--dir", corpus], timeout=3600, tag="fz")
    for pr in problems:
        inconc.append("fuzz replay shard %s failed (%s): %s" % (pr.get("shard"), pr.get("kind"), (pr.get("stderr_tail") or "")[-300:].replace("\n", " | ")))
    for r in reports:
        keep = []
        for n in r["notes"]:
            if n.startswith("ARTIFACT-NOT-REPRODUCED"):
                _, kind, name = n.split(" ", 2)
                if kind in ("crash", "leak"):
                    # the fuzz target only calls the library and asserts position <= len: a crash that
                    # the (non-ASan) monitors do not see is a sanitizer report or an assert
                    sig = "%s|libfuzzer|%s" % (pid, kind)
                    v = viol.setdefault(sig, {"count": 0, "examples": []})
                    v["count"] += 1
                    if len(v["examples"]) < 2:
                        data = open(os.path.join(art, name), "rb").read()
                        v["examples"].append({"detail": {"what": "libFuzzer %s artifact not reproduced by the monitors (AddressSanitizer report or assertion in the fuzz target)" % kind, "input": data[:400].hex(), "rerun": "cd harness/vfuzz && cargo +nightly fuzz run decode_any <file with these bytes>"}, "replay": ["c02", "--replay", "input", data[:4000].hex()]})
                else:
                    inconc.append("libFuzzer %s artifact %s is within the monitors' budgets when replayed (slow or loaded machine?)" % (kind, name))
            else:
                keep.append(n)
        r["notes"] = keep
    return summ, viol, inconc, reports


def sanitized_check(pid, tier, seed, spec):
    """Workers + Miri shard (both tiers) + ASan re-run (thorough)."""
    t0 = time.time()
    vmain = build_vmain()
    od = outdir_for(pid, tier)
    try:
        reports, problems = run_workers(vmain, spec["sub"], tier, seed, NCPU, od, timeout=spec.get("timeout", {}).get(tier, 7200))
        merged = merge_reports(reports)
        dh = merge_hashes(vmain, [od])
        san = {}
        ops = spec.get("miri_ops", {}).get(tier, 0)
        if ops:
            ms, mv, mi = miri_stage(pid, seed, ops, od)
            san["miri"] = ms
            merged["violations"].update(mv)
            merged["inconclusive"] += mi
            merged["evaluations"] += ms["ops"]
        if tier == "thorough" and spec.get("asan"):
            as_, av, ai = asan_stage(pid, spec["sub"], seed, od)
            san["asan"] = as_
            merged["violations"].update(av)
            merged["inconclusive"] += ai
            merged["evaluations"] += as_["evaluations"]
        if tier == "thorough" and spec.get("fuzz_seconds"):
            fs, fv, fi, freports = fuzz_stage(pid, seed, vmain, od, spec["fuzz_seconds"])
            san["libfuzzer"] = fs
            m2 = merge_reports(freports)
            for sig, v in m2["violations"].items():
                e = merged["violations"].setdefault(sig, {"count": 0, "examples": []})
                e["count"] += v["count"]
                e["examples"] += v["examples"][:2]
            for k, v in m2["counters"].items():
                merged["counters"][k] = merged["counters"].get(k, 0) + v
            merged["violations"].update({k: v for k, v in fv.items() if k not in merged["violations"]})
            merged["inconclusive"] += fi + m2["inconclusive"]
            merged["evaluations"] += m2["evaluations"] + fs.get("executions", 0)
            dh += merge_hashes(vmain, [os.path.join(od, "fuzzreplay")])
        extra_cov = {"sanitizers": san}
        if spec.get("derived_values"):
            # the same experiment for derived Encode impls, in the generated schema crate(s)
            crates = []
            for (name, gseed, ntypes, nchains) in gen_specs(tier, seed)[:2]:
                binary = build_gen_crate(name, gseed, ntypes, nchains)
                wd = os.path.join(od, "gen-" + name)
                reports, p2 = run_workers(binary, spec["sub"], tier, seed, NCPU, wd, extra=["--values", str(spec["derived_values"][tier])], timeout=3600)
                m2 = merge_reports(reports)
                for sig, v in m2["violations"].items():
                    e = merged["violations"].setdefault(sig, {"count": 0, "examples": []})
                    e["count"] += v["count"]
                    for ex in v["examples"][:2]:
                        if ex.get("replay"):
                            ex["replay"][0] = "%s@%s,%d,%d,%d" % (ex["replay"][0], name, gseed, ntypes, nchains)
                        e["examples"].append(ex)
                for k, v in m2["counters"].items():
                    merged["counters"][k] = merged["counters"].get(k, 0) + v
                merged["evaluations"] += m2["evaluations"]
                merged["inconclusive"] += m2["inconclusive"]
                merged["samples"] += m2["samples"][:2]
                problems += p2
                dh += merge_hashes(vmain, [wd])
                crates.append({"name": name, "generator_seed": gseed, "types_requested": ntypes})
            extra_cov["generated_crates"] = crates
        return finish(pid, tier, seed, spec, merged, problems, dh, time.time() - t0, extra_cov)
    finally:
        shutil.rmtree(od, ignore_errors=True)


# --------------------------------------------------------------------------- check table

COMMON_ASSUMPTIONS = [
    "verdict covers the executions this run produced, not all inputs",
    "reference models in harness/vcore (written from RFC 8949 / IEEE 754, independent of minicbor) are the oracle",
    "x86-64 host, std+half+derive build of /repo's working tree with --cfg minicbor_verif (hooks add-only)",
]

CHECKS = {
    "C01": {
        "sub": "c01",
        "level": "exploration",
        "technique": "runtime monitoring: round-trip oracle over generated and exhaustively enumerated values",
        "rule": "values are drawn from boundary-dense per-type generators (case i of a type is a pure function of (seed, type, i)) plus exhaustively enumerated small domains; a case is non-trivial when the value was encoded, decoded and compared; distinct = distinct hash of (type, encoded bytes) merged exactly across workers, plus enumerated cases (distinct by construction); every value also through the free functions (decode, decode_with, encode, encode_with, to_vec_with) and Decoder::decode_with; every Token variant (breaks, container / tag heads, indefinite starts included) inside Option / tuple / Vec / array / Result",
        "level_text": "Every one of ~140 concrete instantiations of the built-in impls is driven with boundary-dense generated values (and all values of the 8/16-bit types, bool and char; all 2^32 u32/i32/f32 in the thorough tier) through to_vec + decode under a panic/position monitor with the property's equality as oracle. Exploration is the right level: the value spaces are unbounded, the oracle is exact, and the width boundaries where such codecs break are enumerated rather than sampled.",
        "level_note": "Trusted: the per-type equality in harness/vmain/src/subj.rs and the generators' coverage of boundaries; HashSet/HashMap iteration order varies per process, which only permutes encodings.",
        "assumptions": COMMON_ASSUMPTIONS + ["Option<Option<_>>, IPv6 flow-info/scope-id are excluded as the property states; pre-epoch SystemTime and non-UTF-8 paths are generated and must be refused without panic"],
    },
}

CHECKS["C02"] = {
    "sub": "c02",
    "runner": sanitized_check,
    "miri_ops": {"quick": 640, "thorough": 8000},
    "asan": True,
    "fuzz_seconds": 150,
    "level": "exploration",
    "technique": "runtime monitoring with sanitizers: panic/step/stack-depth/allocation/position/drop monitors over hostile inputs; Miri on the unsafe paths; AddressSanitizer+LeakSanitizer re-run; libFuzzer (coverage-guided) as an additional workload source whose corpus and crashes are replayed through the monitors",
    "rule": "inputs: all byte strings of length <= 2 (quick) / 3 (thorough); all 256 initial bytes x every argument width x boundary arguments x fillers, alone and nested in 8 contexts; type-directed mutants of valid encodings of every built-in type, of random item trees and of arrays aimed at the [T; N] paths; deep nesting families (chains of up to 30 000 / 100 000 nested tags, one-element arrays, one-entry maps, indefinite containers, closed and cut short); large hostile inputs; in the thorough tier a 150 s x 16 fork libFuzzer session (ASan build) whose evolved corpus and artifacts are replayed through the same monitors. Each input runs through ~185 entry points (typed decode of every built-in type incl. drop-tracking containers, every accessor, skip, iterators drained and abandoned, tokens, probe, info::Size) and through random sequences of <= 8 decoder calls interleaved with set_position (incl. usize::MAX). distinct = enumerated inputs + distinct hashed mutants (each x all entry points)",
    "level_text": "Totality is an invariant, so no reference is needed: every call is wrapped in a panic guard, a step budget on the decoder's input-access hook (64*len+256; exceeding it is a non-termination verdict independent of machine load), a stack-depth budget on the same hook (192 KiB below the call whatever the input: recursion of the supported types is bounded by the type, so runaway recursion is observed as a verdict instead of a stack overflow), a counting allocator (16 KiB + 128*len peak, no single request above it, nothing retained), a position check and a drop-exactly-once monitor. The short-string space is enumerated completely, the declared-length space by boundary sweep, and the unsafe ArrayVec/ByteSlice code additionally runs under Miri (both tiers) and ASan/LSan (thorough).",
    "level_note": "Trusted: the step hook covers every decoder loop (each iteration calls current/read/peek/read_slice). Bounds are generous constants; pre-allocation from a declared length is >= 10^6 x larger. Inputs >= 2 GiB and 32-bit targets are out of reach. A clean Miri/ASan run covers the driven paths only.",
    "assumptions": COMMON_ASSUMPTIONS + ["user-defined recursive types are outside 'supported types'", "a decoding call may move the cursor to at most max(len, position before the call); from a position > len every call must fail"],
}

CHECKS["C03"] = {
    "sub": "c03",
    "level": "exploration",
    "technique": "runtime monitoring: encoder output checked by an independent RFC 8949 well-formedness parser and reference encoder",
    "rule": "every Encoder method is run over its argument space (u8/i8/u16/i16/simple/char exhaustively, u32/i32 exhaustively in the thorough tier, 64-bit arguments boundary-dense + random), every built-in Encode impl over generated values (encoded twice), random balanced call sequences built from generated item trees choosing among equivalent methods, the iterator adapters ArrayIter/MapIter with exact and inexact size hints (the same object encoded twice, also after a write fault part-way), and Encoder::tag given each registered IanaTag name against an independent RFC 8949 / RFC 8746 table; a case is non-trivial when the output reached the reference comparison; distinct = hash of the output bytes per (type | sequence), enumerated argument sweeps are distinct by construction",
    "level_text": "Each encoder call's bytes are parsed by an independent strict RFC 8949 parser (exactly one well-formed item, shortest heads, definite lengths) and compared byte-for-byte with a reference encoder for all canonical mappings; small argument spaces are enumerated, large ones sampled boundary-dense, and call sequences explore method equivalences. Exploration with an exact oracle is the right level for an encoder whose only state is the byte sink.",
    "level_note": "Trusted: harness/vcore/src/refcbor.rs (checked against RFC 8949 Appendix A vectors). std types whose shape is a crate convention (Duration, net types, ranges, Bound, Result) are only checked for well-formedness, preferred heads, definiteness and determinism. Known finding: Encoder::simple(24..=31).",
    "assumptions": COMMON_ASSUMPTIONS + ["Tag alone writes a head, not a complete item, and is compared against the reference head"],
}

CHECKS["C05"] = {
    "sub": "c05",
    "level": "exploration",
    "technique": "runtime monitoring: integer accessors vs i128 arithmetic oracle over enumerated (sign, width, argument) triples",
    "rule": "all (sign, head width, argument) triples with argument < 2^16 at every admissible width, every 2^k+-3 boundary at every width, random 64-bit arguments (and in the thorough tier all 2^32 arguments at the 4- and 8-byte widths) x {u8..i64, int, char, usize/isize, 10 NonZero types, Wrapping, Option, datatype}, plus Int conversions on i128 boundaries; every head is decoded at offset 0 of an exact buffer and again in the middle of a buffer (filler bytes before, trailing bytes after, decoder positioned at the item), same value and same number of bytes consumed required; distinct = enumerated triples + distinct hashed random triples; the range constants MIN_INT / MAX_INT against independently obtained range ends",
    "level_text": "The oracle is exact (i128 arithmetic and Rust's own TryFrom range tests), the space below 2^16 and all width boundaries are enumerated completely, and the thorough tier sweeps 2^32 arguments at the two wide head widths, so every comparison/cast in the accessors is exercised on both sides of every boundary.",
    "level_note": "Trusted: refcbor::head for building inputs. usize/isize are 64-bit on this host; 32-bit targets are not executed.",
    "assumptions": COMMON_ASSUMPTIONS,
}

CHECKS["C12"] = {
    "sub": "c12",
    "level": "exploration",
    "technique": "runtime monitoring: float codec vs exact integer-arithmetic IEEE 754 reference over enumerated bit patterns",
    "rule": "all 2^16 half patterns; quick: a stratified f32 subset (every sign/exponent x the top 11 mantissa bits x low bits around the half rounding boundary, dense in the half-subnormal range), thorough: all 2^32 f32 patterns and all f32-representable doubles; doubles at every exponent x mantissa edges and random patterns; each pattern goes through encode, decode at its own width, widening accessors, rejection by narrower accessors and Encoder::f16 rounding; distinct = enumerated patterns + hashed random patterns",
    "level_text": "Bit-exactness is decided on real encode/decode executions against a reference that uses only integer arithmetic on bit patterns (so it cannot share a rounding bug with the half crate or the FPU); the half domain is enumerated completely and the single domain completely in the thorough tier.",
    "level_note": "Trusted: harness/vcore/src/refnum.rs (self-tested: every finite half round-trips; ties-to-even cases). NaN across widths is only required to stay NaN; identical bits are required at equal width.",
    "assumptions": COMMON_ASSUMPTIONS,
}

CHECKS["C04"] = {
    "sub": "c04",
    "level": "exploration",
    "technique": "runtime monitoring: accessors and typed decodes vs an executable model of each target over reference items; strict-prefix replay",
    "rule": "items: all trees with <= 3 (quick) / 4 (thorough) nodes over a leaf alphabet with every head width, plus random trees (depth <= 8, non-preferred heads, indefinite containers) and shape-directed items; each item is decoded through ~85 accessors / target types (incl. &CStr / CString with byte strings shaped like C strings: terminator present, missing, doubled, interior NULs) on `encoding ++ suffix` (value, final position, provenance of borrowed slices compared with the model; non-matching targets must fail), and every target that accepted the item is re-run on every strict prefix (must fail with the end-of-input class); distinct = enumerated trees + distinct hashed random encodings; iterator laws include fuse() polled after None, on every item alone and with sibling items behind it",
    "level_text": "The model of every accessor/type over RFC 8949 items is an executable oracle; the small-tree space is enumerated completely with all head-width assignments, which is where shape/width confusions live, and every accepted encoding is cut at every offset. Exploration is the right level: the input space is unbounded and the oracle is exact.",
    "level_note": "Trusted: harness/vmain/src/c04.rs::model (written from the crate documentation) and refcbor. Where the statement is silent (simple() on f4..f7, tuples/unit from indefinite arrays) both an error and the model value are accepted, never another value. 'Well-formed' is read as well-formed and valid UTF-8.",
    "assumptions": COMMON_ASSUMPTIONS,
}

CHECKS["C06"] = {
    "sub": "c06",
    "runner": skip_check,
    "level": "exploration",
    "technique": "runtime monitoring: skip() position vs reference item-boundary parser, with step and allocation monitors",
    "rule": "all item trees with <= 4 (quick) / 5 (thorough) nodes over {definite, indefinite} x {array, map, string, bytes, tag, scalar}, random trees to depth 8 and adversarial nesting families (indefinite chains to depth 3000/10000, alternating definite/indefinite nesting, tag chains, maps with 2^k entries); each with 4 suffixes and all (or sampled, for long encodings) strict prefixes; distinct = enumerated trees + distinct hashed random encodings",
    "level_text": "skip() is run on real encodings whose exact item boundary is known from an independent parser; the counting<->stack mode switch is targeted by enumerating all small nestings and by adversarial families; every strict prefix must fail; the step hook and the counting allocator decide the linear-work and linear-memory parts without wall-clock. The no-alloc half runs against the separately built feature-matrix probe (harness/vcfg, configurations none and none+half, alloc for comparison): skip must stop exactly at the reference item end or return the documented refusal (accepted only when the item really nests an indefinite container in a definite one), and must fail on every strict prefix.",
    "level_note": "Trusted: refcbor::parse. Text in generated items is valid UTF-8 (skip validates text). Tables noalloc/* and alloc/* in the evidence count what the no-alloc build did.",
    "assumptions": COMMON_ASSUMPTIONS,
}

CHECKS["C11"] = {
    "sub": "c11",
    "level": "exploration",
    "technique": "runtime monitoring: tokenizer output vs reference token stream; re-encoding vs reference preferred form; tokenizer termination under the step monitor",
    "rule": "forward: item sequences (tokenised with Tokenizer::new, Decoder::tokens and Tokenizer::from(decoder) at the start and at a later item boundary; all small trees x head widths, all half patterns except signalling NaNs, all well-formed simple values, random sequences of 1-3 trees in preferred and non-preferred form) are tokenised, every token compared with the reference token, and re-encoded (must equal the preferred form); converse: random sequences of 1-64 tokens are encoded and tokenised back (value-equal); arbitrary bytes (all strings <= 2/3 bytes, head sweep, mutants): at most one token per byte and None forever after; distinct = enumerated + hashed",
    "level_text": "Both directions of the identity are decided on real executions against the independent reference token stream and encoder; the finite sub-domains the statement names are enumerated completely.",
    "level_note": "Trusted: refcbor::tokens / preferred. Signalling half NaNs are excluded as the property states.",
    "assumptions": COMMON_ASSUMPTIONS,
}

CHECKS["C19"] = {
    "sub": "c19",
    "level": "exploration",
    "technique": "runtime monitoring: display() into a length-limited fmt sink under panic/step/allocation monitors; exact rendering vs reference renderer",
    "rule": "totality: all byte strings <= 2 (quick) / 3 (thorough) bytes, every head with extreme declared lengths alone and nested in 8 contexts, mutated/truncated valid items, deep nesting families; exactness: all small trees, all non-NaN half patterns, random trees; output limit 16*len+256 bytes enforced by the sink; distinct = enumerated + hashed; dense containers of 0..=70, 100, 255..257, 1000, 5000 one-byte items; rendering under 8 format specs (width / precision / fill / sign flags)",
    "level_text": "The size bound and termination are decided deterministically (a sink that refuses output beyond the bound and a step budget on the decoder hook), exact rendering by comparison with an independent renderer of the documented notation.",
    "level_note": "Trusted: refcbor::diag (floats via Rust's {:e}); '[_ ]' vs '[_]' for empty indefinite containers is undocumented and both are accepted.",
    "assumptions": COMMON_ASSUMPTIONS,
}

CHECKS["C13"] = {
    "sub": "c13",
    "runner": sanitized_check,
    "miri_ops": {"quick": 320, "thorough": 4000},
    "asan": True,
    "derived_values": {"quick": 300, "thorough": 3000},
    "engine": "vmain+vgen",
    "level": "exploration",
    "technique": "runtime monitoring with sanitizers: canary-guarded sinks vs a (capacity, accepted) model; Miri and ASan on the slice writers",
    "rule": "values of every built-in type from the boundary-dense generators x every capacity 0..=len+1 (sampled for encodings > 200 bytes) plus ArrayIter/MapIter adapters with exact and inexact size hints x {&mut [u8], Cursor<&mut [u8]>, Cursor<Box<[u8]>>, Writer<io::Cursor<&mut [u8]>>, Cursor<[u8; N]> for 10 N, &mut Vec, Writer<Vec>}; plus all sequences of three raw write_all calls with lengths 0..=cap+1 for capacities 0..=12 on every cursor kind; plus values of every derived type of the generated schema crates (see C08) x every capacity into canary-guarded slices; distinct = distinct hashed (type, encoding) x capacities + enumerated raw sequences; single tokens, token vectors and scripts of 1-5 direct Encoder method calls (bare container / tag heads, indefinite starts, breaks, strings, scalars) as values; an io::Write with one transient non-retryable fault at every offset 0..=26, len/2, len-1",
    "level_text": "Every sink sits inside a larger buffer filled with a canary pattern, so an overrun is observed directly; success/failure is compared with the exact rule (fits iff encoding length <= capacity), the bytes left behind with the Vec encoding, the cursor position with the bytes accepted. Raw write sequences are enumerated exhaustively for small capacities. The slice writers additionally run under Miri (both tiers) and ASan (thorough).",
    "level_note": "Trusted: the Vec<u8> encoding as reference (its correctness is C03's subject). Values of derived types (the C08 generators) run the slice-sink experiment at every capacity in the generated schema crates.",
    "assumptions": COMMON_ASSUMPTIONS,
}

CHECKS["C07"] = {
    "sub": "c07",
    "runner": derive_check,
    "neg": True,
    "builtin_too": True,
    "values": {"quick": 5000, "thorough": 30000},
    "engine": "vmain+vgen",
    "level": "exploration",
    "technique": "runtime monitoring: len() vs bytes actually written, exact-size and one-byte-short slice experiments",
    "rule": "built-in impls: values of every built-in CborLen type from the boundary-dense generators, slices and borrowed forms, every Token variant (all 65536 half patterns, Simple 0..=255, byte strings with bytes >= 0x18); derived impls: every type of the generated schema crates (see C08: array/map, index gaps, every Some/None combination of up to 7 optional fields then random, tags at every level incl. on optional fields, >= 24 and >= 256 declared fields, transparent, skip, index_only, with/cbor_len custom codecs) x generated values; a case is non-trivial when encoding succeeded and len() was compared; distinct by hash of (type, encoding)",
    "level_text": "len(v) is compared with the number of bytes the encoder really writes, and the two buffer experiments (exactly len bytes suffices, len-1 fails, canary intact) are run for every value; the value spaces are unbounded so they are explored boundary-dense, the finite token sub-domains exhaustively.",
    "level_note": "Trusted: the encoder as the source of the true length (C03 checks it). A second stage builds 20 definitions the macros reject today (duplicate n/b indices in structs, tuple structs, variants and variant fields; transparent with zero / two / skipped extra fields; index_only with fields, on a struct, with a tag; missing indices; contradictory attributes): each must still fail to build, or, if a changed macro accepts it, pass the program's own self-check (len = bytes written, one well-formed item without duplicate map keys, round trip).",
    "assumptions": COMMON_ASSUMPTIONS,
}

CHECKS["C14"] = {
    "sub": "c14",
    "level": "fault_enumeration",
    "technique": "runtime monitoring under enumerated faults: scripted io::Read/Write (fragmentation, Interrupted, truncation) vs a framing reference model, with allocation monitor",
    "rule": "streams: 225 streams of <= 20 bytes (frames with decodable, undecodable and zero-length payloads, hostile prefixes) x every truncation point x compositions of the stream length into read sizes (all 2^(L-1), strided above the per-stream cap) x max_len in {64,3,2}; Interrupted inserted 0/1/2 times before each read (exhaustive for <= 10 reads); random long streams (<= 24 frames, payloads to 6 KiB and now and then up to ~90 KiB, delivered in pieces of 1-13 bytes or around 512 / 4096 / 8192 / 16384 bytes) with random scripts; half of the readers / writers are constructed with a caller-supplied buffer holding stale bytes; writer sequences (incl. values that fail to encode or exceed max_len) into a scripted short-write/Interrupted sink, read back. distinct = enumerated (stream, script, max_len) triples + hashed random streams; one writer sequence in 50 mixes values of 60 KiB-1.2 MiB with small ones under limits 100 / 512 KiB / 2 MiB",
    "level_text": "Faults (short reads, interrupted calls, truncation at every byte, oversized prefixes) are enumerated rather than sampled for all small streams, and the expected result sequence comes from an independent framing model over the stream bytes alone; the reader's buffer length, largest read request and peak allocation are measured against max_len.",
    "level_note": "Trusted: c14::refframe and refcbor for decoding payloads as Vec<u16>. A value of 2^32+100 payload bytes through the writer (the `as u32` of the frame length) is exercised in the thorough tier only, and only with >= 28 GiB of free memory; real 4 GiB frames through the reader are out of reach. After InvalidLen the stream is desynchronised by design; the model stops there.",
    "assumptions": COMMON_ASSUMPTIONS,
}

CHECKS["C15"] = {
    "sub": "c15",
    "level": "exploration",
    "technique": "runtime monitoring over systematically enumerated schedules: scripted AsyncRead + hand-written executor, online prefix monitor vs framing model, state-invariant hook",
    "rule": "schedules = sequences of source outcomes {deliver 1/2/all requested, Pending, transient error, end of stream} and caller decisions {poll again, drop the future and call read again}; exhaustive for every prefix of the single-frame streams; for every prefix of all 2- and 3-frame streams (<= 14 bytes) all schedules with <= 5 (quick) / 7 (thorough) deviations from two base policies (deliver everything / one byte at a time); seeded random walks over streams of up to 64 frames with payloads to 6 KiB and now and then ~40 KiB; every reader is constructed over a caller-supplied buffer with stale bytes (length varying, 0 included); each enumerated schedule is distinct by construction, random walks by hash of the choice vector",
    "level_text": "Cancellation safety is a property of schedules, so the schedule space is enumerated by re-execution under a deterministic executor: every poll outcome of the source and every drop/re-issue decision of the caller is a choice point. The monitor checks online that returned values are exactly the written prefix and, through the add-only state hook, that bytes consumed from the source equal completed frames plus the reader's recorded offset at every quiescent point. Liveness is restated as bounded progress (a poll budget linear in the stream).",
    "level_note": "Trusted: the scripted source and executor in harness/vmain/src/aio.rs; deviation bounding (as in delay-bounded scheduling) covers all placements of up to K non-default outcomes, not all schedules. If the hook is absent the state invariants are skipped and the evidence says io_hook=false.",
    "assumptions": COMMON_ASSUMPTIONS,
}

CHECKS["C16"] = {
    "sub": "c16",
    "level": "exploration",
    "technique": "runtime monitoring over systematically enumerated schedules: scripted AsyncWrite + hand-written executor, online prefix monitor on the sink bytes, state-invariant hook",
    "rule": "schedules = sink outcomes {accept 1/2/all, Pending, transient error, accept 0} and caller decisions {poll again, drop the write future then sync (itself droppable and re-issued)}; exhaustive for single-value writes, all schedules with <= 5 (quick) / 7 (thorough) deviations from two base policies for all value sequences of length 2 and 3 (values include one that fails to encode and ones above max_len; max_len in {64, 2}); seeded random walks over up to 48 values; every writer is constructed over a caller-supplied buffer with stale bytes; distinct by construction / by hash of the choice vector; one random walk in 64 writes frames of 70-400 KiB",
    "level_text": "The caller follows exactly the documented contract (cancel + sync before the next write); every sink outcome and caller decision is a choice point enumerated by re-execution. The monitor checks after every step that the sink is a prefix of the concatenated frames and equal at quiescence, that write returns the payload length, that idle sync does not touch the sink, that accept-0 yields WriteZero exactly when injected, and through the hook that sink length = completed frames + recorded offset.",
    "level_note": "Trusted: aio.rs (scripted sink, executor). Deviation bounding covers all placements of up to K non-default outcomes.",
    "assumptions": COMMON_ASSUMPTIONS,
}

CHECKS["C17"] = {
    "sub": "c17",
    "level": "exploration",
    "technique": "runtime monitoring: bridge output vs an independent reference serde Serializer + reference encoder; round-trip, re-framing and unknown-field replay",
    "rule": "values of ~50 serde types spanning every Serializer/Deserializer method and every enum representation (external, internal, adjacent, untagged, flatten), from boundary-dense generators; each value is serialised by the bridge and by RefSerializer (bytes must be equal), deserialised back (reference item of the result must be equal, decoder at the end), re-framed with wider heads (same value required) and indefinite containers (same value or error), and with unknown extra fields (arbitrary items) inserted into every struct map (same value required); borrowed &str / &[u8] reaching the visitor through deserialize_any (untagged, internally and adjacently tagged, flatten) must point into the input; strings written through collect_str (lengths on the head edges and 63/64/65, 1000) must be definite text and round-trip; distinct = hash of (type, bytes); field / variant names of 1..300 bytes on both sides of every head-width boundary; every value also read through a Deserializer reused across buffers (decoder_mut)",
    "level_text": "The documented representation is made executable as an independent serde Serializer that builds reference items; byte equality with the reference encoder decides representation and well-formedness at once, and comparison of reference items decides round-trip equality bit-exactly (floats included). Exploration over generated values of a type family that reaches every bridge method is the right level.",
    "level_note": "Trusted: harness/vmain/src/refser.rs (written from the bridge documentation), refcbor. Seven shapes that cannot round-trip through serde's content buffering are listed as open known findings (one signature per shape).",
    "assumptions": COMMON_ASSUMPTIONS + ["std types with deny-unknown-fields Deserialize impls (Duration, Range) get no unknown fields inserted"],
}

CHECKS["C18"] = {
    "sub": "c18",
    "level": "exploration",
    "technique": "runtime monitoring, differential: minicbor::to_vec/decode vs minicbor_serde::to_vec/from_slice on the shared data model",
    "rule": "values of ~55 types implementing both trait families (integers, bool, char, floats, String, unit, Option, Vec/VecDeque/BTreeSet, arrays to 32, tuples to 12, BTreeMap, Box, Wrapping, NonZero, nested) from the boundary-dense generators: both encoders must give identical bytes, both decoders the original value; then three re-framings of the item (wider heads, indefinite containers, both): a side may reject but neither may return a different value; distinct = hash of (type, bytes); tuples of every arity 1..=16",
    "level_text": "Each side is the other's oracle on every generated value and re-framing; disagreement on bytes or value is directly observable. Exploration is the right level for a differential property over unbounded value spaces.",
    "level_note": "Trusted: the Subject equality (floats bitwise). Outcome classes for re-framings (both accept / one rejects / both reject) are reported as evidence, only 'different value' is a violation.",
    "assumptions": COMMON_ASSUMPTIONS,
}

DERIVE_RULE = "programs: type definitions drawn from a schema grammar (named/tuple/unit structs, enums with unit/tuple/named variants; array/map at type, enum and variant level; index_only; transparent; skip; tag at struct/enum/variant/field level; indices with gaps, permuted against declaration order, >= 24 and >= 256; n vs b; field types from a pool of primitives, String, &str, Cow<str>, byte types with and without minicbor::bytes, Option/Vec/BTreeMap of those, previously generated types, a nil-aware custom codec via with+has_nil and via encode_with/decode_with/is_nil/nil/cbor_len) plus hand-picked shapes (26/260 optional fields, tagged optionals mid-array, Option<Option<_>>, unit variants with their own encoding override, Cow under #[b]); quick: one fixed crate (~200 types incl. twins and 16 version chains), thorough: 6 crates with VERIF_SEED-derived generator seeds; values: all presence combinations of the first 7 optional decisions (Gray-code masks) then random, boundary-dense field values"

CHECKS["C08"] = {
    "sub": "c08",
    "runner": derive_check,
    "neg": True,
    "values": {"quick": 5000, "thorough": 30000},
    "engine": "vgen",
    "level": "exploration",
    "technique": "runtime monitoring of generated programs: derived Encode output vs a reference encoder that interprets the schema description",
    "rule": DERIVE_RULE + "; each value's derived encoding must equal the reference encoding computed from the schema description (names, declaration order and n/b never enter the reference); twin types (renamed, declarations reversed, n<->b flipped) must give identical bytes; distinct = hash of (type, bytes)",
    "level_text": "The quantifier is over programs, so the workload generates programs: each generated type is compiled with the real derive macros and its output compared byte-for-byte with a reference encoder written from the documented format over the schema description, for all presence combinations of optional fields. This is exploration over a grammar with an exact oracle.",
    "level_note": "Trusted: harness/dsupport/src/refschema.rs (documented format), gen_schemas.py (the description it emits matches the attributes it writes). A field-level tag inside a transparent struct is outside the grammar (silently ignored by the macro on both sides). One documented-but-ambiguous corner is accepted either way: an absent tagged optional that is not trailing in an array may be `tag null` or `null`. A second stage builds 20 definitions the macros reject today (duplicate n/b indices in structs, tuple structs, variants and variant fields; transparent with zero / two / skipped extra fields; index_only with fields, on a struct, with a tag; missing indices; contradictory attributes): each must still fail to build, or, if a changed macro accepts it, pass the program's own self-check (len = bytes written, one well-formed item without duplicate map keys, round trip).",
    "assumptions": COMMON_ASSUMPTIONS,
}

CHECKS["C09"] = {
    "sub": "c09",
    "runner": derive_check,
    "neg": True,
    "values": {"quick": 5000, "thorough": 30000},
    "engine": "vgen",
    "level": "exploration",
    "technique": "runtime monitoring of generated programs: derived Decode of the derived encoding vs view equality, position, provenance of borrowed fields; re-framed and corrupted encodings",
    "rule": DERIVE_RULE + "; per value: decode(encode(v)) must equal v (skipped fields default), stop at the end, and every &str/&[u8]/&ByteSlice field and every Cow under #[b] must point into the input; re-framings documented as accepted (field containers and collections indefinite, wider heads) must give the same value, all-indefinite re-framings the same value or an error; corrupted encodings (wrong tag, stripped tag on a present value, mandatory field missing at top level or in the k-th nested value, unknown top-level variant) must fail with the documented error class; distinct = hash of (type, bytes)",
    "level_text": "Round-trip, exact consumption and zero-copy claims are observed on real derived code for generated programs; the negative cases are produced by editing the reference item tree, so each corruption is exactly one documented failure cause.",
    "level_note": "Trusted: refschema::expected_type / markers for re-framing; pointer-range provenance monitor. Option<Option<_>> decodes Some(None) as None (lossy by construction). A second stage builds 20 definitions the macros reject today (duplicate n/b indices in structs, tuple structs, variants and variant fields; transparent with zero / two / skipped extra fields; index_only with fields, on a struct, with a tag; missing indices; contradictory attributes): each must still fail to build, or, if a changed macro accepts it, pass the program's own self-check (len = bytes written, one well-formed item without duplicate map keys, round trip).",
    "assumptions": COMMON_ASSUMPTIONS,
}

CHECKS["C10"] = {
    "sub": "c10",
    "runner": derive_check,
    "values": {"quick": 4000, "thorough": 20000},
    "engine": "vgen",
    "level": "exploration",
    "technique": "runtime monitoring of generated program pairs: reader result vs a compatibility projection over two schema descriptions",
    "rule": "version chains: from a random base struct (with an enum used only as an optional field) apply 1-4 documented-compatible edits (rename everything; add an optional field at a new highest index or at a never-used gap index, plain, tagged or with the nil-aware codec; drop an optional field; add a variant, regular or index_only; turn a unit variant into a tuple/struct variant with only optional fields; flip n/b); every ordered pair of versions is checked with all writer values (presence masks + random): the reader must obtain the projection computed from the two schema descriptions, consume everything, also after fields unknown to every version (arbitrary items: nested indefinite containers, indefinite strings, half floats, tags) were injected into the top-level and every nested field container, and also when the evolved type is nested in a struct, a map-encoded struct, an enum variant or a tuple with a sibling after it; control: a reader with an added mandatory field must report missing-value; distinct = hash of (pair, bytes); three chains start from a unit-syntax struct; forced chains carry a pass-through codec on the optional enum field and end with an added variant",
    "level_text": "Compatibility is a property of pairs of programs; the generator derives version chains by the documented edits, compiles every version with the real macros and compares what the reader obtains with a projection computed only from the two schema descriptions. Nesting with a trailing sibling makes mis-consumed input observable.",
    "level_note": "Trusted: refschema::project. Indices are never reused with another meaning along a chain (that would not be a compatible change).",
    "assumptions": COMMON_ASSUMPTIONS,
}


CHECKS["C20"] = {
    "sub": "c20",
    "runner": cfg_check,
    "engine": "vmain+vcfg",
    "level": "exploration",
    "technique": "runtime monitoring, differential across builds: six separately compiled feature configurations run as servers, an online monitor compares (class, value digest, position, error position) per operation and input and accepts only the documented differences",
    "rule": "inputs: all byte strings of length <= 2, the structured head sweep (every initial byte x argument width x boundary argument x filler), all item trees with <= 3 (quick) / 4 (thorough) nodes bare and inside a definite array, valid encodings of the derived and serde types defined in the probe and their variations (truncations, wider heads, indefinite containers, unknown fields holding indefinite containers / half floats / indefinite strings, replaced leaves, byte mutants), random trees, shape-directed items, items dense in half floats and nested indefinite containers, random bytes; each input goes to every operation of every configuration (~130 operations without alloc, ~190 with std+half: accessors, iterators, skip, probe, tokens, display, encoder methods, typed decode + re-encode + len of the built-in types, derived types, serde deserialize + serialize incl. deserialize_any, ignored_any, collect_str); distinct = enumerated inputs + distinct hashed generated inputs; serde collect_seq / collect_map with exact, inexact and unknown size hints; a visitor behind deserialize_any that accepts only borrowed data",
    "level_text": "The property quantifies over builds, so the workload is the same deterministic corpus run through separately compiled binaries (Cargo feature unification makes this impossible inside one test run); every pair of configurations sharing an operation is compared on every input, and a difference is accepted only if it matches one of the four documented rules, each with a necessary condition checked on the input (refusal text + an indefinite head after a definite one; error positioned at 0xf9; serde type error positioned at 0x5f/0x7f; the collect_str operation). Exploration with a differential oracle is the right level: the input space is unbounded and each configuration is the others' reference.",
    "level_note": "Trusted: the probe's operation table (harness/vcfg) is the same source in every configuration, gated by the same cfgs as the library. Error texts are never compared (documented to differ); display output is compared up to the inline error marker. The probe is built without the verification cfg. 32-bit targets are not executed.",
    "assumptions": COMMON_ASSUMPTIONS + ["the probe binaries use std for I/O only; minicbor, minicbor-serde and serde are compiled with exactly the features of the configuration"],
}


def write_manifest():
    ids = [json.loads(l)["id"] for l in open(os.path.join(ROOT, "properties.jsonl"))]
    hooks = json.load(open(os.path.join(ROOT, "MANIFEST.json")))["hooks"]
    checks = []
    for pid in ids:
        spec = CHECKS.get(pid)
        if not spec or spec.get("unregistered"):
            continue
        checks.append({
            "property_id": pid,
            "quick_cmd": "./run.py check %s quick" % pid,
            "thorough_cmd": "./run.py check %s thorough" % pid,
            "evidence_file": "/verif/evidence/%s.json" % pid,
            "replay_cmd_template": "./run.py replay {path}",
            "engine": spec.get("engine", "vmain"),
            "level_claimed": {"category": spec["level"], "text": spec["level_text"], "design_ref": spec.get("design_ref", "DESIGN.md section 4, " + pid)},
            "level_note": spec["level_note"],
            "technique": spec["technique"],
        })
    na = [{"property_id": pid, "reason": NOT_APPLICABLE.get(pid, "check not yet registered in this session (under construction)")} for pid in ids if pid not in [c["property_id"] for c in checks]]
    m = {
        "version": 1,
        "setup_cmd": "./run.py build",
        "hooks": hooks,
        "engines": [
            {"name": "vmain", "path": "harness/vmain", "serves_properties": [c["property_id"] for c in checks if "vmain" in c["engine"]], "kind_free_text": "Rust worker binary linking /repo's crates (std+half+derive, --cfg minicbor_verif): workload generators, reference models, runtime monitors; orchestrated by run.py"},
            {"name": "vcfg", "path": "harness/vcfg", "serves_properties": [c["property_id"] for c in checks if "vcfg" in c["engine"]] + ["C06"], "kind_free_text": "feature-matrix probe: one binary per configuration {none, alloc, std} x {half off, on} of minicbor + minicbor-serde (derive on), serving operation outcomes to the differential driver in vmain"},
            {"name": "vgen", "path": "gen_schemas.py + harness/dsupport", "serves_properties": [c["property_id"] for c in checks if "vgen" in c["engine"]], "kind_free_text": "schema generator emitting Rust crates that are compiled with /repo's derive macros; reference semantics over schema descriptions in harness/dsupport"},
        ],
        "checks": checks,
        "not_applicable": na,
        "notes": "All checks are runtime monitors over real executions of /repo's working tree; see DESIGN.md. Exit codes: 0 held, 1 violation (VIOLATION line), 2 inconclusive (INCONCLUSIVE line).",
    }
    with open(os.path.join(ROOT, "MANIFEST.json"), "w") as f:
        json.dump(m, f, indent=1)
        f.write("\n")
    return m


NOT_APPLICABLE = {}


def do_check(pid, tier):
    seed = int(os.environ.get("VERIF_SEED", "0") or 0)
    spec = CHECKS.get(pid)
    if spec is None:
        log("INCONCLUSIVE property=%s reason=no such check" % pid)
        return 2
    try:
        runner = spec.get("runner", simple_check)
        return runner(pid, tier, seed, spec)
    except Inconclusive as ex:
        log("INCONCLUSIVE property=%s reason=%s" % (pid, str(ex)[:3000]))
        return 2


def do_replay(path):
    r = json.load(open(path))
    pid = r["property"]
    argv = r.get("argv") or []
    if not argv:
        log("replay file has no argv (detail: %s)" % json.dumps(r.get("detail"))[:500])
        return 2
    spec = CHECKS[pid]
    try:
        if "@" in argv[0]:
            sub, g = argv[0].split("@")
            name, gseed, ntypes, nchains = g.split(",")
            binary = build_gen_crate(name, int(gseed), int(ntypes), int(nchains))
            argv = [sub] + argv[1:]
        else:
            binary = build_vmain()
            if pid in ("C20", "C06"):
                build_vcfg()
    except Inconclusive as ex:
        log("INCONCLUSIVE property=%s reason=%s" % (pid, ex))
        return 2
    od = outdir_for(pid, "replay")
    out = os.path.join(od, "replay.json")
    # argv = [sub, (--seed N)?, --replay, ...]
    cmd = [binary, argv[0], "--out", out] + argv[1:]
    p = subprocess.run(cmd, cwd=HARNESS, env=ENV)
    rc = 2
    if os.path.exists(out):
        rep = json.load(open(out))
        if rep["violations"]:
            for v in rep["violations"]:
                log("VIOLATION property=%s replay=%s" % (pid, path))
                log("  signature: %s" % v["signature"])
                log("  detail: %s" % json.dumps(v["examples"][0]["detail"])[:1000])
            rc = 1
        else:
            log("replay of %s did not reproduce a violation (evaluations=%d)" % (path, rep["evaluations"]))
            rc = 0
    else:
        log("replay worker failed rc=%s" % p.returncode)
    shutil.rmtree(od, ignore_errors=True)
    return rc


def main(argv):
    if len(argv) >= 2 and argv[1] == "build":
        try:
            build_vmain()
            build_vcfg()
            build_gen_crate(*QUICK_GEN)
        except Inconclusive as ex:
            log(str(ex))
            return 1
        return 0
    if len(argv) >= 4 and argv[1] == "check":
        return do_check(argv[2], argv[3])
    if len(argv) >= 3 and argv[1] == "replay":
        return do_replay(argv[2])
    if len(argv) >= 2 and argv[1] == "manifest":
        m = write_manifest()
        log("MANIFEST.json: %d checks, %d not_applicable" % (len(m["checks"]), len(m["not_applicable"])))
        return 0
    if len(argv) >= 2 and argv[1] == "seeded":
        import seeded_runner
        return seeded_runner.main(argv[2:])
    log(__doc__)
    return 2


if __name__ == "__main__":
    sys.exit(main(sys.argv))
