//! Small workloads for the Miri interpreter: they reach every branch of the
//! `unsafe` code in minicbor (`ArrayVec` behind `[T; N]` decoding, the
//! `ByteSlice` reference casts) and the slice writers, with a drop-counting
//! element type.  Miri detects uninitialised reads, double drops, invalid
//! reference casts and out-of-bounds pointer arithmetic that no value oracle
//! can see.  Output: one summary line `VMIRI ok ops=<n> checks=<m>`; any
//! logical failure prints `VMIRI-FAIL ...` and exits 1; UB aborts Miri.
//!
//! usage: vmiri <seed> <shard> <nshards> <ops>

use minicbor::bytes::{ByteArray, ByteSlice, ByteVec};
use minicbor::encode::write::Cursor;
use minicbor::{Decode, Decoder, Encoder};
use std::borrow::{Borrow, BorrowMut};
use std::cell::RefCell;

thread_local! {
    static TRACK: RefCell<Vec<u8>> = RefCell::new(Vec::new());
    static DOUBLE: RefCell<u32> = RefCell::new(0);
}

#[derive(Debug)]
struct Tracked(usize, Box<u8>);

impl<'b, C> Decode<'b, C> for Tracked {
    fn decode(d: &mut Decoder<'b>, _: &mut C) -> Result<Self, minicbor::decode::Error> {
        let n = d.u8()?;
        if n == 0xee {
            return Err(minicbor::decode::Error::message("refused"));
        }
        let id = TRACK.with(|t| {
            let mut t = t.borrow_mut();
            t.push(1);
            t.len() - 1
        });
        // the Box makes a leak or a double drop visible to Miri itself
        Ok(Tracked(id, Box::new(n)))
    }
}

impl Drop for Tracked {
    fn drop(&mut self) {
        let ok = TRACK.with(|t| match t.borrow_mut().get_mut(self.0) {
            Some(s) if *s == 1 => {
                *s = 2;
                true
            }
            _ => false,
        });
        if !ok {
            DOUBLE.with(|d| *d.borrow_mut() += 1)
        }
    }
}

struct Rng(u64);
impl Rng {
    fn next(&mut self) -> u64 {
        self.0 = self.0.wrapping_add(0x9E37_79B9_7F4A_7C15);
        let mut z = self.0;
        z = (z ^ (z >> 30)).wrapping_mul(0xBF58_476D_1CE4_E5B9);
        z = (z ^ (z >> 27)).wrapping_mul(0x94D0_49BB_1331_11EB);
        z ^ (z >> 31)
    }
    fn below(&mut self, n: u64) -> u64 {
        self.next() % n
    }
}

fn fail(msg: String) -> ! {
    println!("VMIRI-FAIL {}", msg);
    std::process::exit(1)
}

fn track_check(what: &str, input: &[u8]) {
    let (created, live) = TRACK.with(|t| {
        let t = t.borrow();
        (t.len(), t.iter().filter(|s| **s == 1).count())
    });
    let dbl = DOUBLE.with(|d| *d.borrow());
    if live != 0 || dbl != 0 {
        fail(format!("{}: {} created, {} never dropped, {} dropped twice, input {:02x?}", what, created, live, dbl, input));
    }
    TRACK.with(|t| t.borrow_mut().clear());
}

fn array_input(rng: &mut Rng, n: usize) -> Vec<u8> {
    // k elements around N, optionally a failing / mismatching element, definite or indefinite, optionally truncated
    let k = match rng.below(5) {
        0 => n,
        1 => n.saturating_sub(1),
        2 => n + 1,
        3 => 0,
        _ => rng.below(n as u64 + 3) as usize,
    };
    let indef = rng.below(3) == 0;
    let mut b = Vec::new();
    if indef {
        b.push(0x9f)
    } else if k < 24 {
        b.push(0x80 | k as u8)
    } else {
        b.push(0x98);
        b.push(k as u8)
    }
    let bad = if k > 0 && rng.below(2) == 0 { Some(rng.below(k as u64) as usize) } else { None };
    for i in 0..k {
        if Some(i) == bad {
            match rng.below(3) {
                0 => b.extend_from_slice(&[0x18, 0xee]),
                1 => b.extend_from_slice(&[0x61, 0x78]),
                _ => b.extend_from_slice(&[0x19, 0x01, 0x00]),
            }
        } else {
            b.push((rng.below(24)) as u8)
        }
    }
    if indef {
        b.push(0xff)
    }
    if rng.below(5) == 0 && !b.is_empty() {
        let cut = rng.below(b.len() as u64) as usize;
        b.truncate(cut)
    }
    b
}

fn decode_arrays(rng: &mut Rng, checks: &mut u64) {
    macro_rules! go {
        ($n:expr) => {{
            let b = array_input(rng, $n).into_boxed_slice();
            let r: Result<[Tracked; $n], _> = minicbor::decode(&b);
            if let Ok(a) = &r {
                for (i, t) in a.iter().enumerate() {
                    if *t.1 as usize > 23 {
                        fail(format!("element {} has value {}", i, t.1))
                    }
                }
            }
            drop(r);
            track_check(concat!("[Tracked; ", stringify!($n), "]"), &b);
            *checks += 1;
        }};
    }
    match rng.below(6) {
        0 => go!(0),
        1 => go!(1),
        2 => go!(3),
        3 => go!(32),
        4 => {
            let b = array_input(rng, 4).into_boxed_slice();
            let r: Result<[[Tracked; 2]; 2], _> = minicbor::decode(&b);
            drop(r);
            let mut v = vec![0x82];
            v.extend_from_slice(&array_input(rng, 2));
            v.extend_from_slice(&array_input(rng, 2));
            let r: Result<[[Tracked; 2]; 2], _> = minicbor::decode(&v);
            drop(r);
            track_check("[[Tracked; 2]; 2]", &v);
            *checks += 1;
        }
        _ => {
            let b = array_input(rng, 3).into_boxed_slice();
            let r: Result<Vec<[Tracked; 1]>, _> = minicbor::decode(&b);
            drop(r);
            let r: Result<(Tracked, Tracked, Tracked), _> = minicbor::decode(&b);
            drop(r);
            let r: Result<[String; 2], _> = minicbor::decode(&[0x82, 0x61, 0x61, 0x62, 0x62, 0x63][..]);
            if r.map(|a| a[1].clone()).ok() != Some("bc".to_string()) {
                fail("[String; 2] value".into())
            }
            let r: Result<[String; 2], _> = minicbor::decode(&[0x83, 0x61, 0x61, 0x61, 0x62, 0x61, 0x63][..]);
            if r.is_ok() {
                fail("[String; 2] accepted 3 elements".into())
            }
            track_check("Vec<[Tracked;1]> / tuple", &b);
            *checks += 1;
        }
    }
}

fn byte_slices(rng: &mut Rng, checks: &mut u64) {
    let n = rng.below(40) as usize;
    let mut data: Vec<u8> = (0..n).map(|_| rng.next() as u8).collect();
    // &[u8] -> &ByteSlice and back
    let bs: &ByteSlice = data.as_slice().into();
    if bs.len() != n || &bs[..] != &data[..] {
        fail("ByteSlice from &[u8]".into())
    }
    let enc = minicbor::to_vec(bs).unwrap().into_boxed_slice();
    let back: &ByteSlice = minicbor::decode(&enc).unwrap();
    if &back[..] != &data[..] {
        fail("ByteSlice round trip".into())
    }
    // &mut [u8] -> &mut ByteSlice, write through it
    {
        let ms: &mut ByteSlice = data.as_mut_slice().into();
        for x in ms.iter_mut() {
            *x = x.wrapping_add(1)
        }
        let r: &mut [u8] = ms.as_mut();
        if let Some(f) = r.first_mut() {
            *f ^= 0xff
        }
    }
    // Borrow / BorrowMut impls
    let mut v = data.clone();
    let b1: &ByteSlice = v.borrow();
    let l1 = b1.len();
    let b2: &mut ByteSlice = v.borrow_mut();
    if let Some(x) = b2.last_mut() {
        *x = 7
    }
    let mut bv = ByteVec::from(data.clone());
    let b3: &ByteSlice = bv.borrow();
    let l3 = b3.len();
    let b4: &mut ByteSlice = bv.borrow_mut();
    if let Some(x) = b4.first_mut() {
        *x = 9
    }
    let mut ba = ByteArray::<5>::from([1u8, 2, 3, 4, 5]);
    let b5: &ByteSlice = ba.borrow();
    let l5 = b5.len();
    let b6: &mut ByteSlice = ba.borrow_mut();
    b6[4] = 0;
    if l1 != n || l3 != n || l5 != 5 || ba[4] != 0 {
        fail("Borrow impls".into())
    }
    let owned: ByteVec = bs_to_owned(&data);
    if &owned[..] != &data[..] {
        fail("ToOwned".into())
    }
    // zero-length slices (dangling pointers)
    let empty: &ByteSlice = (&[][..]).into();
    if !empty.is_empty() {
        fail("empty ByteSlice".into())
    }
    // ByteArray decode with matching / mismatching lengths
    let e5 = minicbor::to_vec(&ba).unwrap();
    if minicbor::decode::<ByteArray<5>>(&e5).is_err() || minicbor::decode::<ByteArray<4>>(&e5).is_ok() || minicbor::decode::<ByteArray<0>>(&[0x40]).is_err() {
        fail("ByteArray decode".into())
    }
    // CStr
    let c = std::ffi::CString::new(data.iter().map(|x| x | 1).collect::<Vec<u8>>()).unwrap();
    let ce = minicbor::to_vec(c.as_c_str()).unwrap().into_boxed_slice();
    let cb: &std::ffi::CStr = minicbor::decode(&ce).unwrap();
    if cb != c.as_c_str() {
        fail("CStr".into())
    }
    if minicbor::decode::<&std::ffi::CStr>(&[0x42, 0x61, 0x62]).is_ok() {
        fail("CStr without nul accepted".into())
    }
    *checks += 1;
}

fn bs_to_owned(d: &[u8]) -> ByteVec {
    let bs: &ByteSlice = d.into();
    bs.to_owned()
}

fn writers(rng: &mut Rng, checks: &mut u64) {
    // encode a small structure into slices / cursors of every capacity 0..=len+1
    let val = (rng.next() as u16, "hé", [rng.next() as u8; 3], Some(rng.next() as i32));
    let full = minicbor::to_vec(&val).unwrap();
    for cap in 0..=full.len() + 1 {
        let mut buf = vec![0xa5u8; cap + 8];
        let r = minicbor::encode(&val, &mut buf[4..4 + cap]);
        if r.is_ok() != (full.len() <= cap) {
            fail(format!("slice writer cap {} len {}", cap, full.len()))
        }
        if buf[..4] != [0xa5; 4] || buf[4 + cap..] != [0xa5; 4] {
            fail("slice writer wrote outside the sink".into())
        }
        let mut c = Cursor::new(&mut buf[4..4 + cap]);
        let r = Encoder::new(&mut c).encode(&val).map(|_| ());
        if r.is_ok() != (full.len() <= cap) || c.position() > cap {
            fail(format!("cursor cap {} pos {}", cap, c.position()))
        }
        let mut cb = Cursor::new(vec![0u8; cap].into_boxed_slice());
        let r = Encoder::new(&mut cb).encode(&val).map(|_| ());
        if r.is_ok() != (full.len() <= cap) {
            fail("boxed cursor".into())
        }
        let mut ca = Cursor::new([0u8; 9]);
        let r = Encoder::new(&mut ca).encode(&val).map(|_| ());
        if r.is_ok() != (full.len() <= 9) {
            fail("array cursor".into())
        }
    }
    *checks += 1;
}

fn main() {
    let argv: Vec<String> = std::env::args().collect();
    let seed: u64 = argv.get(1).and_then(|s| s.parse().ok()).unwrap_or(0);
    let shard: u64 = argv.get(2).and_then(|s| s.parse().ok()).unwrap_or(0);
    let nshards: u64 = argv.get(3).and_then(|s| s.parse().ok()).unwrap_or(1);
    let ops: u64 = argv.get(4).and_then(|s| s.parse().ok()).unwrap_or(100);
    let mut checks = 0u64;
    let mut kinds = [0u64; 3];
    for i in 0..ops {
        if i % nshards != shard {
            continue;
        }
        let mut rng = Rng(seed.wrapping_mul(0x1000_0001).wrapping_add(i));
        match i % 8 {
            0..=4 => {
                decode_arrays(&mut rng, &mut checks);
                kinds[0] += 1
            }
            5 | 6 => {
                byte_slices(&mut rng, &mut checks);
                kinds[1] += 1
            }
            _ => {
                writers(&mut rng, &mut checks);
                kinds[2] += 1
            }
        }
    }
    println!("VMIRI ok ops={} checks={} array_decodes={} byteslice_ops={} writer_ops={}", kinds.iter().sum::<u64>(), checks, kinds[0], kinds[1], kinds[2]);
}
