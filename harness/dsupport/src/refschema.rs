//! Reference semantics of the derive format, implemented from the
//! documentation of `minicbor-derive` over *schema descriptions*:
//!
//! * array encoding: `array(m+1)` with m the highest index of a present
//!   (non-nil) field, each field at its index, gaps and absent optionals null;
//! * map encoding: `map(k)` of the k present fields, index keys ascending,
//!   absent optionals omitted;
//! * enum: `array(2) [index, body]` (unit body = empty array / map per the
//!   variant's encoding) or the bare index when index-only;
//! * tags immediately precede what they annotate (type, variant body, field);
//! * transparent = the field, skipped fields are absent.

use crate::{Encoding, FieldSchema, Kind, Registry, Ty, TypeSchema, View};
use vcore::refcbor::Item;

/// Private marker tags wrapped around containers so that the harness can
/// re-frame them; `strip` removes them.
pub const M_BODY: u64 = 0xfeed_0000_0000_b0d1; // field container of a struct / variant
pub const M_COLL: u64 = 0xfeed_0000_0000_c011; // Vec / BTreeMap value

pub fn is_marker(t: u64) -> bool {
    t == M_BODY || t == M_COLL
}

fn mark(m: u64, i: Item) -> Item {
    Item::Tag { w: 8, v: m, inner: Box::new(i) }
}

#[derive(Clone, Copy, Debug, Default)]
pub struct EncOpts {
    /// An absent *tagged* optional that is not trailing in an array is written
    /// as plain null instead of `tag null` (documented-but-ambiguous corner).
    pub nil_plain: bool,
    /// Omit the field with this index from the top-level body (negative test).
    pub omit_top_index: Option<u32>,
    /// Replace the top-level variant index (negative test).
    pub force_variant_index: Option<u32>,
    /// Omit a mandatory field of a *nested* value (see `encode_omit_nested`).
    pub omit_nested: bool,
}

thread_local! {
    static NESTED_TARGET: std::cell::Cell<i64> = const { std::cell::Cell::new(-1) };
}

/// Encode `v` with a mandatory field missing from the `k`-th nested struct / variant body (in
/// traversal order) that has one; `None` if there are not that many.
pub fn encode_omit_nested(reg: &Registry, s: &TypeSchema, v: &View, k: u32) -> Option<Item> {
    NESTED_TARGET.with(|c| c.set(k as i64));
    let it = encode_type(reg, s, v, &EncOpts { omit_nested: true, ..Default::default() });
    let left = NESTED_TARGET.with(|c| c.replace(-1));
    if left < 0 {
        Some(it)
    } else {
        None
    }
}

/// The index of a mandatory field whose omission from the encoding of `view` makes the value
/// undecodable (map: any mandatory field; array: only the highest present index can be "missing").
pub fn victim(schema: &TypeSchema, view: &View) -> Option<u32> {
    let (fields, vals, encoding) = match (&schema.kind, view) {
        (Kind::Struct { fields, encoding, transparent: false }, View::Struct(v)) => (fields, v, *encoding),
        (Kind::Enum { variants, index_only: false }, View::Enum(k, v)) if !variants[*k].unit => (&variants[*k].fields, v, variants[*k].encoding),
        _ => return None,
    };
    let mandatory = |f: &FieldSchema| !f.skip && !matches!(f.ty, Ty::Opt(_) | Ty::NilU32 | Ty::Tri);
    match encoding {
        Encoding::Map => fields.iter().filter(|f| mandatory(f)).map(|f| f.index).next(),
        Encoding::Array => {
            let top = fields.iter().zip(vals.iter()).filter(|(f, v)| !f.skip && !is_nil(&f.ty, v)).max_by_key(|(f, _)| f.index);
            match top {
                Some((f, _)) if mandatory(f) => Some(f.index),
                _ => None,
            }
        }
    }
}

pub fn is_nil(ty: &Ty, v: &View) -> bool {
    match (ty, v) {
        (Ty::Opt(_), View::None) => true,
        (Ty::NilU32, View::U(0)) => true,
        (Ty::Tri, View::U(0)) => true,
        _ => false,
    }
}

pub fn encode_ty(reg: &Registry, ty: &Ty, v: &View, o: &EncOpts) -> Item {
    match (ty, v) {
        (Ty::U8 | Ty::U16 | Ty::U32 | Ty::U64, View::U(n)) => Item::uint(*n),
        (Ty::I8 | Ty::I16 | Ty::I32 | Ty::I64, View::I(n)) => Item::int(*n as i128),
        (Ty::Bool, View::Bool(b)) => Item::bool(*b),
        (Ty::Char, View::Char(c)) => Item::uint(*c as u64),
        (Ty::F32, View::F32(b)) => Item::F32(*b),
        (Ty::F64, View::F64(b)) => Item::F64(*b),
        (Ty::Str, View::Str(s)) => Item::text(s),
        (Ty::Bytes, View::Bytes(b)) => Item::bytes(b),
        (Ty::Opt(_), View::None) => Item::null(),
        (Ty::Opt(t), View::Some(x)) => encode_ty(reg, t, x, o),
        (Ty::Vec(t), View::Seq(xs)) => mark(M_COLL, Item::array(xs.iter().map(|x| encode_ty(reg, t, x, o)).collect())),
        (Ty::Map(k, t), View::Map(xs)) => mark(M_COLL, Item::map(xs.iter().map(|(a, b)| (encode_ty(reg, k, a, o), encode_ty(reg, t, b, o))).collect())),
        (Ty::Named(n), x) => {
            let sch = &reg[n];
            // negative test: omit a mandatory field of the k-th nested value that has one
            let mut omit = None;
            if o.omit_nested {
                if let Some(idx) = if sch.loose { None } else { victim(sch, x) } {
                    let left = NESTED_TARGET.with(|c| c.get());
                    if left == 0 {
                        omit = Some(idx);
                    }
                    NESTED_TARGET.with(|c| c.set(left - 1));
                }
            }
            encode_type(reg, sch, x, &EncOpts { omit_top_index: omit, force_variant_index: None, ..*o })
        }
        (Ty::Tagged(n, t), x) => Item::tag(*n, encode_ty(reg, t, x, o)),
        (Ty::Opaque(t), x) => encode_ty(reg, t, x, o),
        (Ty::Phantom, _) => Item::array(vec![]),
        (Ty::Tri, View::U(0)) => Item::undefined(),
        (Ty::Tri, View::U(1)) => Item::null(),
        (Ty::Tri, View::U(n)) => Item::uint(*n - 2),
        (Ty::NilU32, View::U(0)) => Item::null(),
        (Ty::NilU32, View::U(n)) => Item::uint(*n),
        (t, x) => panic!("view {:?} does not fit type {:?}", x, t),
    }
}

fn with_tag(tag: Option<u64>, i: Item) -> Item {
    match tag {
        Some(t) => Item::tag(t, i),
        None => i,
    }
}

fn field_item(reg: &Registry, f: &FieldSchema, v: &View, o: &EncOpts) -> Item {
    with_tag(f.tag, encode_ty(reg, &f.ty, v, o))
}

pub fn fields_body(reg: &Registry, fields: &[FieldSchema], vals: &[View], enc: Encoding, o: &EncOpts, omit: Option<u32>) -> Item {
    // (index, field, value) of the fields that are written at all
    let mut live: Vec<(u32, &FieldSchema, &View)> = fields.iter().zip(vals.iter()).filter(|(f, _)| !f.skip && Some(f.index) != omit).map(|(f, v)| (f.index, f, v)).collect();
    live.sort_by_key(|x| x.0);
    match enc {
        Encoding::Array => {
            let max = live.iter().filter(|(_, f, v)| !is_nil(&f.ty, v)).map(|x| x.0).max();
            let items = match max {
                None => vec![],
                Some(m) => {
                    let mut items = vec![Item::null(); m as usize + 1];
                    for (i, f, v) in &live {
                        if *i <= m {
                            items[*i as usize] = if is_nil(&f.ty, v) && o.nil_plain { encode_ty(reg, &f.ty, v, o) } else { field_item(reg, f, v, o) };
                        }
                    }
                    items
                }
            };
            mark(M_BODY, Item::array(items))
        }
        Encoding::Map => {
            let items: Vec<(Item, Item)> = live.iter().filter(|(_, f, v)| !is_nil(&f.ty, v)).map(|(i, f, v)| (Item::uint(*i as u64), field_item(reg, f, v, o))).collect();
            mark(M_BODY, Item::map(items))
        }
    }
}

pub fn encode_type(reg: &Registry, s: &TypeSchema, v: &View, o: &EncOpts) -> Item {
    match (&s.kind, v) {
        (Kind::Struct { encoding, transparent, fields }, View::Struct(vals)) => {
            if *transparent {
                let (f, x) = fields.iter().zip(vals.iter()).find(|(f, _)| !f.skip).expect("transparent field");
                return encode_ty(reg, &f.ty, x, o);
            }
            with_tag(s.tag, fields_body(reg, fields, vals, *encoding, o, o.omit_top_index))
        }
        (Kind::Enum { index_only, variants }, View::Enum(k, vals)) => {
            let var = &variants[*k];
            let idx = o.force_variant_index.unwrap_or(var.index);
            if *index_only {
                return Item::uint(idx as u64);
            }
            let body = if var.unit {
                match var.encoding {
                    Encoding::Array => mark(M_BODY, Item::array(vec![])),
                    Encoding::Map => mark(M_BODY, Item::map(vec![])),
                }
            } else {
                fields_body(reg, &var.fields, vals, var.encoding, o, o.omit_top_index)
            };
            with_tag(s.tag, Item::array(vec![Item::uint(idx as u64), with_tag(var.tag, body)]))
        }
        (k, x) => panic!("view {:?} does not fit schema {:?}", x, k),
    }
}

/// Remove the markers.
pub fn strip(i: &Item) -> Item {
    match i {
        Item::Tag { v, inner, .. } if is_marker(*v) => strip(inner),
        Item::Tag { w, v, inner } => Item::Tag { w: *w, v: *v, inner: Box::new(strip(inner)) },
        Item::Array { w, items } => Item::Array { w: *w, items: items.iter().map(strip).collect() },
        Item::Map { w, items } => Item::Map { w: *w, items: items.iter().map(|(k, v)| (strip(k), strip(v))).collect() },
        x => x.clone(),
    }
}

/// Remove the markers, switching marked containers to indefinite length with
/// probability pct (documented as accepted by the derived decoders).
pub fn strip_indefinite(i: &Item, rng: &mut vcore::rng::Rng, pct: u64) -> Item {
    match i {
        Item::Tag { v, inner, .. } if is_marker(*v) => {
            let x = strip_indefinite(inner, rng, pct);
            if rng.chance(pct, 100) {
                match x {
                    Item::Array { items, .. } => Item::Array { w: None, items },
                    Item::Map { items, .. } => Item::Map { w: None, items },
                    y => y,
                }
            } else {
                x
            }
        }
        Item::Tag { w, v, inner } => Item::Tag { w: *w, v: *v, inner: Box::new(strip_indefinite(inner, rng, pct)) },
        Item::Array { w, items } => Item::Array { w: *w, items: items.iter().map(|x| strip_indefinite(x, rng, pct)).collect() },
        Item::Map { w, items } => Item::Map { w: *w, items: items.iter().map(|(k, v)| (strip_indefinite(k, rng, pct), strip_indefinite(v, rng, pct))).collect() },
        x => x.clone(),
    }
}

/// The value a decoder must produce for an encoded view: skipped fields take
/// their default.
pub fn expected_after_decode(reg: &Registry, ty: &Ty, v: &View) -> View {
    match (ty, v) {
        // an Option directly inside an Option is lossy by construction: Some(None) is written as null
        (Ty::Opt(t), View::Some(x)) if matches!(**t, Ty::Opt(_)) && **x == View::None => View::None,
        (Ty::Opt(t), View::Some(x)) => View::Some(Box::new(expected_after_decode(reg, t, x))),
        (Ty::Vec(t), View::Seq(xs)) => View::Seq(xs.iter().map(|x| expected_after_decode(reg, t, x)).collect()),
        (Ty::Map(k, t), View::Map(xs)) => View::Map(xs.iter().map(|(a, b)| (expected_after_decode(reg, k, a), expected_after_decode(reg, t, b))).collect()),
        (Ty::Named(n), x) => expected_type(reg, &reg[n], x),
        (Ty::Tagged(_, t), x) => expected_after_decode(reg, t, x),
        (Ty::Opaque(t), x) => expected_after_decode(reg, t, x),
        (_, x) => x.clone(),
    }
}

pub fn default_view(reg: &Registry, ty: &Ty) -> View {
    match ty {
        Ty::U8 | Ty::U16 | Ty::U32 | Ty::U64 | Ty::NilU32 | Ty::Tri => View::U(0),
        Ty::I8 | Ty::I16 | Ty::I32 | Ty::I64 => View::I(0),
        Ty::Bool => View::Bool(false),
        Ty::Char => View::Char('\0'),
        Ty::F32 => View::F32(0),
        Ty::F64 => View::F64(0),
        Ty::Str => View::Str(String::new()),
        Ty::Bytes => View::Bytes(vec![]),
        Ty::Opt(_) => View::None,
        Ty::Vec(_) | Ty::Phantom => View::Seq(vec![]),
        Ty::Map(..) => View::Map(vec![]),
        Ty::Named(n) => panic!("no default for named type {} ({:?})", n, reg.get(n).map(|s| s.name)),
        Ty::Tagged(_, t) | Ty::Opaque(t) => default_view(reg, t),
    }
}

fn expected_fields(reg: &Registry, fields: &[FieldSchema], vals: &[View]) -> Vec<View> {
    fields.iter().zip(vals.iter()).map(|(f, v)| if f.skip { default_view(reg, &f.ty) } else { expected_after_decode(reg, &f.ty, v) }).collect()
}

pub fn expected_type(reg: &Registry, s: &TypeSchema, v: &View) -> View {
    match (&s.kind, v) {
        (Kind::Struct { fields, .. }, View::Struct(vals)) => View::Struct(expected_fields(reg, fields, vals)),
        (Kind::Enum { variants, .. }, View::Enum(k, vals)) => View::Enum(*k, expected_fields(reg, &variants[*k].fields, vals)),
        (k, x) => panic!("view {:?} does not fit schema {:?}", x, k),
    }
}

// ---------------------------------------------------------------------------
// compatibility projection

#[derive(Debug, Clone, PartialEq)]
pub enum Projected {
    Value(View),
    /// a mandatory field of the reader is absent: decoding must fail with the missing-value class
    MissingValue,
}

/// What a reader with schema `r` must obtain from a value `v` written under
/// schema `w`, where `w` and `r` are versions of one type related by the
/// documented compatible changes.  `pair` maps a writer type name to the
/// reader's version of the nested type (same name when unchanged).
pub fn project(reg: &Registry, w: &TypeSchema, r: &TypeSchema, v: &View, pair: &dyn Fn(&str) -> &'static str) -> Projected {
    match (&w.kind, &r.kind, v) {
        (Kind::Struct { fields: wf, .. }, Kind::Struct { fields: rf, .. }, View::Struct(vals)) => match project_fields(reg, wf, rf, vals, pair) {
            Some(x) => Projected::Value(View::Struct(x)),
            None => Projected::MissingValue,
        },
        (Kind::Enum { variants: wv, .. }, Kind::Enum { variants: rv, .. }, View::Enum(k, vals)) => {
            let widx = wv[*k].index;
            match rv.iter().position(|x| x.index == widx) {
                None => panic!("project: top-level enum variant {} unknown to the reader", widx),
                Some(rk) => match project_fields(reg, &wv[*k].fields, &rv[rk].fields, vals, pair) {
                    Some(x) => Projected::Value(View::Enum(rk, x)),
                    None => Projected::MissingValue,
                },
            }
        }
        _ => panic!("project: schema kinds differ"),
    }
}

fn project_fields(reg: &Registry, wf: &[FieldSchema], rf: &[FieldSchema], vals: &[View], pair: &dyn Fn(&str) -> &'static str) -> Option<Vec<View>> {
    let mut out = Vec::new();
    for r in rf {
        if r.skip {
            out.push(default_view(reg, &r.ty));
            continue;
        }
        let src = wf.iter().zip(vals.iter()).find(|(f, _)| !f.skip && f.index == r.index);
        let present = match src {
            Some((f, v)) if !is_nil(&f.ty, v) => Some((f, v)),
            _ => None,
        };
        match present {
            Some((f, v)) => out.push(project_value(reg, &f.ty, &r.ty, v, pair)),
            None => match &r.ty {
                Ty::Opt(_) => out.push(View::None),
                Ty::NilU32 => out.push(View::U(0)),
                _ => return None,
            },
        }
    }
    Some(out)
}

/// Field values keep their type across versions, except an optional enum
/// whose reader version may not know the variant (then `None`), and a unit
/// variant that became a variant with optional fields (then all `None`).
fn project_value(reg: &Registry, wt: &Ty, rt: &Ty, v: &View, pair: &dyn Fn(&str) -> &'static str) -> View {
    match (wt, rt, v) {
        (Ty::Opt(a), Ty::Opt(b), View::Some(x)) => match (&**a, &**b) {
            (Ty::Named(wn), Ty::Named(rn)) if wn != rn || pair(wn) != *wn => {
                let ws = &reg[wn];
                let rs = &reg[rn];
                match project_opt_enum(reg, ws, rs, x, pair) {
                    Some(y) => View::Some(Box::new(y)),
                    None => View::None,
                }
            }
            _ => View::Some(Box::new(project_value(reg, a, b, x, pair))),
        },
        (Ty::Named(wn), Ty::Named(rn), x) if wn != rn => match project(reg, &reg[wn], &reg[rn], x, pair) {
            Projected::Value(y) => y,
            Projected::MissingValue => panic!("nested missing value is not generated"),
        },
        (a, _, x) => expected_after_decode(reg, a, x),
    }
}

fn project_opt_enum(reg: &Registry, ws: &TypeSchema, rs: &TypeSchema, v: &View, pair: &dyn Fn(&str) -> &'static str) -> Option<View> {
    match (&ws.kind, &rs.kind, v) {
        (Kind::Enum { variants: wv, .. }, Kind::Enum { variants: rv, .. }, View::Enum(k, vals)) => {
            let widx = wv[*k].index;
            let rk = rv.iter().position(|x| x.index == widx)?;
            let fields = project_fields(reg, &wv[*k].fields, &rv[rk].fields, vals, pair).expect("variant fields added across versions are optional");
            Some(View::Enum(rk, fields))
        }
        (Kind::Struct { .. }, Kind::Struct { .. }, x) => match project(reg, ws, rs, x, pair) {
            Projected::Value(y) => Some(y),
            Projected::MissingValue => panic!("nested missing value is not generated"),
        },
        _ => panic!("project_opt_enum: kinds differ"),
    }
}


/// Indices above every index the schema generator ever uses (<= 300 plus a few chain steps).
pub const UNKNOWN_INDEX_BASE: u64 = 340;

/// Add fields unknown to *every* version of every generated type to the field containers of a
/// marked encoding (markers removed in the result): array bodies are padded with nulls and get
/// arbitrary items at indices >= UNKNOWN_INDEX_BASE, map bodies get arbitrary items under keys
/// >= UNKNOWN_INDEX_BASE appended after the known keys (ascending order is kept).  `pct` is the
/// probability per container.  Returns the item and the number of injected fields.
pub fn inject_unknown(i: &Item, rng: &mut vcore::rng::Rng, pct: u64, n: &mut u32) -> Item {
    match i {
        Item::Tag { v, inner, .. } if *v == M_BODY => {
            let body = inject_unknown(inner, rng, pct, n);
            if !rng.chance(pct, 100) {
                return body;
            }
            match body {
                Item::Array { w: Some(_), mut items } => {
                    let upto = UNKNOWN_INDEX_BASE as usize + rng.usize_below(3);
                    while items.len() < upto {
                        items.push(Item::null())
                    }
                    for _ in 0..1 + rng.below(2) {
                        items.push(vcore::gen::gen_hot_item(rng, 3));
                        *n += 1;
                    }
                    Item::array(items)
                }
                Item::Map { w: Some(_), mut items } => {
                    let mut key = UNKNOWN_INDEX_BASE + rng.below(700);
                    for _ in 0..1 + rng.below(2) {
                        items.push((Item::uint(key), vcore::gen::gen_hot_item(rng, 3)));
                        key += 1 + rng.below(70_000);
                        *n += 1;
                    }
                    Item::map(items)
                }
                other => other,
            }
        }
        Item::Tag { v, inner, .. } if is_marker(*v) => inject_unknown(inner, rng, pct, n),
        Item::Tag { w, v, inner } => Item::Tag { w: *w, v: *v, inner: Box::new(inject_unknown(inner, rng, pct, n)) },
        Item::Array { w, items } => Item::Array { w: *w, items: items.iter().map(|x| inject_unknown(x, rng, pct, n)).collect() },
        Item::Map { w, items } => Item::Map { w: *w, items: items.iter().map(|(k, x)| (inject_unknown(k, rng, pct, n), inject_unknown(x, rng, pct, n))).collect() },
        x => x.clone(),
    }
}
