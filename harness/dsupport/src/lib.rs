//! Runtime support for the generated derive-schema crates (C07 derived part,
//! C08, C09, C10): the schema description, a schema-generic value view, the
//! reference encoder / projector written from the minicbor-derive
//! documentation (never from the macro output), and the monitors.

pub mod codecs;
pub mod drivers;
pub mod refschema;

use vcore::rng::Rng;

/// Schema-generic value tree.
#[derive(Clone, Debug, PartialEq)]
pub enum View {
    U(u64),
    I(i64),
    Bool(bool),
    Char(char),
    F32(u32),
    F64(u64),
    Str(String),
    Bytes(Vec<u8>),
    None,
    Some(Box<View>),
    Seq(Vec<View>),
    Map(Vec<(View, View)>),
    /// Field values in the order of `TypeSchema::fields`.
    Struct(Vec<View>),
    /// Variant position in `TypeSchema::variants` and its field values.
    Enum(usize, Vec<View>),
}

#[derive(Clone, Debug, PartialEq)]
pub enum Ty {
    U8,
    U16,
    U32,
    U64,
    I8,
    I16,
    I32,
    I64,
    Bool,
    Char,
    F32,
    F64,
    /// text string (String, &str, Cow<str>)
    Str,
    /// byte string (ByteVec, &ByteSlice, and Vec<u8> / [u8; N] / &[u8] / Cow<[u8]> with `minicbor::bytes`)
    Bytes,
    Opt(Box<Ty>),
    Vec(Box<Ty>),
    /// BTreeMap<K, V>
    Map(Box<Ty>, Box<Ty>),
    /// another schema type, by name
    Named(&'static str),
    /// `minicbor::data::Tagged<N, T>`: tag N, then the value; never nil itself
    Tagged(u64, Box<Ty>),
    /// `Box<T>` / `Cow<'_, T>` around a sized `T`: encodes as its content, but is never nil itself
    /// (neither impl forwards `is_nil` / `nil`), so such a field is always written and mandatory
    Opaque(Box<Ty>),
    /// `dsupport::codecs::tri::Tri` (view U(0) = Keep = nil, U(1) = Clear = null, U(n+2) = Set(n))
    Tri,
    /// `core::marker::PhantomData<_>`: the empty definite array, never nil (view `Seq([])`)
    Phantom,
    /// u32 with the custom nil-aware codec (`dsupport::codecs::nilu32`): 0 is nil and is written as null
    NilU32,
}

#[derive(Clone, Copy, Debug, PartialEq, Eq)]
pub enum Encoding {
    Array,
    Map,
}

#[derive(Clone, Debug)]
pub struct FieldSchema {
    pub index: u32,
    pub tag: Option<u64>,
    pub skip: bool,
    pub ty: Ty,
    /// declared with #[b(..)]
    pub borrow: bool,
}

#[derive(Clone, Debug)]
pub struct VariantSchema {
    pub index: u32,
    pub tag: Option<u64>,
    /// effective encoding of the variant body (variant override, else enum level, else array)
    pub encoding: Encoding,
    pub unit: bool,
    pub fields: Vec<FieldSchema>,
}

#[derive(Clone, Debug)]
pub enum Kind {
    Struct { encoding: Encoding, transparent: bool, fields: Vec<FieldSchema> },
    Enum { index_only: bool, variants: Vec<VariantSchema> },
}

#[derive(Clone, Debug)]
pub struct TypeSchema {
    pub name: &'static str,
    pub tag: Option<u64>,
    pub kind: Kind,
    /// The wire format of this type is not fixed by the documentation (partial custom codecs):
    /// only format-independent checks run it (len == bytes written, bounded sinks, plain round trip).
    pub loose: bool,
    /// Only `Encode` and `CborLen` are derived (nothing is decoded).
    pub encode_only: bool,
}

/// Pre-generated strings and byte strings that borrowed fields point into.
pub struct Arena {
    pub strs: Vec<String>,
    pub bytes: Vec<Vec<u8>>,
}

impl Arena {
    pub fn new(rng: &mut Rng) -> Arena {
        let mut strs: Vec<String> = vec![String::new(), "a".into(), "hé€😀".into(), "x".repeat(23), "y".repeat(24), "z".repeat(256)];
        let mut bytes: Vec<Vec<u8>> = vec![vec![], vec![0], vec![0x18, 0xff], vec![7; 23], vec![8; 24], vec![9; 255], vec![1; 256]];
        for _ in 0..6 {
            strs.push(vcore::gen::gen_string(rng, false));
            bytes.push(vcore::gen::gen_bytes(rng, false));
        }
        Arena { strs, bytes }
    }
    pub fn str(&self, rng: &mut Rng) -> &str {
        &self.strs[rng.usize_below(self.strs.len())]
    }
    pub fn bytes(&self, rng: &mut Rng) -> &[u8] {
        &self.bytes[rng.usize_below(self.bytes.len())]
    }
}

/// Presence control for the optional fields of the top-level value: when a
/// mask is set, the k-th optional decision is taken from bit k.
pub struct Presence {
    pub mask: Option<u64>,
    pub next: u32,
}

impl Presence {
    pub fn random() -> Self {
        Presence { mask: None, next: 0 }
    }
    pub fn masked(m: u64) -> Self {
        Presence { mask: Some(m), next: 0 }
    }
    pub fn present(&mut self, rng: &mut Rng) -> bool {
        match self.mask {
            Some(m) if self.next < 64 => {
                let b = (m >> self.next) & 1 == 1;
                self.next += 1;
                b
            }
            _ => rng.chance(3, 5),
        }
    }
}

pub type Registry = std::collections::BTreeMap<&'static str, TypeSchema>;
