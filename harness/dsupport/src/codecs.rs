//! Hand-written nil-aware codec used by generated types through
//! `#[cbor(with = "dsupport::codecs::nilu32", has_nil)]` and through the
//! separate `encode_with` / `decode_with` / `is_nil` / `nil` / `cbor_len`
//! attributes.  The value 0 is the nil value and is written as CBOR null.

pub mod nilu32 {
    use minicbor::decode::{self, Decoder};
    use minicbor::encode::{self, Encoder, Write};

    pub fn encode<Ctx, W: Write>(v: &u32, e: &mut Encoder<W>, _: &mut Ctx) -> Result<(), encode::Error<W::Error>> {
        if *v == 0 {
            e.null()?;
        } else {
            e.u32(*v)?;
        }
        Ok(())
    }

    pub fn decode<'b, Ctx>(d: &mut Decoder<'b>, _: &mut Ctx) -> Result<u32, decode::Error> {
        if d.datatype()? == minicbor::data::Type::Null {
            d.skip()?;
            return Ok(0);
        }
        d.u32()
    }

    pub fn is_nil(v: &u32) -> bool {
        *v == 0
    }

    pub fn nil() -> Option<u32> {
        Some(0)
    }

    pub fn cbor_len<Ctx>(v: &u32, ctx: &mut Ctx) -> usize {
        if *v == 0 {
            1
        } else {
            minicbor::CborLen::cbor_len(v, ctx)
        }
    }
}

/// Plain pass-through codec functions, used to attach only *one* of `decode_with` /
/// `encode_with` to a field (the other direction then goes through the trait impls).
pub mod plain {
    use minicbor::decode::{self, Decoder};
    use minicbor::encode::{self, Encoder, Write};

    pub fn dec_opt_u16<'b, Ctx>(d: &mut Decoder<'b>, ctx: &mut Ctx) -> Result<Option<u16>, decode::Error> {
        d.decode_with(ctx)
    }

    pub fn enc_opt_u16<Ctx, W: Write>(v: &Option<u16>, e: &mut Encoder<W>, ctx: &mut Ctx) -> Result<(), encode::Error<W::Error>> {
        e.encode_with(v, ctx)?;
        Ok(())
    }

    pub fn is_nil_opt_u16(v: &Option<u16>) -> bool {
        v.is_none()
    }
}

/// A generic pass-through codec module (`with = "dsupport::codecs::pass"`): every function goes
/// straight to the trait impl, so a field carrying it must behave exactly like the same field
/// without the attribute (including every lenience the macros grant an `Option<..>` field).
pub mod pass {
    use minicbor::decode::{self, Decode, Decoder};
    use minicbor::encode::{self, CborLen, Encode, Encoder, Write};

    pub fn decode<'b, Ctx, T: Decode<'b, Ctx>>(d: &mut Decoder<'b>, ctx: &mut Ctx) -> Result<T, decode::Error> {
        d.decode_with(ctx)
    }

    pub fn encode<Ctx, T: Encode<Ctx>, W: Write>(v: &T, e: &mut Encoder<W>, ctx: &mut Ctx) -> Result<(), encode::Error<W::Error>> {
        e.encode_with(v, ctx)?;
        Ok(())
    }

    pub fn cbor_len<Ctx, T: CborLen<Ctx>>(v: &T, ctx: &mut Ctx) -> usize {
        v.cbor_len(ctx)
    }
}

/// A three-state field type: `Keep` is the nil value (omitted where the format allows, written as
/// `undefined` otherwise), `Clear` is a *non-nil* value that is written as CBOR null, `Set(n)` an
/// unsigned integer.  A decoder that treats every null as "absent" confuses `Clear` with `Keep`.
pub mod tri {
    use minicbor::decode::{self, Decoder};
    use minicbor::encode::{self, Encoder, Write};

    #[derive(Debug, Clone, Copy, PartialEq, Eq, Default)]
    pub enum Tri {
        #[default]
        Keep,
        Clear,
        Set(u8),
    }

    pub fn encode<Ctx, W: Write>(v: &Tri, e: &mut Encoder<W>, _: &mut Ctx) -> Result<(), encode::Error<W::Error>> {
        match v {
            Tri::Keep => e.undefined()?,
            Tri::Clear => e.null()?,
            Tri::Set(n) => e.u8(*n)?,
        };
        Ok(())
    }

    pub fn decode<'b, Ctx>(d: &mut Decoder<'b>, _: &mut Ctx) -> Result<Tri, decode::Error> {
        match d.datatype()? {
            minicbor::data::Type::Undefined => d.undefined().map(|_| Tri::Keep),
            minicbor::data::Type::Null => d.null().map(|_| Tri::Clear),
            _ => d.u8().map(Tri::Set),
        }
    }

    pub fn is_nil(v: &Tri) -> bool {
        *v == Tri::Keep
    }

    pub fn nil() -> Option<Tri> {
        Some(Tri::Keep)
    }

    pub fn cbor_len<Ctx>(v: &Tri, _: &mut Ctx) -> usize {
        match v {
            Tri::Set(n) if *n >= 24 => 2,
            _ => 1,
        }
    }
}
