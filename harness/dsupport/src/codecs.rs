//! Hand-written nil-aware codec used by generated types through
//! `#[cbor(with = "dsupport::codecs::nilu32", has_nil)]` and through the
//! separate `encode_with` / `decode_with` / `is_nil` / `nil` / `cbor_len`
//! attributes.  The value 0 is the nil value and is written as CBOR null.

pub mod nilu32 {
    use minicbor::decode::{self, Decoder};
    use minicbor::encode::{self, Encoder, Write};

    pub fn encode<Ctx, W: Write>(v: &u32, e: &mut Encoder<W>, _: &mut Ctx) -> Result<(), encode::Error<W::Error>> {
        if *v == 0 {
            e.null()?;
        } else {
            e.u32(*v)?;
        }
        Ok(())
    }

    pub fn decode<'b, Ctx>(d: &mut Decoder<'b>, _: &mut Ctx) -> Result<u32, decode::Error> {
        if d.datatype()? == minicbor::data::Type::Null {
            d.skip()?;
            return Ok(0);
        }
        d.u32()
    }

    pub fn is_nil(v: &u32) -> bool {
        *v == 0
    }

    pub fn nil() -> Option<u32> {
        Some(0)
    }

    pub fn cbor_len<Ctx>(v: &u32, ctx: &mut Ctx) -> usize {
        if *v == 0 {
            1
        } else {
            minicbor::CborLen::cbor_len(v, ctx)
        }
    }
}
