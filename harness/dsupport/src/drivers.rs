//! Monitors for the derived codecs, generic over generated type families.

use crate::refschema::{self, EncOpts, Projected};
use crate::{Arena, Kind, Presence, Registry, Ty, TypeSchema, View};
use minicbor::{CborLen, Decode, Decoder, Encode};
use vcore::gen;
use vcore::json::{hex, J};
use vcore::mon::{self, Canary};
use vcore::refcbor::{self, Item};
use vcore::report::Report;
use vcore::rng::{fnv64, hash_mix, Rng};

/// A generated type at one lifetime.
pub trait Case<'a>: Sized + Encode<()> + Decode<'a, ()> + CborLen<()> {
    fn gen(rng: &mut Rng, arena: &'a Arena, p: &mut Presence, depth: u32) -> Self;
    fn view(&self) -> View;
    /// Every borrowing field points into `input` (and `Cow`s under `#[b]` are `Borrowed`).
    fn borrow_check(&self, input: &[u8]) -> Result<(), String>;
}

/// A generated type family (the type at every lifetime).
pub trait Fam {
    const NAME: &'static str;
    type T<'a>: Case<'a>;
}

fn short(s: String) -> String {
    if s.len() > 400 {
        format!("{}…", s.chars().take(400).collect::<String>())
    } else {
        s
    }
}

fn viol(rep: &mut Report, pid: &str, ty: &str, kind: &str, what: String, bytes: &[u8], replay: &[String]) {
    rep.violation(&format!("{}|{}|{}", pid, ty, kind), J::obj().with("type", J::s(ty)).with("what", J::s(short(what))).with("bytes", J::s(hex(&bytes[..bytes.len().min(120)]))), replay.to_vec());
}

fn diag(i: &Item) -> String {
    if i.text_valid() {
        short(refcbor::diag(i))
    } else {
        format!("<{} bytes>", i.encode().len())
    }
}

/// Generate value `i` of a family (with an explicit presence mask for small i).
fn gen_value<'a, F: Fam>(seed: u64, i: u64, arena: &'a Arena) -> F::T<'a> {
    let mut rng = Rng::derive(&format!("derive/{}", F::NAME), seed, 0, i);
    let mut p = if i < 128 { Presence::masked(i ^ (i >> 1)) } else { Presence::random() };
    <F::T<'a> as Case<'a>>::gen(&mut rng, arena, &mut p, 0)
}

fn arena_for(seed: u64) -> Arena {
    let mut r = Rng::derive("derive/arena", seed, 0, 0);
    Arena::new(&mut r)
}

// ---------------------------------------------------------------------------
// C07 (derived) + C08 + C09 on one value

#[derive(Default)]
pub struct Which {
    pub c07: bool,
    pub c08: bool,
    pub c09: bool,
    pub c13: bool,
}

pub fn check_value<F: Fam>(reg: &Registry, rep: &mut Report, seed: u64, i: u64, w: &Which, sub: &str) {
    let arena = arena_for(seed);
    let v = gen_value::<F>(seed, i, &arena);
    let schema = &reg[F::NAME];
    let view = v.view();
    let ty = F::NAME;
    let rp = vec![sub.to_string(), "--seed".into(), seed.to_string(), "--replay".into(), ty.to_string(), i.to_string()];
    rep.eval();
    let bytes = match mon::guarded(|| minicbor::to_vec(&v)) {
        Err(p) => return viol(rep, "C08", ty, "encode-panic", p.message, &[], &rp),
        Ok(Err(e)) => return viol(rep, "C08", ty, "encode-error", e.to_string(), &[], &rp),
        Ok(Ok(b)) => b,
    };
    rep.seen(hash_mix(fnv64(ty.as_bytes()), fnv64(&bytes)));
    // ---- C07: len() is exact ---------------------------------------------------
    if w.c07 {
        let n = minicbor::len(&v);
        if n != bytes.len() {
            viol(rep, "C07", ty, "derived-len", format!("len() = {} but {} bytes are written for {}", n, bytes.len(), diag(&refschema::strip(&refschema::encode_type(reg, schema, &view, &EncOpts::default())))), &bytes, &rp);
        } else {
            let mut c = Canary::new(n, 8);
            if minicbor::encode(&v, c.sink()).is_err() || c.content() != &bytes[..] || !c.intact() {
                viol(rep, "C07", ty, "derived-exact-buffer", format!("a buffer of exactly len() = {} bytes does not take the encoding", n), &bytes, &rp);
            }
            if n > 0 {
                let mut c = Canary::new(n - 1, 8);
                if minicbor::encode(&v, c.sink()).is_ok() || !c.intact() {
                    viol(rep, "C07", ty, "derived-short-buffer", format!("a buffer of len() - 1 = {} bytes took the encoding", n - 1), &bytes, &rp);
                }
            }
            rep.count("C07/derived len() compared");
        }
    }
    // ---- C13: bounded sinks, derived Encode impls --------------------------------
    if w.c13 {
        let len = bytes.len();
        let caps: Vec<usize> = if len <= 96 { (0..=len + 1).collect() } else { vec![0, 1, len / 2, len - 1, len, len + 1] };
        for cap in caps {
            rep.eval();
            let mut c = Canary::new(cap, 8);
            let r = mon::guarded(|| minicbor::encode(&v, c.sink()).map_err(|e| e.is_write()));
            let what = match r {
                Err(p) => Some(("panic", p.message)),
                Ok(r) => {
                    let k = c.content().iter().zip(bytes.iter()).take_while(|(a, b)| a == b).count();
                    if !c.intact() {
                        Some(("overrun", format!("bytes outside a sink of capacity {} were modified", cap)))
                    } else {
                        match (r, len <= cap) {
                            (Ok(()), true) if c.content()[..len] == bytes[..] && c.content()[len..].iter().all(|b| *b == vcore::mon::CANARY) => None,
                            (Ok(()), true) => Some(("bytes", format!("content of a sink of capacity {} differs from the Vec encoding", cap))),
                            (Err(true), false) if c.content()[k..].iter().all(|b| *b == vcore::mon::CANARY) => None,
                            (Err(true), false) => Some(("prefix", format!("after the write error a sink of capacity {} holds bytes that are not a prefix of the encoding (first {} bytes agree)", cap, k))),
                            (Err(false), false) => Some(("error-class", "overflow reported as a non-write error".to_string())),
                            (Ok(()), false) => Some(("fits", format!("success although the {} byte encoding exceeds capacity {}", len, cap))),
                            (Err(_), true) => Some(("fits", format!("failure although the {} byte encoding fits capacity {}", len, cap))),
                        }
                    }
                }
            };
            match what {
                Some((kind, msg)) => viol(rep, "C13", ty, &format!("derived-{}", kind), msg, &bytes, &rp),
                None => rep.count("C13/derived value: sink of this capacity behaves as the model"),
            }
        }
        if rep.want_sample() && len > 6 && len < 40 {
            rep.sample(J::obj().with("type", J::s(ty)).with("bytes", J::s(hex(&bytes))).with("capacities", J::s(format!("0..={}", len + 1))));
        }
    }
    // ---- C08: documented wire format -----------------------------------------
    let marked = refschema::encode_type(reg, schema, &view, &EncOpts::default());
    let want = refschema::strip(&marked);
    let want_bytes = want.encode();
    if w.c08 {
        if bytes != want_bytes {
            let alt = refschema::strip(&refschema::encode_type(reg, schema, &view, &EncOpts { nil_plain: true, ..Default::default() })).encode();
            if bytes != alt {
                let got = refcbor::parse(&bytes).map(|x| diag(&x.0)).unwrap_or_else(|e| format!("ill-formed {:?}", e));
                viol(rep, "C08", ty, "bytes", format!("derived Encode wrote {} = {} but the documented format is {} = {}", hex(&bytes[..bytes.len().min(60)]), got, hex(&want_bytes[..want_bytes.len().min(60)]), diag(&want)), &bytes, &rp);
            } else {
                rep.count("C08/absent tagged optional written as plain null");
            }
        } else {
            rep.count("C08/bytes equal the reference encoding");
            if rep.want_sample() && bytes.len() > 6 && bytes.len() < 50 {
                rep.sample(J::obj().with("type", J::s(ty)).with("encoding", J::s(diag(&want))).with("bytes", J::s(hex(&bytes))));
            }
        }
    }
    if !w.c09 || schema.encode_only {
        return;
    }
    // ---- C09: round trip, position, borrowing ----------------------------------
    let expect = refschema::expected_type(reg, schema, &view);
    let input: Box<[u8]> = bytes.clone().into_boxed_slice();
    let r = mon::guarded(|| decode_check::<F>(&input, &expect, true));
    match r {
        Err(p) => viol(rep, "C09", ty, "decode-panic", p.message, &bytes, &rp),
        Ok(Err(e)) => viol(rep, "C09", ty, "roundtrip", format!("decoding the derived encoding {} gives {}", diag(&want), e), &bytes, &rp),
        Ok(Ok(())) => {
            rep.count("C09/round trip equal, exact position, borrowed fields in input");
            if !w.c08 && rep.want_sample() && bytes.len() > 6 && bytes.len() < 50 {
                rep.sample(J::obj().with("type", J::s(ty)).with("value", J::s(short(format!("{:?}", view)))).with("bytes", J::s(hex(&bytes))).with("decoded", J::s("equal view, position = len, borrowed fields inside the input")));
            }
        }
    }
    if schema.loose {
        return;
    }
    let mut rng = Rng::derive("derive/reframe", seed, fnv64(ty.as_bytes()), i);
    // documented re-framings: field containers and inner collections indefinite, wider heads
    for k in 0..2 {
        let alt = refschema::strip_indefinite(&marked, &mut rng, if k == 0 { 100 } else { 50 });
        let alt = if k == 1 { gen::widen(&mut rng, &alt) } else { alt };
        if alt == want {
            continue;
        }
        let ab: Box<[u8]> = alt.encode().into_boxed_slice();
        rep.eval();
        match mon::guarded(|| decode_check::<F>(&ab, &expect, true)) {
            Err(p) => viol(rep, "C09", ty, "decode-panic", p.message, &ab, &rp),
            Ok(Err(e)) => viol(rep, "C09", ty, "reframed", format!("the re-framed encoding {} (indefinite field containers / wider heads) gives {}", diag(&alt), e), &ab, &rp),
            Ok(Ok(())) => rep.count("C09/re-framed (indefinite containers, wider heads): same value"),
        }
    }
    // every container indefinite (also enum wrappers): same value or an error
    {
        let alt = gen::indefinite_containers(&mut rng, &want, 70);
        if alt != want {
            let ab: Box<[u8]> = alt.encode().into_boxed_slice();
            rep.eval();
            match mon::guarded(|| decode_check::<F>(&ab, &expect, false)) {
                Err(p) => viol(rep, "C09", ty, "decode-panic", p.message, &ab, &rp),
                Ok(Err(e)) if e.starts_with("error") => rep.count("C09/all-indefinite re-framing: rejected"),
                Ok(Err(e)) => viol(rep, "C09", ty, "reframed-other", format!("an all-indefinite re-framing gives {}", e), &ab, &rp),
                Ok(Ok(())) => rep.count("C09/all-indefinite re-framing: same value"),
            }
        }
    }
    negatives::<F>(reg, rep, schema, &view, &want, &rp);
}

/// Decode `input` as the family type and compare with the expected view.
fn decode_check<F: Fam>(input: &[u8], expect: &View, borrow: bool) -> Result<(), String> {
    let mut d = Decoder::new(input);
    let w: F::T<'_> = d.decode().map_err(|e| format!("error: {}", e))?;
    let got = w.view();
    if &got != expect {
        return Err(format!("a different value: {:?} instead of {:?}", got, expect));
    }
    if d.position() != input.len() {
        return Err(format!("position {} != input length {}", d.position(), input.len()));
    }
    if borrow {
        w.borrow_check(input).map_err(|e| format!("borrowing: {}", e))?;
    }
    Ok(())
}

#[derive(Debug)]
enum ErrClass {
    TagMismatch,
    MissingValue,
    UnknownVariant,
    Other(String),
}

fn decode_err<F: Fam>(input: &[u8]) -> Result<String, ErrClass> {
    let mut d = Decoder::new(input);
    let r: Result<F::T<'_>, _> = d.decode();
    match r {
        Ok(w) => Ok(format!("{:?}", w.view())),
        Err(e) if e.is_tag_mismatch() => Err(ErrClass::TagMismatch),
        Err(e) if e.is_missing_value() => Err(ErrClass::MissingValue),
        Err(e) if e.is_unknown_variant() => Err(ErrClass::UnknownVariant),
        Err(e) => Err(ErrClass::Other(e.to_string())),
    }
}

/// Replace the n-th schema tag (pre-order) using `f`; returns whether one was found.
fn edit_tag(i: &Item, n: &mut i64, f: &dyn Fn(u64, &Item) -> Option<Item>) -> Option<Item> {
    match i {
        Item::Tag { w, v, inner } => {
            if *n == 0 {
                if let Some(r) = f(*v, inner) {
                    *n = -1;
                    return Some(r);
                }
            }
            if *n > 0 {
                *n -= 1;
            }
            edit_tag(inner, n, f).map(|x| Item::Tag { w: *w, v: *v, inner: Box::new(x) })
        }
        Item::Array { w, items } => {
            for (k, x) in items.iter().enumerate() {
                if let Some(y) = edit_tag(x, n, f) {
                    let mut it = items.clone();
                    it[k] = y;
                    return Some(Item::Array { w: *w, items: it });
                }
            }
            None
        }
        Item::Map { w, items } => {
            for (k, (a, b)) in items.iter().enumerate() {
                if let Some(y) = edit_tag(b, n, f) {
                    let mut it = items.clone();
                    it[k] = (a.clone(), y);
                    return Some(Item::Map { w: *w, items: it });
                }
            }
            None
        }
        _ => None,
    }
}

fn negatives<F: Fam>(reg: &Registry, rep: &mut Report, schema: &TypeSchema, view: &View, want: &Item, rp: &[String]) {
    let ty = F::NAME;
    // wrong tag: must be a tag mismatch
    for n in 0..3 {
        let mut k = n;
        if let Some(bad) = edit_tag(want, &mut k, &|v, inner| Some(Item::tag(v ^ 1, inner.clone()))) {
            rep.eval();
            let b: Box<[u8]> = bad.encode().into_boxed_slice();
            match mon::guarded(|| decode_err::<F>(&b)) {
                Err(p) => viol(rep, "C09", ty, "decode-panic", p.message, &b, rp),
                Ok(Err(ErrClass::TagMismatch)) => rep.count("C09/negative: wrong tag -> tag mismatch"),
                Ok(Ok(v)) => viol(rep, "C09", ty, "wrong-tag-accepted", format!("an encoding with a wrong tag {} decoded to {}", diag(&bad), v), &b, rp),
                Ok(Err(e)) => viol(rep, "C09", ty, "wrong-tag-error-class", format!("an encoding with a wrong tag {} failed with {:?} instead of a tag mismatch", diag(&bad), e), &b, rp),
            }
        }
        // stripped tag on a present value: must be an error
        let mut k = n;
        if let Some(bad) = edit_tag(want, &mut k, &|_, inner| if inner.is_null() { None } else { Some(inner.clone()) }) {
            rep.eval();
            let b: Box<[u8]> = bad.encode().into_boxed_slice();
            match mon::guarded(|| decode_err::<F>(&b)) {
                Err(p) => viol(rep, "C09", ty, "decode-panic", p.message, &b, rp),
                Ok(Err(_)) => rep.count("C09/negative: stripped tag -> error"),
                Ok(Ok(v)) => viol(rep, "C09", ty, "missing-tag-accepted", format!("an encoding with a stripped tag {} decoded to {}", diag(&bad), v), &b, rp),
            }
        }
    }
    // a missing mandatory field: missing-value error
    let victim: Option<u32> = refschema::victim(schema, view);
    if let Some(idx) = victim {
        rep.eval();
        let bad = refschema::strip(&refschema::encode_type(reg, schema, view, &EncOpts { omit_top_index: Some(idx), ..Default::default() }));
        let b: Box<[u8]> = bad.encode().into_boxed_slice();
        match mon::guarded(|| decode_err::<F>(&b)) {
            Err(p) => viol(rep, "C09", ty, "decode-panic", p.message, &b, rp),
            Ok(Err(ErrClass::MissingValue)) => rep.count("C09/negative: missing mandatory field -> missing value"),
            Ok(Ok(v)) => viol(rep, "C09", ty, "missing-field-accepted", format!("an encoding without mandatory field {} ({}) decoded to {}", idx, diag(&bad), v), &b, rp),
            Ok(Err(e)) => viol(rep, "C09", ty, "missing-field-error-class", format!("an encoding without mandatory field {} failed with {:?} instead of missing value", idx, e), &b, rp),
        }
    }
    // a mandatory field missing from a nested value (behind Option, collections, variants, other
    // structs): the whole decode fails, no enclosing optional field turns it into its nil value
    for k in 0..3 {
        let Some(bad) = refschema::encode_omit_nested(reg, schema, view, k) else { break };
        let bad = refschema::strip(&bad);
        rep.eval();
        let b: Box<[u8]> = bad.encode().into_boxed_slice();
        match mon::guarded(|| decode_err::<F>(&b)) {
            Err(p) => viol(rep, "C09", ty, "decode-panic", p.message, &b, rp),
            Ok(Err(ErrClass::MissingValue)) => rep.count("C09/negative: mandatory field missing from a nested value -> missing value"),
            Ok(Ok(v)) => viol(rep, "C09", ty, "nested-missing-field-accepted", format!("an encoding whose nested value #{} lacks a mandatory field ({}) decoded to {}", k, diag(&bad), v), &b, rp),
            Ok(Err(e)) => viol(rep, "C09", ty, "nested-missing-field-error-class", format!("an encoding whose nested value #{} lacks a mandatory field ({}) failed with {:?} instead of missing value", k, diag(&bad), e), &b, rp),
        }
    }
    // an unknown variant at top level: unknown-variant error
    if let (Kind::Enum { variants, .. }, View::Enum(..)) = (&schema.kind, view) {
        let unused = (0..u32::MAX).find(|i| variants.iter().all(|v| v.index != *i)).unwrap();
        rep.eval();
        let bad = refschema::strip(&refschema::encode_type(reg, schema, view, &EncOpts { force_variant_index: Some(unused), ..Default::default() }));
        let b: Box<[u8]> = bad.encode().into_boxed_slice();
        match mon::guarded(|| decode_err::<F>(&b)) {
            Err(p) => viol(rep, "C09", ty, "decode-panic", p.message, &b, rp),
            Ok(Err(ErrClass::UnknownVariant)) => rep.count("C09/negative: unknown variant -> unknown variant"),
            Ok(Ok(v)) => viol(rep, "C09", ty, "unknown-variant-accepted", format!("variant index {} decoded to {}", unused, v), &b, rp),
            Ok(Err(e)) => viol(rep, "C09", ty, "unknown-variant-error-class", format!("variant index {} failed with {:?}", unused, e), &b, rp),
        }
    }
}

/// Twin types (same schema; renamed, fields declared in another order, n/b
/// flipped) must produce identical bytes for identical logical values.
pub fn check_twin<A: Fam, B: Fam>(rep: &mut Report, seed: u64, i: u64, sub: &str) {
    let arena = arena_for(seed);
    rep.eval();
    // both families draw the same logical value: generation consumes the PRNG in index order
    let mut r1 = Rng::derive(&format!("derive/{}", A::NAME), seed, 0, i);
    let mut r2 = r1.clone();
    let a = <A::T<'_> as Case>::gen(&mut r1, &arena, &mut Presence::masked(i), 0);
    let b = <B::T<'_> as Case>::gen(&mut r2, &arena, &mut Presence::masked(i), 0);
    let rp = vec![sub.to_string(), "--seed".into(), seed.to_string(), "--replay".into(), format!("twin:{}", A::NAME), i.to_string()];
    if a.view() != b.view() {
        rep.inconclusive.push(format!("harness: twin {} / {} generated different views", A::NAME, B::NAME));
        return;
    }
    match (minicbor::to_vec(&a), minicbor::to_vec(&b)) {
        (Ok(x), Ok(y)) if x == y => rep.count("C08/twin (renamed, reordered declarations, n<->b): identical bytes"),
        (Ok(x), Ok(y)) => viol(rep, "C08", A::NAME, "twin-bytes", format!("{} wrote {} but its twin {} (renamed, reordered, n/b flipped) wrote {}", A::NAME, hex(&x[..x.len().min(60)]), B::NAME, hex(&y[..y.len().min(60)])), &x, &rp),
        _ => viol(rep, "C08", A::NAME, "twin-error", "encoding failed".into(), &[], &rp),
    }
}

// ---------------------------------------------------------------------------
// C10: compatibility between versions

#[derive(Debug, minicbor::Encode, minicbor::Decode)]
pub struct Outer<T> {
    #[n(0)]
    pub inner: T,
    #[n(1)]
    pub sib: u32,
}

#[derive(Debug, minicbor::Encode, minicbor::Decode)]
#[cbor(map)]
pub struct OuterMap<T> {
    #[n(3)]
    pub inner: T,
    #[n(7)]
    pub sib: u32,
}

#[derive(Debug, minicbor::Encode, minicbor::Decode)]
pub enum OuterEnum<T> {
    #[n(0)]
    A(#[n(0)] T, #[n(1)] u32),
}

pub fn check_compat<W: Fam, R: Fam>(reg: &Registry, rep: &mut Report, seed: u64, i: u64, pair: &dyn Fn(&str) -> &'static str, sub: &str) {
    let arena = arena_for(seed);
    let v = gen_value::<W>(seed, i, &arena);
    let view = v.view();
    let ws = &reg[W::NAME];
    let rs = &reg[R::NAME];
    let ty = format!("{}->{}", W::NAME, R::NAME);
    let rp = vec![sub.to_string(), "--seed".into(), seed.to_string(), "--replay".into(), format!("compat:{}:{}", W::NAME, R::NAME), i.to_string()];
    rep.eval();
    let expect = refschema::project(reg, ws, rs, &view, pair);
    let bytes = match mon::guarded(|| minicbor::to_vec(&v)) {
        Ok(Ok(b)) => b,
        _ => return viol(rep, "C10", &ty, "encode", "writer failed to encode".into(), &[], &rp),
    };
    rep.seen(hash_mix(fnv64(ty.as_bytes()), fnv64(&bytes)));
    let input: Box<[u8]> = bytes.clone().into_boxed_slice();
    let r = mon::guarded(|| {
        let mut d = Decoder::new(&input);
        let r: Result<R::T<'_>, _> = d.decode();
        (r.map(|x| x.view()).map_err(|e| (e.is_missing_value(), e.to_string())), d.position())
    });
    match (r, &expect) {
        (Err(p), _) => viol(rep, "C10", &ty, "decode-panic", p.message, &bytes, &rp),
        (Ok((Ok(got), pos)), Projected::Value(want)) => {
            if &got != want {
                viol(rep, "C10", &ty, "value", format!("reader obtained {:?}, the compatibility rules give {:?} (writer value {:?})", got, want, view), &bytes, &rp)
            } else if pos != input.len() {
                viol(rep, "C10", &ty, "position", format!("reader stopped at {} of {} bytes", pos, input.len()), &bytes, &rp)
            } else {
                rep.count("C10/reader obtained the projected value");
                if rep.want_sample() && bytes.len() > 4 && bytes.len() < 50 {
                    rep.sample(J::obj().with("writer->reader", J::s(ty.clone())).with("writer_value", J::s(short(format!("{:?}", view)))).with("bytes", J::s(hex(&bytes))).with("reader_obtains", J::s(short(format!("{:?}", want)))));
                }
            }
        }
        (Ok((Err((_, msg)), _)), Projected::Value(want)) => viol(rep, "C10", &ty, "rejected", format!("reader failed with '{}' but must obtain {:?}", msg, want), &bytes, &rp),
        (Ok((Err((true, _)), _)), Projected::MissingValue) => rep.count("C10/missing mandatory field reported"),
        (Ok((Err((false, msg)), _)), Projected::MissingValue) => viol(rep, "C10", &ty, "missing-error-class", format!("a missing mandatory field was reported as '{}'", msg), &bytes, &rp),
        (Ok((Ok(got), _)), Projected::MissingValue) => viol(rep, "C10", &ty, "missing-accepted", format!("a missing mandatory field was papered over: {:?}", got), &bytes, &rp),
    }
    // fields unknown to the reader are ignored *whatever their content*: arbitrary items (nested
    // indefinite containers, indefinite strings, half floats, tags, ...) injected at indices no
    // version knows, into the top-level and every nested field container
    if let Projected::Value(want) = &expect {
        let marked = refschema::encode_type(reg, ws, &view, &EncOpts::default());
        if refschema::strip(&marked).encode() == bytes {
            let mut rng = Rng::derive("c10/unknown", seed, fnv64(ty.as_bytes()), i);
            for round in 0..2 {
                let mut n = 0u32;
                let inj = refschema::inject_unknown(&marked, &mut rng, if round == 0 { 100 } else { 40 }, &mut n);
                if n == 0 {
                    continue;
                }
                let ib: Box<[u8]> = inj.encode().into_boxed_slice();
                rep.eval();
                let r = mon::guarded(|| {
                    let mut d = Decoder::new(&ib);
                    let r: Result<R::T<'_>, _> = d.decode();
                    (r.map(|x| x.view()).map_err(|e| e.to_string()), d.position())
                });
                match r {
                    Err(p) => viol(rep, "C10", &ty, "unknown-fields-panic", p.message, &ib, &rp),
                    Ok((Err(e), _)) => viol(rep, "C10", &ty, "unknown-fields-rejected", format!("with {} unknown fields of arbitrary content added the reader fails with '{}'", n, e), &ib, &rp),
                    Ok((Ok(got), pos)) => {
                        if &got != want {
                            viol(rep, "C10", &ty, "unknown-fields-value", format!("with {} unknown fields added the reader obtained {:?} instead of {:?}", n, got, want), &ib, &rp)
                        } else if pos != ib.len() {
                            viol(rep, "C10", &ty, "unknown-fields-position", format!("with {} unknown fields added the reader stopped at {} of {}", n, pos, ib.len()), &ib, &rp)
                        } else {
                            rep.count("C10/unknown fields of arbitrary content ignored");
                        }
                    }
                }
            }
        }
    }
    // nested: the evolved type inside other containers with a sibling after it
    if let Projected::Value(want) = &expect {
        let sib = 0x0102_0304u32 ^ (i as u32);
        macro_rules! nested {
            ($name:expr, $enc:expr, $dec:ty, $get:expr) => {{
                rep.eval();
                let r = mon::guarded(|| {
                    let b = minicbor::to_vec($enc).map_err(|e| e.to_string())?;
                    let mut d = Decoder::new(&b);
                    let o: $dec = d.decode().map_err(|e| format!("error: {}", e))?;
                    let (inner_view, s): (View, u32) = $get(&o);
                    if &inner_view != want {
                        return Err(format!("nested value {:?} instead of {:?}", inner_view, want));
                    }
                    if s != sib {
                        return Err(format!("the sibling after the evolved value reads {:#x} instead of {:#x}", s, sib));
                    }
                    if d.position() != b.len() {
                        return Err(format!("position {} of {}", d.position(), b.len()));
                    }
                    Ok(())
                });
                match r {
                    Err(p) => viol(rep, "C10", &ty, concat!("nested-", $name, "-panic"), p.message, &bytes, &rp),
                    Ok(Err(e)) => viol(rep, "C10", &ty, concat!("nested-", $name), format!("writer value {:?} nested in {}: {}", view, $name, e), &bytes, &rp),
                    Ok(Ok(())) => rep.count(concat!("C10/nested in ", $name, ": value and sibling intact")),
                }
            }};
        }
        let v1 = gen_value::<W>(seed, i, &arena);
        nested!("struct", &Outer { inner: v1, sib }, Outer<R::T<'_>>, |o: &Outer<R::T<'_>>| (o.inner.view(), o.sib));
        let v2 = gen_value::<W>(seed, i, &arena);
        nested!("map-struct", &OuterMap { inner: v2, sib }, OuterMap<R::T<'_>>, |o: &OuterMap<R::T<'_>>| (o.inner.view(), o.sib));
        let v3 = gen_value::<W>(seed, i, &arena);
        nested!("enum-variant", &OuterEnum::A(v3, sib), OuterEnum<R::T<'_>>, |o: &OuterEnum<R::T<'_>>| match o {
            OuterEnum::A(x, s) => (x.view(), *s),
        });
        let v4 = gen_value::<W>(seed, i, &arena);
        nested!("tuple", &(v4, sib), (R::T<'_>, u32), |o: &(R::T<'_>, u32)| (o.0.view(), o.1));
    }
}
