// host crate for cargo-fuzz; the fuzz target lives in fuzz/
