#![no_main]
//! Coverage-guided workload source for C02: every decoding entry point is
//! driven with the fuzzer's input.  libFuzzer's own detectors (panic -> abort,
//! AddressSanitizer, -timeout, -malloc_limit_mb) stop on a crash; what counts
//! is the replay of crashes and of the evolved corpus through vmain's monitors.

use libfuzzer_sys::fuzz_target;
use minicbor::bytes::{ByteArray, ByteSlice, ByteVec};
use minicbor::data::{Int, Tag, Tagged, Token};
use minicbor::{Decode, Decoder};
use std::collections::{BTreeMap, BTreeSet, BinaryHeap, HashMap, HashSet, LinkedList, VecDeque};

#[allow(dead_code)]
#[derive(Debug, Decode)]
struct S<'a> {
    #[n(0)] a: u8,
    #[b(1)] s: &'a str,
    #[n(3)] o: Option<Vec<i64>>,
    #[n(4)] e: Option<E>,
}

#[allow(dead_code)]
#[derive(Debug, Decode)]
#[cbor(map)]
struct M {
    #[n(0)] a: Option<u64>,
    #[n(5)] #[cbor(tag(9))] t: Option<String>,
    #[n(7)] i: Option<I>,
}

#[allow(dead_code)]
#[derive(Debug, Decode)]
enum E {
    #[n(0)] U,
    #[n(1)] T(#[n(0)] u8, #[n(1)] Option<[u8; 2]>),
    #[n(2)] #[cbor(map)] N { #[n(1)] x: i8 },
}

#[allow(dead_code)]
#[derive(Debug, Decode)]
#[cbor(index_only)]
enum I {
    #[n(0)] A,
    #[n(7)] B,
}

fn d<'b, T: Decode<'b, ()>>(b: &'b [u8]) {
    let mut d = Decoder::new(b);
    let _ = d.decode::<T>();
    assert!(d.position() <= b.len());
}

fuzz_target!(|data: &[u8]| {
    let b: Box<[u8]> = data.to_vec().into_boxed_slice();
    let b = &b[..];
    macro_rules! all { ($($t:ty),* $(,)?) => { $( d::<$t>(b); )* } }
    all!(
        u8, u16, u32, u64, i8, i16, i32, i64, usize, isize, bool, char, f32, f64, (), Int, Tag,
        &str, String, Box<str>, std::borrow::Cow<str>, std::ffi::CString, &std::ffi::CStr,
        &ByteSlice, ByteVec, ByteArray<4>,
        Option<u8>, Option<Option<u8>>, Result<u8, String>, Box<u16>,
        [u8; 0], [u8; 3], [String; 2], [[u8; 2]; 2], [Option<Vec<u8>>; 3],
        (u8,), (u8, String), (u8, i8, u16, i16, u32, i32, u64, i64, bool, char, f32, f64),
        Vec<u8>, Vec<String>, Vec<Vec<Option<u8>>>, VecDeque<u16>, LinkedList<i8>, BinaryHeap<u8>, BTreeSet<u32>, HashSet<u16>,
        BTreeMap<u8, String>, HashMap<String, Vec<u8>>, BTreeMap<String, BTreeMap<u8, Vec<u8>>>,
        std::time::Duration, std::time::SystemTime, std::net::IpAddr, std::net::SocketAddr, std::path::PathBuf,
        std::ops::Range<u8>, std::ops::RangeInclusive<i32>, std::ops::Bound<u8>,
        core::num::NonZeroU8, core::num::NonZeroI64, core::num::Wrapping<u16>, core::cell::Cell<u8>, core::sync::atomic::AtomicU32,
        Tagged<7, u8>, Token, Vec<Token>, S, M, E, I, Vec<S>, Option<M>, BTreeMap<u8, E>,
    );
    let mut dec = Decoder::new(b);
    let _ = dec.skip();
    assert!(dec.position() <= b.len());
    let mut dec = Decoder::new(b);
    let mut n = 0usize;
    for t in dec.tokens() {
        n += 1;
        if t.is_err() { break }
    }
    assert!(n <= b.len() + 1);
    let mut dec = Decoder::new(b);
    if let Ok(it) = dec.bytes_iter() { for c in it { if c.is_err() { break } } }
    let mut dec = Decoder::new(b);
    if let Ok(it) = dec.str_iter() { for c in it { if c.is_err() { break } } }
    let mut dec = Decoder::new(b);
    if let Ok(it) = dec.array_iter::<u64>() { for c in it.take(1 << 16) { if c.is_err() { break } } }
    let mut dec = Decoder::new(b);
    if let Ok(it) = dec.map_iter::<u64, &str>() { for c in it.take(1 << 16) { if c.is_err() { break } } }
});
