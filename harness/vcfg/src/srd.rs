//! serde-bridge operations of the feature-matrix probe.

use crate::{err_out_text, ok_out, Fnv, Op, Out};
use minicbor::encode::write::Cursor;
use minicbor_serde::{Deserializer, Serializer};
use serde::de::{self, Deserialize, IgnoredAny, MapAccess, SeqAccess, Visitor};
use serde::{Deserialize as De, Serialize as Se};
use std::fmt::{Debug, Write as _};

// ------------------------------------------------------------------ types (no alloc needed)

#[derive(Debug, Clone, PartialEq, Se, De)]
pub struct SS<'a> {
    pub a: u8,
    #[serde(borrow)]
    pub b: &'a str,
    pub c: Option<i32>,
}

#[derive(Debug, Clone, PartialEq, Se, De)]
pub struct SN(pub u32);

#[derive(Debug, Clone, PartialEq, Se, De)]
pub struct ST(pub u8, pub i16);

#[derive(Debug, Clone, PartialEq, Se, De)]
pub struct SU;

#[derive(Debug, Clone, PartialEq, Se, De)]
pub enum SE {
    A,
    B(u8),
    C(u8, u16),
    D { x: i8, y: Option<bool> },
}

#[derive(Debug, Clone, PartialEq, Se, De)]
pub struct SOuter<'a> {
    pub e: SE,
    #[serde(borrow)]
    pub s: SS<'a>,
    pub t: (u8, bool),
    pub f: f32,
    pub last: u16,
}

/// A value that is deserialised through `deserialize_any` without allocating:
/// folds whatever the bridge reports into a digest.
#[derive(Debug, Clone, PartialEq)]
pub struct AnyDigest(pub u64);

struct AnyV;

fn mix(tag: u8, payload: &[u8]) -> u64 {
    let mut h = Fnv::new();
    h.bytes(&[tag]);
    h.bytes(payload);
    h.0
}

impl<'de> Visitor<'de> for AnyV {
    type Value = AnyDigest;
    fn expecting(&self, f: &mut std::fmt::Formatter) -> std::fmt::Result {
        f.write_str("anything")
    }
    fn visit_bool<E: de::Error>(self, v: bool) -> Result<AnyDigest, E> {
        Ok(AnyDigest(mix(1, &[v as u8])))
    }
    fn visit_i64<E: de::Error>(self, v: i64) -> Result<AnyDigest, E> {
        Ok(AnyDigest(mix(2, &(v as i128).to_be_bytes())))
    }
    fn visit_u64<E: de::Error>(self, v: u64) -> Result<AnyDigest, E> {
        Ok(AnyDigest(mix(2, &(v as i128).to_be_bytes())))
    }
    fn visit_i128<E: de::Error>(self, v: i128) -> Result<AnyDigest, E> {
        Ok(AnyDigest(mix(2, &v.to_be_bytes())))
    }
    fn visit_u128<E: de::Error>(self, v: u128) -> Result<AnyDigest, E> {
        Ok(AnyDigest(mix(2, &(v as i128).to_be_bytes())))
    }
    fn visit_f32<E: de::Error>(self, v: f32) -> Result<AnyDigest, E> {
        Ok(AnyDigest(mix(3, &v.to_bits().to_be_bytes())))
    }
    fn visit_f64<E: de::Error>(self, v: f64) -> Result<AnyDigest, E> {
        Ok(AnyDigest(mix(4, &v.to_bits().to_be_bytes())))
    }
    fn visit_char<E: de::Error>(self, v: char) -> Result<AnyDigest, E> {
        Ok(AnyDigest(mix(5, &(v as u32).to_be_bytes())))
    }
    fn visit_str<E: de::Error>(self, v: &str) -> Result<AnyDigest, E> {
        Ok(AnyDigest(mix(6, v.as_bytes())))
    }
    fn visit_bytes<E: de::Error>(self, v: &[u8]) -> Result<AnyDigest, E> {
        Ok(AnyDigest(mix(7, v)))
    }
    fn visit_none<E: de::Error>(self) -> Result<AnyDigest, E> {
        Ok(AnyDigest(mix(8, &[])))
    }
    fn visit_some<D: de::Deserializer<'de>>(self, d: D) -> Result<AnyDigest, D::Error> {
        let v = AnyDigest::deserialize(d)?;
        Ok(AnyDigest(mix(9, &v.0.to_be_bytes())))
    }
    fn visit_unit<E: de::Error>(self) -> Result<AnyDigest, E> {
        Ok(AnyDigest(mix(10, &[])))
    }
    fn visit_newtype_struct<D: de::Deserializer<'de>>(self, d: D) -> Result<AnyDigest, D::Error> {
        let v = AnyDigest::deserialize(d)?;
        Ok(AnyDigest(mix(11, &v.0.to_be_bytes())))
    }
    fn visit_seq<A: SeqAccess<'de>>(self, mut a: A) -> Result<AnyDigest, A::Error> {
        let mut h = Fnv::new();
        h.bytes(&[12]);
        while let Some(x) = a.next_element::<AnyDigest>()? {
            h.u64(x.0)
        }
        Ok(AnyDigest(h.0))
    }
    fn visit_map<A: MapAccess<'de>>(self, mut a: A) -> Result<AnyDigest, A::Error> {
        let mut h = Fnv::new();
        h.bytes(&[13]);
        while let Some((k, v)) = a.next_entry::<AnyDigest, AnyDigest>()? {
            h.u64(k.0);
            h.u64(v.0)
        }
        Ok(AnyDigest(h.0))
    }
}

impl<'de> Deserialize<'de> for AnyDigest {
    fn deserialize<D: de::Deserializer<'de>>(d: D) -> Result<Self, D::Error> {
        d.deserialize_any(AnyV)
    }
}

/// Visitors reached through `deserialize_any` that accept only some kinds of items (the others
/// hit serde's default `invalid_type` rejection).
#[derive(Debug)]
pub struct OnlyInts(pub i128);
struct OnlyIntsV;
impl<'de> Visitor<'de> for OnlyIntsV {
    type Value = OnlyInts;
    fn expecting(&self, f: &mut std::fmt::Formatter) -> std::fmt::Result {
        f.write_str("an integer")
    }
    fn visit_i64<E: de::Error>(self, v: i64) -> Result<OnlyInts, E> {
        Ok(OnlyInts(v as i128))
    }
    fn visit_u64<E: de::Error>(self, v: u64) -> Result<OnlyInts, E> {
        Ok(OnlyInts(v as i128))
    }
}
impl<'de> Deserialize<'de> for OnlyInts {
    fn deserialize<D: de::Deserializer<'de>>(d: D) -> Result<Self, D::Error> {
        d.deserialize_any(OnlyIntsV)
    }
}

#[derive(Debug)]
pub struct OnlyText(pub u64);
struct OnlyTextV;
impl<'de> Visitor<'de> for OnlyTextV {
    type Value = OnlyText;
    fn expecting(&self, f: &mut std::fmt::Formatter) -> std::fmt::Result {
        f.write_str("text or a sequence of text")
    }
    fn visit_str<E: de::Error>(self, v: &str) -> Result<OnlyText, E> {
        Ok(OnlyText(mix(6, v.as_bytes())))
    }
    fn visit_seq<A: SeqAccess<'de>>(self, mut a: A) -> Result<OnlyText, A::Error> {
        let mut h = Fnv::new();
        while let Some(x) = a.next_element::<OnlyText>()? {
            h.u64(x.0)
        }
        Ok(OnlyText(h.0))
    }
}
impl<'de> Deserialize<'de> for OnlyText {
    fn deserialize<D: de::Deserializer<'de>>(d: D) -> Result<Self, D::Error> {
        d.deserialize_any(OnlyTextV)
    }
}

/// Accepts only data *borrowed from the input* (and sequences of such): a definite-length string
/// reaches the visitor as borrowed in every configuration.
#[derive(Debug)]
pub struct OnlyBorrowed(pub u64);
struct OnlyBorrowedV;
impl<'de> Visitor<'de> for OnlyBorrowedV {
    type Value = OnlyBorrowed;
    fn expecting(&self, f: &mut std::fmt::Formatter) -> std::fmt::Result {
        f.write_str("a borrowed string or a sequence of borrowed strings")
    }
    fn visit_borrowed_str<E: de::Error>(self, v: &'de str) -> Result<OnlyBorrowed, E> {
        Ok(OnlyBorrowed(mix(7, v.as_bytes())))
    }
    fn visit_borrowed_bytes<E: de::Error>(self, v: &'de [u8]) -> Result<OnlyBorrowed, E> {
        Ok(OnlyBorrowed(mix(8, v)))
    }
    fn visit_seq<A: SeqAccess<'de>>(self, mut a: A) -> Result<OnlyBorrowed, A::Error> {
        let mut h = Fnv::new();
        while let Some(x) = a.next_element::<OnlyBorrowed>()? {
            h.u64(x.0)
        }
        Ok(OnlyBorrowed(h.0))
    }
}
impl<'de> Deserialize<'de> for OnlyBorrowed {
    fn deserialize<D: de::Deserializer<'de>>(d: D) -> Result<Self, D::Error> {
        d.deserialize_any(OnlyBorrowedV)
    }
}

/// Serialises through `collect_str` (documented: refused without alloc).  The Display impl
/// produces ASCII and non-ASCII text through both `write_str` and `write_char`.
pub struct ViaCollectStr(pub u32);

impl core::fmt::Display for ViaCollectStr {
    fn fmt(&self, f: &mut core::fmt::Formatter<'_>) -> core::fmt::Result {
        use core::fmt::Write;
        write!(f, "n={}", self.0)?;
        let chars = ['a', 'é', '€', '😀', '\u{80}', 'z'];
        for k in 0..(self.0 % 5) {
            let c = chars[((self.0 >> (3 * k)) as usize) % chars.len()];
            if k % 2 == 0 {
                f.write_char(c)?
            } else {
                let mut buf = [0u8; 4];
                f.write_str(c.encode_utf8(&mut buf))?
            }
        }
        Ok(())
    }
}

impl serde::Serialize for ViaCollectStr {
    fn serialize<S: serde::Serializer>(&self, s: S) -> Result<S::Ok, S::Error> {
        s.collect_str(self)
    }
}

/// Serialises through `collect_seq` / `collect_map` with iterators whose `size_hint` is exact,
/// bounded-but-inexact (`filter`, `take_while`, `flat_map`), unbounded-unknown (`from_fn`) or
/// exact after `chain`: what is written must not depend on the crate features.
pub struct ViaCollect<'a>(pub &'a [u8], pub u8);

impl<'a> serde::Serialize for ViaCollect<'a> {
    fn serialize<S: serde::Serializer>(&self, s: S) -> Result<S::Ok, S::Error> {
        let b = self.0;
        match self.1 % 10 {
            0 => s.collect_seq(b.iter()),
            1 => s.collect_seq(b.iter().filter(|x| **x % 3 != 0)),
            2 => s.collect_seq(b.iter().take_while(|x| **x != 0xff)),
            3 => {
                let mut k = 0usize;
                s.collect_seq(core::iter::from_fn(|| {
                    k += 1;
                    b.get(k - 1).map(|x| *x as u16 * 3)
                }))
            }
            4 => s.collect_seq(b.iter().chain(b.iter().take(2))),
            5 => s.collect_seq(b.iter().flat_map(|x| core::iter::repeat(*x).take((*x % 3) as usize))),
            6 => s.collect_map(b.iter().enumerate()),
            7 => s.collect_map(b.iter().enumerate().filter(|(_, x)| **x % 2 == 0)),
            8 => {
                let mut k = 0usize;
                s.collect_map(core::iter::from_fn(|| {
                    k += 1;
                    b.get(k - 1).map(|x| (k as u8, *x as i16 - 100))
                }))
            }
            _ => s.collect_seq(b.chunks(2).filter(|c| c.len() == 2).map(|c| ViaCollect(c, c[0]))),
        }
    }
}

#[cfg(feature = "alloc")]
mod owned {
    use super::*;
    use std::collections::BTreeMap;

    #[derive(Debug, Clone, PartialEq, Se, De)]
    pub struct AO {
        pub s: String,
        pub v: Vec<u16>,
        pub m: BTreeMap<String, i32>,
        pub o: Option<Box<AO>>,
    }

    #[derive(Debug, Clone, PartialEq, Se, De)]
    #[serde(untagged)]
    pub enum AUntagged {
        N(i64),
        S(String),
        P { x: u8, y: u8 },
        L(Vec<u8>),
    }

    #[derive(Debug, Clone, PartialEq, Se, De)]
    #[serde(tag = "t")]
    pub enum AInternal {
        A { v: u32 },
        B { s: String, f: f64 },
    }

    #[derive(Debug, Clone, PartialEq, Se, De)]
    #[serde(tag = "k", content = "c")]
    pub enum AAdjacent {
        X(u8),
        Y(String, i8),
        Z,
    }

    #[derive(Debug, Clone, PartialEq, Se, De)]
    pub struct AFlat {
        pub id: u8,
        #[serde(flatten)]
        pub rest: BTreeMap<String, u16>,
    }
}
#[cfg(feature = "alloc")]
pub use owned::*;

// ------------------------------------------------------------------ helpers

fn ser_into<T: serde::Serialize + ?Sized>(v: &T, h: &mut Fnv) {
    let mut buf = [0u8; 1024];
    let mut s = Serializer::new(Cursor::new(&mut buf[..]));
    match v.serialize(&mut s) {
        Ok(_) => {
            let e = s.into_encoder();
            let n = e.writer().position();
            h.u64(n as u64);
            h.bytes(&e.writer().get_ref()[..n]);
        }
        Err(e) => {
            let t = format!("{}", e);
            // class of the encode error only (text may differ)
            // a message error renders as its bare message; write / custom errors have a fixed prefix
            let c = if t.starts_with("write error") { "enc_write" } else if t.starts_with("encode error") { "enc_custom" } else { "enc_message" };
            let _ = h.write_str(c);
        }
    }
}

pub fn sde<'b, T>(b: &'b [u8]) -> Out
where
    T: Deserialize<'b> + serde::Serialize + Debug,
{
    let mut d = Deserializer::new(b);
    let r = T::deserialize(&mut d);
    let pos = d.decoder().position();
    match r {
        Ok(v) => {
            let mut h = Fnv::new();
            let _ = write!(h, "{:?}", v);
            ser_into(&v, &mut h);
            ok_out(h, pos)
        }
        Err(e) => err_out_text(&format!("{}", e), pos),
    }
}

pub fn sde_only<'b, T>(b: &'b [u8]) -> Out
where
    T: Deserialize<'b> + Debug,
{
    let mut d = Deserializer::new(b);
    let r = T::deserialize(&mut d);
    let pos = d.decoder().position();
    match r {
        Ok(v) => {
            let mut h = Fnv::new();
            let _ = write!(h, "{:?}", v);
            ok_out(h, pos)
        }
        Err(e) => err_out_text(&format!("{}", e), pos),
    }
}

macro_rules! styped {
    ($v:ident; $($name:expr => $t:ty),* $(,)?) => {
        $( $v.push(($name, (|b: &[u8]| sde::<$t>(b)) as Op)); )*
    };
}
macro_rules! styped_only {
    ($v:ident; $($name:expr => $t:ty),* $(,)?) => {
        $( $v.push(($name, (|b: &[u8]| sde_only::<$t>(b)) as Op)); )*
    };
}

pub fn register(v: &mut Vec<(&'static str, Op)>) {
    styped!(v;
        "serde.u8" => u8, "serde.u16" => u16, "serde.u32" => u32, "serde.u64" => u64,
        "serde.i8" => i8, "serde.i16" => i16, "serde.i32" => i32, "serde.i64" => i64,
        "serde.bool" => bool, "serde.char" => char, "serde.f32" => f32, "serde.f64" => f64, "serde.unit" => (),
        "serde.&str" => &str, "serde.&[u8]" => &[u8],
        "serde.Option<u32>" => Option<u32>, "serde.Option<&str>" => Option<&str>,
        "serde.(u8,i16,bool)" => (u8, i16, bool), "serde.[u16;3]" => [u16; 3], "serde.[u8;0]" => [u8; 0],
        "serde.SS" => SS, "serde.SN" => SN, "serde.ST" => ST, "serde.SU" => SU, "serde.SE" => SE, "serde.SOuter" => SOuter,
        "serde.Option<SE>" => Option<SE>, "serde.(SN,SE)" => (SN, SE),
    );
    styped_only!(v; "serde.any.only-ints" => OnlyInts, "serde.any.only-text" => OnlyText, "serde.any.(only-ints,u8)" => (OnlyInts, u8), "serde.any.only-borrowed" => OnlyBorrowed, "serde.any.(only-borrowed,u8)" => (OnlyBorrowed, u8));
    styped_only!(v; "serde.any" => AnyDigest, "serde.ignored" => IgnoredAny, "serde.(ignored,u8)" => (IgnoredAny, u8));
    v.push(("serde.ser.collect_str", (|b: &[u8]| {
        let n = b.iter().take(4).fold(0u32, |a, x| (a << 8) | *x as u32);
        let mut buf = [0u8; 128];
        let mut s = Serializer::new(Cursor::new(&mut buf[..]));
        match serde::Serialize::serialize(&ViaCollectStr(n), &mut s) {
            Ok(_) => {
                let e = s.into_encoder();
                let k = e.writer().position();
                let mut h = Fnv::new();
                h.bytes(&e.writer().get_ref()[..k]);
                ok_out(h, k)
            }
            Err(e) => {
                let t = format!("{}", e);
                let class = if t.starts_with("write error") { "enc_write" } else if t.starts_with("encode error") { "enc_custom" } else { "enc_message" };
                Out { class, dig: 0, pos: 0, epos: None, flag: '-' }
            }
        }
    }) as Op));
    v.push(("serde.ser.collect_seq_map", (|b: &[u8]| {
        let (kind, rest) = match b.split_first() {
            Some((k, r)) => (*k, &r[..r.len().min(24)]),
            None => (0, b),
        };
        let mut buf = [0u8; 512];
        let mut s = Serializer::new(Cursor::new(&mut buf[..]));
        match serde::Serialize::serialize(&ViaCollect(rest, kind), &mut s) {
            Ok(_) => {
                let e = s.into_encoder();
                let k = e.writer().position();
                let mut h = Fnv::new();
                h.bytes(&e.writer().get_ref()[..k]);
                ok_out(h, k)
            }
            Err(e) => {
                let t = format!("{}", e);
                let class = if t.starts_with("write error") { "enc_write" } else if t.starts_with("encode error") { "enc_custom" } else { "enc_message" };
                Out { class, dig: 0, pos: 0, epos: None, flag: '-' }
            }
        }
    }) as Op));
    #[cfg(feature = "alloc")]
    {
        use std::borrow::Cow;
        use std::collections::BTreeMap;
        styped!(v;
            "serde.a.String" => String, "serde.a.Vec<u16>" => Vec<u16>, "serde.a.Vec<String>" => Vec<String>, "serde.a.Cow<str>" => Cow<str>,
            "serde.a.BTreeMap<String,i32>" => BTreeMap<String, i32>, "serde.a.BTreeMap<u8,Vec<u8>>" => BTreeMap<u8, Vec<u8>>, "serde.a.Box<SE>" => Box<SE>,
            "serde.a.AO" => AO, "serde.a.AUntagged" => AUntagged, "serde.a.AInternal" => AInternal, "serde.a.AAdjacent" => AAdjacent, "serde.a.AFlat" => AFlat,
            "serde.a.Vec<SE>" => Vec<SE>, "serde.a.Vec<SS>" => Vec<SS>,
        );
    }
}

fn ser<T: serde::Serialize>(v: &T) -> Vec<u8> {
    let mut buf = [0u8; 1024];
    let mut s = Serializer::new(Cursor::new(&mut buf[..]));
    v.serialize(&mut s).expect("sample serialises");
    let e = s.into_encoder();
    let n = e.writer().position();
    buf[..n].to_vec()
}

pub fn samples(out: &mut Vec<(String, Vec<u8>)>) {
    let ss = [SS { a: 0, b: "", c: None }, SS { a: 255, b: "bridge", c: Some(-1) }, SS { a: 24, b: "ü", c: Some(i32::MIN) }];
    for v in &ss {
        out.push(("SS".into(), ser(v)));
    }
    out.push(("SN".into(), ser(&SN(70000))));
    out.push(("ST".into(), ser(&ST(9, -300))));
    out.push(("SU".into(), ser(&SU)));
    let se = [SE::A, SE::B(200), SE::C(1, 65535), SE::D { x: -3, y: Some(true) }, SE::D { x: 0, y: None }];
    for v in &se {
        out.push(("SE".into(), ser(v)));
    }
    for (i, e) in se.iter().enumerate() {
        let o = SOuter { e: e.clone(), s: ss[i % 3].clone(), t: (i as u8, i % 2 == 0), f: 0.5 * i as f32, last: 1000 + i as u16 };
        out.push(("SOuter".into(), ser(&o)));
    }
    out.push(("tuple".into(), ser(&(7u8, -2i16, true))));
    out.push(("arr".into(), ser(&[1u16, 300, 65535])));
    #[cfg(feature = "alloc")]
    {
        use std::collections::BTreeMap;
        let mut m = BTreeMap::new();
        m.insert("k".to_string(), -5);
        m.insert("longer key".to_string(), 70000);
        let a = AO { s: "s".into(), v: vec![1, 256], m: m.clone(), o: None };
        let b = AO { s: "".into(), v: vec![], m: BTreeMap::new(), o: Some(Box::new(a.clone())) };
        out.push(("AO".into(), ser(&a)));
        out.push(("AO".into(), ser(&b)));
        for v in &[AUntagged::N(-9), AUntagged::S("u".into()), AUntagged::P { x: 1, y: 2 }, AUntagged::L(vec![1, 2, 3])] {
            out.push(("AUntagged".into(), ser(v)));
        }
        for v in &[AInternal::A { v: 5 }, AInternal::B { s: "b".into(), f: 2.5 }] {
            out.push(("AInternal".into(), ser(v)));
        }
        for v in &[AAdjacent::X(1), AAdjacent::Y("y".into(), -1), AAdjacent::Z] {
            out.push(("AAdjacent".into(), ser(v)));
        }
        let mut r = BTreeMap::new();
        r.insert("p".to_string(), 1u16);
        r.insert("q".to_string(), 500u16);
        out.push(("AFlat".into(), ser(&AFlat { id: 3, rest: r })));
    }
}
