//! Native (minicbor) operations of the feature-matrix probe: accessors,
//! iterators, skip, typed decodes (+ re-encode + len), derived types, encoder
//! methods driven by the input bytes.

#[allow(unused_imports)]
use crate::dec_only;
use crate::{dec, err_out, fin, ok_out, Fnv, Op, Out};
use core::num::Wrapping;
use core::ops::{Bound, Range, RangeFrom, RangeInclusive, RangeTo, RangeToInclusive};
use core::sync::atomic::{AtomicBool, AtomicI16, AtomicU32, AtomicU64, AtomicU8};
use minicbor::bytes::{ByteArray, ByteSlice};
use minicbor::data::{Int, Tag, Tagged};
use minicbor::decode::{self, Decoder};
use minicbor::encode::write::Cursor;
use minicbor::encode::Encoder;
use minicbor::{CborLen, Decode, Encode};
use std::fmt::Write as _;

// ------------------------------------------------------------------ derived types (all configurations)

#[derive(Debug, Clone, PartialEq, Encode, Decode, CborLen)]
pub struct DArr<'a> {
    #[n(0)]
    pub a: u8,
    #[b(1)]
    pub s: &'a str,
    #[n(3)]
    pub o: Option<i32>,
    #[n(4)]
    pub arr: [u8; 2],
    #[n(6)]
    pub f: Option<f32>,
}

#[derive(Debug, Clone, PartialEq, Encode, Decode, CborLen)]
#[cbor(map)]
pub struct DMap<'a> {
    #[n(0)]
    pub a: u64,
    #[b(2)]
    pub b: Option<&'a ByteSlice>,
    #[n(5)]
    pub e: Option<DEnum>,
    #[n(7)]
    pub t: (i8, bool),
}

#[derive(Debug, Clone, PartialEq, Encode, Decode, CborLen)]
pub enum DEnum {
    #[n(0)]
    U,
    #[n(1)]
    T(#[n(0)] u8, #[n(1)] Option<u16>),
    #[n(2)]
    #[cbor(map)]
    S {
        #[n(0)]
        x: i8,
        #[n(1)]
        y: Option<u8>,
    },
}

#[derive(Debug, Clone, Copy, PartialEq, Encode, Decode, CborLen)]
#[cbor(index_only)]
pub enum DIdx {
    #[n(0)]
    A,
    #[n(5)]
    B,
    #[n(300)]
    C,
}

#[derive(Debug, Clone, PartialEq, Encode, Decode, CborLen)]
#[cbor(tag(7))]
pub struct DTag {
    #[n(0)]
    #[cbor(tag(9))]
    pub v: u16,
    #[n(1)]
    pub i: Option<DIdx>,
    #[n(2)]
    pub w: Option<DNew>,
}

#[derive(Debug, Clone, PartialEq, Encode, Decode, CborLen)]
#[cbor(transparent)]
pub struct DNew(#[n(0)] pub u32);

#[derive(Debug, Clone, PartialEq, Encode, Decode, CborLen)]
pub struct DNest<'a> {
    #[b(0)]
    pub m: DMap<'a>,
    #[n(1)]
    pub e: DEnum,
    #[b(2)]
    pub r: Option<DArr<'a>>,
    #[n(3)]
    pub last: u8,
}

#[cfg(feature = "alloc")]
#[derive(Debug, Clone, PartialEq, Encode, Decode, CborLen)]
pub struct DOwn {
    #[n(0)]
    pub s: String,
    #[n(1)]
    #[cbor(with = "minicbor::bytes")]
    pub b: Vec<u8>,
    #[n(2)]
    pub v: Vec<DEnum>,
    #[n(3)]
    pub m: std::collections::BTreeMap<u8, Option<String>>,
    #[n(4)]
    pub x: Option<Box<DOwn>>,
}

// ------------------------------------------------------------------ samples

fn enc<T: Encode<()>>(v: &T) -> Vec<u8> {
    let mut buf = [0u8; 1024];
    let mut e = Encoder::new(Cursor::new(&mut buf[..]));
    e.encode(v).expect("sample encodes");
    let n = e.writer().position();
    buf[..n].to_vec()
}

pub fn samples(out: &mut Vec<(String, Vec<u8>)>) {
    let da = [
        DArr { a: 1, s: "", o: None, arr: [0, 255], f: None },
        DArr { a: 200, s: "héllo", o: Some(-70000), arr: [24, 23], f: Some(1.5) },
        DArr { a: 0, s: "abc", o: Some(0), arr: [1, 2], f: Some(f32::INFINITY) },
    ];
    for v in &da {
        out.push(("DArr".into(), enc(v)));
    }
    let bs: &ByteSlice = b"\x00\x18\xff"[..].into();
    let dm = [
        DMap { a: 0, b: None, e: None, t: (-1, true) },
        DMap { a: u64::MAX, b: Some(bs), e: Some(DEnum::U), t: (127, false) },
        DMap { a: 65536, b: None, e: Some(DEnum::T(7, Some(256))), t: (-128, true) },
        DMap { a: 24, b: Some(bs), e: Some(DEnum::S { x: -5, y: None }), t: (0, false) },
    ];
    for v in &dm {
        out.push(("DMap".into(), enc(v)));
    }
    for v in &[DEnum::U, DEnum::T(0, None), DEnum::T(255, Some(65535)), DEnum::S { x: 1, y: Some(2) }, DEnum::S { x: -128, y: None }] {
        out.push(("DEnum".into(), enc(v)));
    }
    for v in &[DIdx::A, DIdx::B, DIdx::C] {
        out.push(("DIdx".into(), enc(v)));
    }
    for v in &[DTag { v: 0, i: None, w: None }, DTag { v: 65535, i: Some(DIdx::C), w: Some(DNew(70000)) }, DTag { v: 24, i: None, w: Some(DNew(0)) }] {
        out.push(("DTag".into(), enc(v)));
    }
    out.push(("DNew".into(), enc(&DNew(4_000_000_000))));
    let dn = [
        DNest { m: dm[0].clone(), e: DEnum::U, r: None, last: 9 },
        DNest { m: dm[1].clone(), e: DEnum::T(1, Some(2)), r: Some(da[1].clone()), last: 255 },
        DNest { m: dm[3].clone(), e: DEnum::S { x: 0, y: Some(0) }, r: Some(da[0].clone()), last: 0 },
    ];
    for v in &dn {
        out.push(("DNest".into(), enc(v)));
    }
    #[cfg(feature = "alloc")]
    {
        let mut m = std::collections::BTreeMap::new();
        m.insert(1u8, Some("x".to_string()));
        m.insert(200u8, None);
        let a = DOwn { s: "own".into(), b: vec![1, 2, 0x18], v: vec![DEnum::U, DEnum::T(3, None)], m, x: None };
        let b = DOwn { s: String::new(), b: vec![], v: vec![], m: Default::default(), x: Some(Box::new(a.clone())) };
        out.push(("DOwn".into(), enc(&a)));
        out.push(("DOwn".into(), enc(&b)));
    }
}

// ------------------------------------------------------------------ operation table

macro_rules! acc {
    ($v:ident, $name:expr, |$d:ident| $e:expr) => {
        $v.push((
            $name,
            (|b: &[u8]| {
                let mut $d = Decoder::new(b);
                let r = $e;
                let pos = $d.position();
                fin(r, pos)
            }) as Op,
        ));
    };
}

macro_rules! typed {
    ($v:ident; $($name:expr => $t:ty),* $(,)?) => {
        $( $v.push(($name, (|b: &[u8]| dec::<$t>(b)) as Op)); )*
    };
}

#[allow(unused_macros)]
macro_rules! typed_only {
    ($v:ident; $($name:expr => $t:ty),* $(,)?) => {
        $( $v.push(($name, (|b: &[u8]| dec_only::<$t>(b)) as Op)); )*
    };
}

/// The encoder methods, with arguments taken from the input bytes.
fn encoder_ops(b: &[u8]) -> Out {
    let mut w = [0u8; 8];
    for (i, x) in b.iter().take(8).enumerate() {
        w[i] = *x;
    }
    let n = u64::from_be_bytes(w);
    let mut buf = [0u8; 512];
    let mut e = Encoder::new(Cursor::new(&mut buf[..]));
    let mut h = Fnv::new();
    let r = (|| -> Result<(), minicbor::encode::Error<minicbor::encode::write::EndOfSlice>> {
        e.u8(n as u8)?.u16(n as u16)?.u32(n as u32)?.u64(n)?;
        e.i8(n as i8)?.i16(n as i16)?.i32(n as i32)?.i64(n as i64)?;
        e.int(Int::from(n))?.int(Int::from(n as i64))?;
        e.f32(f32::from_bits(n as u32))?.f64(f64::from_bits(n))?;
        e.bool(n & 1 == 1)?.null()?.undefined()?;
        let s = n as u8;
        if s < 24 || s > 31 {
            e.simple(s)?;
        }
        if let Some(c) = char::from_u32(n as u32) {
            e.char(c)?;
        }
        e.tag(Tag::new(n))?.u8(0)?;
        e.array(n & 0xff)?;
        for _ in 0..(n & 0xff) {
            e.u8(1)?;
        }
        e.map(0)?.begin_array()?.end()?.begin_map()?.end()?;
        e.begin_bytes()?.bytes(&b[..b.len().min(40)])?.end()?;
        e.bytes(&b[..b.len().min(40)])?;
        if let Ok(t) = core::str::from_utf8(&b[..b.len().min(40)]) {
            e.str(t)?.begin_str()?.str(t)?.end()?;
        }
        Ok(())
    })();
    let n = e.writer().position();
    h.bytes(&e.writer().get_ref()[..n]);
    match r {
        Ok(()) => ok_out(h, n),
        Err(err) => {
            let _ = h.write_str(crate::enc_class(&err));
            ok_out(h, n)
        }
    }
}

pub fn register(v: &mut Vec<(&'static str, Op)>) {
    // accessors
    acc!(v, "acc.bool", |d| d.bool());
    acc!(v, "acc.u8", |d| d.u8());
    acc!(v, "acc.u16", |d| d.u16());
    acc!(v, "acc.u32", |d| d.u32());
    acc!(v, "acc.u64", |d| d.u64());
    acc!(v, "acc.i8", |d| d.i8());
    acc!(v, "acc.i16", |d| d.i16());
    acc!(v, "acc.i32", |d| d.i32());
    acc!(v, "acc.i64", |d| d.i64());
    acc!(v, "acc.int", |d| d.int());
    acc!(v, "acc.f32", |d| d.f32().map(f32::to_bits));
    acc!(v, "acc.f64", |d| d.f64().map(f64::to_bits));
    #[cfg(feature = "half")]
    acc!(v, "acc.f16", |d| d.f16().map(f32::to_bits));
    acc!(v, "acc.char", |d| d.char());
    acc!(v, "acc.bytes", |d| d.bytes());
    acc!(v, "acc.str", |d| d.str());
    acc!(v, "acc.array", |d| d.array());
    acc!(v, "acc.map", |d| d.map());
    acc!(v, "acc.tag", |d| d.tag());
    acc!(v, "acc.null", |d| d.null());
    acc!(v, "acc.undefined", |d| d.undefined());
    acc!(v, "acc.simple", |d| d.simple());
    acc!(v, "acc.datatype", |d| d.datatype());
    acc!(v, "acc.skip", |d| d.skip());
    acc!(v, "acc.skip2", |d| d.skip().and_then(|_| d.skip()));
    acc!(v, "acc.probe", |d| {
        let mut p = d.probe();
        let a = p.datatype();
        let b = p.skip();
        a.and_then(|t| b.map(|_| t))
    });
    v.push(("acc.skip_all", (|b: &[u8]| {
        let mut d = Decoder::new(b);
        let mut h = Fnv::new();
        let mut n = 0u32;
        let r = loop {
            if d.position() >= b.len() || n > 64 {
                break Ok(());
            }
            match d.skip() {
                Ok(()) => {
                    h.u64(d.position() as u64);
                    n += 1
                }
                Err(e) => break Err(e),
            }
        };
        let pos = d.position();
        match r {
            Ok(()) => ok_out(h, pos),
            Err(e) => err_out(&e, pos),
        }
    }) as Op));
    v.push(("it.bytes", (|b: &[u8]| {
        let mut d = Decoder::new(b);
        let r = d.bytes_iter();
        match r {
            Err(e) => {
                let p = d.position();
                err_out(&e, p)
            }
            Ok(it) => {
                let mut h = Fnv::new();
                let mut res = Ok(());
                for c in it {
                    match c {
                        Ok(c) => {
                            h.u64(c.len() as u64);
                            h.bytes(c)
                        }
                        Err(e) => {
                            res = Err(e);
                            break;
                        }
                    }
                }
                let p = d.position();
                match res {
                    Ok(()) => ok_out(h, p),
                    Err(e) => err_out(&e, p),
                }
            }
        }
    }) as Op));
    v.push(("it.str", (|b: &[u8]| {
        let mut d = Decoder::new(b);
        let r = d.str_iter();
        match r {
            Err(e) => {
                let p = d.position();
                err_out(&e, p)
            }
            Ok(it) => {
                let mut h = Fnv::new();
                let mut res = Ok(());
                for c in it {
                    match c {
                        Ok(c) => {
                            h.u64(c.len() as u64);
                            h.bytes(c.as_bytes())
                        }
                        Err(e) => {
                            res = Err(e);
                            break;
                        }
                    }
                }
                let p = d.position();
                match res {
                    Ok(()) => ok_out(h, p),
                    Err(e) => err_out(&e, p),
                }
            }
        }
    }) as Op));
    v.push(("it.array<u64>", (|b: &[u8]| {
        let mut d = Decoder::new(b);
        let mut h = Fnv::new();
        let r = (|| -> Result<(), decode::Error> {
            for x in d.array_iter::<u64>()? {
                h.u64(x?)
            }
            Ok(())
        })();
        let p = d.position();
        match r {
            Ok(()) => ok_out(h, p),
            Err(e) => err_out(&e, p),
        }
    }) as Op));
    v.push(("it.map<u8,&str>", (|b: &[u8]| {
        let mut d = Decoder::new(b);
        let mut h = Fnv::new();
        let r = (|| -> Result<(), decode::Error> {
            for x in d.map_iter::<u8, &str>()? {
                let (k, s) = x?;
                h.u64(k as u64);
                h.bytes(s.as_bytes())
            }
            Ok(())
        })();
        let p = d.position();
        match r {
            Ok(()) => ok_out(h, p),
            Err(e) => err_out(&e, p),
        }
    }) as Op));
    #[cfg(feature = "half")]
    v.push(("tokens", (|b: &[u8]| {
        let mut d = Decoder::new(b);
        let mut h = Fnv::new();
        let mut res = Ok(());
        let mut buf = [0u8; 2048];
        let mut e = Encoder::new(Cursor::new(&mut buf[..]));
        let mut n = 0usize;
        for t in d.tokens() {
            n += 1;
            if n > 4096 {
                break;
            }
            match t {
                Ok(t) => {
                    let _ = write!(h, "{:?}", t);
                    let _ = e.encode(&t);
                    h.u64(minicbor::len(&t) as u64);
                }
                Err(e) => {
                    res = Err(e);
                    break;
                }
            }
        }
        let k = e.writer().position();
        h.bytes(&e.writer().get_ref()[..k]);
        let p = d.position();
        match res {
            Ok(()) => ok_out(h, p),
            Err(e) => err_out(&e, p),
        }
    }) as Op));
    #[cfg(all(feature = "half", feature = "alloc"))]
    v.push(("display", (|b: &[u8]| {
        struct Lim(String, usize);
        impl std::fmt::Write for Lim {
            fn write_str(&mut self, s: &str) -> std::fmt::Result {
                if self.0.len() + s.len() > self.1 {
                    return Err(std::fmt::Error);
                }
                self.0.push_str(s);
                Ok(())
            }
        }
        let mut l = Lim(String::new(), 64 * b.len() + 1024);
        let r = write!(l, "{}", minicbor::display(b));
        match r {
            Ok(()) => {
                // the rendered *text* of a decoding error is configuration dependent
                // (documented: messages differ); keep its class only
                let mut h = Fnv::new();
                const M: &str = " !!! decoding error: ";
                let n = match l.0.find(M) {
                    Some(k) => {
                        h.bytes(l.0[..k + M.len()].as_bytes());
                        h.bytes(crate::class_of_text(&l.0[k + M.len()..]).as_bytes());
                        k + M.len()
                    }
                    None => {
                        h.bytes(l.0.as_bytes());
                        l.0.len()
                    }
                };
                ok_out(h, n)
            }
            Err(_) => Out { class: "fmt_limit", dig: 0, pos: 0, epos: None, flag: '-' },
        }
    }) as Op));
    v.push(("enc.methods", encoder_ops as Op));
    // values the encoder refuses: the class of the encode error (and what was written) per configuration
    v.push(("enc.refuse.refcell", (|b: &[u8]| {
        let cell = core::cell::RefCell::new(b.first().copied().unwrap_or(0));
        let guard = cell.borrow_mut();
        let mut buf = [0u8; 16];
        let mut e = Encoder::new(Cursor::new(&mut buf[..]));
        let r = e.encode(&cell).map(|_| ()).map_err(|err| crate::enc_class(&err));
        let n = e.writer().position();
        drop(guard);
        let mut h = Fnv::new();
        h.bytes(&e.writer().get_ref()[..n]);
        match r {
            Ok(()) => {
                let _ = h.write_str("ok");
            }
            Err(c) => {
                let _ = h.write_str(c);
            }
        }
        h.u64(minicbor::len(&core::cell::RefCell::new(7u8)) as u64);
        ok_out(h, n)
    }) as Op));
    v.push(("enc.refuse.small-sink", (|b: &[u8]| {
        // a sink that is too small: write error class and position after the failure
        let k = (b.first().copied().unwrap_or(0) % 5) as usize;
        let mut buf = [0u8; 4];
        let mut e = Encoder::new(Cursor::new(&mut buf[..k]));
        let r = e.array(3).and_then(|e| e.u32(70000)).and_then(|e| e.str("abc")).map(|_| ()).map_err(|err| crate::enc_class(&err));
        let n = e.writer().position();
        let mut h = Fnv::new();
        match r {
            Ok(()) => {
                let _ = h.write_str("ok");
            }
            Err(c) => {
                let _ = h.write_str(c);
            }
        }
        ok_out(h, n)
    }) as Op));
    #[cfg(feature = "std")]
    v.push(("enc.refuse.systemtime", (|b: &[u8]| {
        let secs = b.iter().take(4).fold(1u64, |a, x| (a << 8) | *x as u64);
        let t = std::time::UNIX_EPOCH - std::time::Duration::from_secs(secs);
        let mut buf = [0u8; 32];
        let mut e = Encoder::new(Cursor::new(&mut buf[..]));
        let r = e.encode(&t).map(|_| ()).map_err(|err| crate::enc_class(&err));
        let n = e.writer().position();
        let mut h = Fnv::new();
        match r {
            Ok(()) => {
                let _ = h.write_str("ok");
            }
            Err(c) => {
                let _ = h.write_str(c);
            }
        }
        ok_out(h, n)
    }) as Op));
    #[cfg(feature = "half")]
    v.push(("enc.f16", (|b: &[u8]| {
        let mut w = [0u8; 4];
        for (i, x) in b.iter().take(4).enumerate() {
            w[i] = *x;
        }
        let mut buf = [0u8; 8];
        let mut e = Encoder::new(Cursor::new(&mut buf[..]));
        let _ = e.f16(f32::from_bits(u32::from_be_bytes(w)));
        let n = e.writer().position();
        let mut h = Fnv::new();
        h.bytes(&e.writer().get_ref()[..n]);
        ok_out(h, n)
    }) as Op));

    // typed decodes available everywhere (each followed by re-encode + len)
    typed!(v;
        "t.u8" => u8, "t.u16" => u16, "t.u32" => u32, "t.u64" => u64, "t.usize" => usize,
        "t.i8" => i8, "t.i16" => i16, "t.i32" => i32, "t.i64" => i64, "t.isize" => isize,
        "t.bool" => bool, "t.char" => char, "t.unit" => (),
        "t.f32" => f32, "t.f64" => f64,
        "t.&str" => &str, "t.&ByteSlice" => &ByteSlice, "t.ByteArray<4>" => ByteArray<4>, "t.ByteArray<0>" => ByteArray<0>,
        "t.&CStr" => &core::ffi::CStr,
        "t.Option<u8>" => Option<u8>, "t.Option<&str>" => Option<&str>, "t.Option<f32>" => Option<f32>, "t.Option<[u8;2]>" => Option<[u8; 2]>,
        "t.Result<u8,&str>" => Result<u8, &str>,
        "t.[u8;0]" => [u8; 0], "t.[u8;2]" => [u8; 2], "t.[u16;3]" => [u16; 3], "t.[&str;2]" => [&str; 2], "t.[[u8;2];2]" => [[u8; 2]; 2], "t.[Option<i8>;4]" => [Option<i8>; 4],
        "t.(u8,)" => (u8,), "t.(u8,i16)" => (u8, i16), "t.(u8,&str,bool)" => (u8, &str, bool), "t.(u8,[u8;2],f32)" => (u8, [u8; 2], f32),
        "t.(u8x8)" => (u8, u8, u8, u8, u8, u8, u8, u8),
        "t.PhantomData<u8>" => core::marker::PhantomData<u8>,
        "t.Wrapping<i16>" => Wrapping<i16>,
        "t.NonZeroU8" => core::num::NonZeroU8, "t.NonZeroI32" => core::num::NonZeroI32, "t.NonZeroU64" => core::num::NonZeroU64,
        "t.Int" => Int, "t.Tag" => Tag, "t.Tagged<7,u8>" => Tagged<7, u8>, "t.Tagged<1,&str>" => Tagged<1, &str>,
        "t.Range<u8>" => Range<u8>, "t.RangeFrom<i8>" => RangeFrom<i8>, "t.RangeTo<u16>" => RangeTo<u16>,
        "t.RangeToInclusive<u8>" => RangeToInclusive<u8>, "t.RangeInclusive<i32>" => RangeInclusive<i32>, "t.Bound<u8>" => Bound<u8>,
        "t.Duration" => core::time::Duration,
        "t.Cell<u8>" => core::cell::Cell<u8>, "t.RefCell<i8>" => core::cell::RefCell<i8>,
        "t.AtomicBool" => AtomicBool, "t.AtomicU8" => AtomicU8, "t.AtomicI16" => AtomicI16, "t.AtomicU32" => AtomicU32, "t.AtomicU64" => AtomicU64,
        "d.DArr" => DArr, "d.DMap" => DMap, "d.DEnum" => DEnum, "d.DIdx" => DIdx, "d.DTag" => DTag, "d.DNew" => DNew, "d.DNest" => DNest,
        "d.Option<DEnum>" => Option<DEnum>, "d.[DIdx;2]" => [DIdx; 2], "d.(DNew,DEnum)" => (DNew, DEnum),
    );
    #[cfg(feature = "half")]
    typed!(v; "t.Token" => minicbor::data::Token, "t.[Token;2]" => [minicbor::data::Token; 2]);
    #[cfg(feature = "alloc")]
    {
        use minicbor::bytes::ByteVec;
        use std::borrow::Cow;
        use std::collections::{BTreeMap, BTreeSet, LinkedList, VecDeque};
        typed!(v;
            "a.String" => String, "a.Box<str>" => Box<str>, "a.Cow<str>" => Cow<str>, "a.CString" => std::ffi::CString,
            "a.ByteVec" => ByteVec, "a.Box<u8>" => Box<u8>, "a.Box<[u8;2]>" => Box<[u8; 2]>,
            "a.Vec<u8>" => Vec<u8>, "a.Vec<u64>" => Vec<u64>, "a.Vec<&str>" => Vec<&str>, "a.Vec<String>" => Vec<String>, "a.Vec<Vec<u8>>" => Vec<Vec<u8>>,
            "a.Vec<Option<i16>>" => Vec<Option<i16>>, "a.Vec<(u8,u8)>" => Vec<(u8, u8)>, "a.Vec<[u8;2]>" => Vec<[u8; 2]>, "a.Vec<f32>" => Vec<f32>,
            "a.VecDeque<u16>" => VecDeque<u16>, "a.LinkedList<i8>" => LinkedList<i8>, "a.BTreeSet<u32>" => BTreeSet<u32>,
            "a.BTreeMap<u8,String>" => BTreeMap<u8, String>, "a.BTreeMap<String,Vec<u8>>" => BTreeMap<String, Vec<u8>>, "a.BTreeMap<u8,&str>" => BTreeMap<u8, &str>,
            "a.Option<Vec<u8>>" => Option<Vec<u8>>, "a.(String,Vec<u8>)" => (String, Vec<u8>),
            "a.DOwn" => DOwn, "a.Vec<DEnum>" => Vec<DEnum>, "a.Vec<DArr>" => Vec<DArr>, "a.BTreeMap<u8,DIdx>" => BTreeMap<u8, DIdx>,
        );
        typed_only!(v; "a.BinaryHeap<u8>.sorted" => SortedHeap);
        #[cfg(feature = "half")]
        typed!(v; "a.Vec<Token>" => Vec<minicbor::data::Token>);
    }
    #[cfg(feature = "std")]
    {
        use std::net::{IpAddr, Ipv4Addr, Ipv6Addr, SocketAddr, SocketAddrV4, SocketAddrV6};
        typed!(v;
            "s.SystemTime" => std::time::SystemTime, "s.PathBuf" => std::path::PathBuf, "s.&Path" => &std::path::Path,
            "s.IpAddr" => IpAddr, "s.Ipv4Addr" => Ipv4Addr, "s.Ipv6Addr" => Ipv6Addr, "s.SocketAddr" => SocketAddr, "s.SocketAddrV4" => SocketAddrV4, "s.SocketAddrV6" => SocketAddrV6,
        );
        typed_only!(v; "s.HashMap<u8,u8>.sorted" => SortedHashMap, "s.HashSet<u16>.sorted" => SortedHashSet);
    }
}

// order-insensitive views of the unordered collections (alloc / std only)

#[cfg(feature = "alloc")]
#[derive(Debug)]
pub struct SortedHeap(Vec<u8>);

#[cfg(feature = "alloc")]
impl<'b, C> Decode<'b, C> for SortedHeap {
    fn decode(d: &mut Decoder<'b>, c: &mut C) -> Result<Self, decode::Error> {
        let h: std::collections::BinaryHeap<u8> = d.decode_with(c)?;
        Ok(SortedHeap(h.into_sorted_vec()))
    }
}

#[cfg(feature = "std")]
#[derive(Debug)]
pub struct SortedHashMap(Vec<(u8, u8)>);

#[cfg(feature = "std")]
impl<'b, C> Decode<'b, C> for SortedHashMap {
    fn decode(d: &mut Decoder<'b>, c: &mut C) -> Result<Self, decode::Error> {
        let h: std::collections::HashMap<u8, u8> = d.decode_with(c)?;
        let mut v: Vec<(u8, u8)> = h.into_iter().collect();
        v.sort();
        Ok(SortedHashMap(v))
    }
}

#[cfg(feature = "std")]
#[derive(Debug)]
pub struct SortedHashSet(Vec<u16>);

#[cfg(feature = "std")]
impl<'b, C> Decode<'b, C> for SortedHashSet {
    fn decode(d: &mut Decoder<'b>, c: &mut C) -> Result<Self, decode::Error> {
        let h: std::collections::HashSet<u16> = d.decode_with(c)?;
        let mut v: Vec<u16> = h.into_iter().collect();
        v.sort();
        Ok(SortedHashSet(v))
    }
}

#[allow(dead_code)]
fn _assert_traits<T: Encode<()> + CborLen<()>>() {}
