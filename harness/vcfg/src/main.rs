//! Feature-matrix probe (C20, and the no-alloc half of C06).
//!
//! Built once per feature configuration.  `vcfg serve` reads one hex-encoded
//! input per line from stdin and answers, for every operation that exists in
//! this configuration, one line
//!
//!     <op> \t <class> \t <digest> \t <decoder position> \t <error position|-> \t <flags>
//!
//! followed by a line `.`.  The driver (vmain c20) feeds the same inputs to all
//! configurations and compares the answers online.  `vcfg samples` prints valid
//! encodings of the derived / serde types defined here; `vcfg ops` the op names.
//!
//! Everything here goes through the public API only.

extern crate alloc;

use minicbor::decode::{self, Decoder};
use minicbor::encode::write::Cursor;
use minicbor::encode::{self, Encoder};
use minicbor::{CborLen, Decode, Encode};
use std::fmt::{Debug, Write as _};
use std::io::{BufRead, Write as _};

mod nat;
mod srd;

// ------------------------------------------------------------------ outcome

pub struct Fnv(pub u64);

impl Fnv {
    pub fn new() -> Self {
        Fnv(0xcbf29ce484222325)
    }
    pub fn bytes(&mut self, b: &[u8]) {
        for x in b {
            self.0 ^= *x as u64;
            self.0 = self.0.wrapping_mul(0x100000001b3);
        }
    }
    pub fn u64(&mut self, v: u64) {
        self.bytes(&v.to_be_bytes())
    }
}

impl std::fmt::Write for Fnv {
    fn write_str(&mut self, s: &str) -> std::fmt::Result {
        self.bytes(s.as_bytes());
        Ok(())
    }
}

pub struct Out {
    pub class: &'static str,
    pub dig: u64,
    pub pos: usize,
    pub epos: Option<usize>,
    /// 'A' = the error text is the documented "requires feature flag `alloc`" refusal of skip
    pub flag: char,
}

pub type Op = fn(&[u8]) -> Out;

/// Error class from the rendered error (the leading words are the same static
/// text in every configuration; only the trailing message may differ).
pub fn class_of_text(t: &str) -> &'static str {
    if t.starts_with("end of input bytes") {
        "end_of_input"
    } else if t.starts_with("invalid char") {
        "invalid_char"
    } else if t.starts_with("invalid utf-8") {
        "utf8"
    } else if t.starts_with("unexpected type") {
        "type_mismatch"
    } else if t.starts_with("unexpected tag") {
        "tag_mismatch"
    } else if t.starts_with("unknown enum variant") {
        "unknown_variant"
    } else if t.starts_with("missing value") {
        "missing_value"
    } else if t.starts_with("decode error") {
        "message"
    } else if t.contains("overflows target type") {
        "overflow"
    } else {
        "other"
    }
}

fn pos_of_text(t: &str) -> Option<usize> {
    let k = t.find("at position ")?;
    let rest = &t[k + 12..];
    let digits: String = rest.chars().take_while(|c| c.is_ascii_digit()).collect();
    digits.parse().ok()
}

const ALLOC_REFUSAL: &str = "require feature flag `alloc`";

pub fn err_out(e: &decode::Error, pos: usize) -> Out {
    let text = format!("{}", e);
    let by_text = class_of_text(&text);
    // the is_* predicates are the documented classification; the rendered text refines "other"
    let class = if e.is_end_of_input() {
        "end_of_input"
    } else if e.is_type_mismatch() {
        "type_mismatch"
    } else if e.is_tag_mismatch() {
        "tag_mismatch"
    } else if e.is_unknown_variant() {
        "unknown_variant"
    } else if e.is_missing_value() {
        "missing_value"
    } else if e.is_message() {
        "message"
    } else {
        match by_text {
            "invalid_char" | "utf8" | "overflow" => by_text,
            // `custom` exists only with alloc; it renders as "decode error"
            "message" => "custom",
            _ => "other",
        }
    };
    Out { class, dig: 0, pos, epos: e.position(), flag: if text.contains(ALLOC_REFUSAL) { 'A' } else { '-' } }
}

/// For the serde bridge, whose error type is opaque: class and position from the text.
pub fn err_out_text(text: &str, pos: usize) -> Out {
    Out { class: class_of_text(text), dig: 0, pos, epos: pos_of_text(text), flag: if text.contains(ALLOC_REFUSAL) { 'A' } else { '-' } }
}

pub fn ok_out(h: Fnv, pos: usize) -> Out {
    Out { class: "ok", dig: h.0, pos, epos: None, flag: '-' }
}

pub fn enc_class<E>(e: &encode::Error<E>) -> &'static str {
    if e.is_write() {
        "enc_write"
    } else if e.is_message() {
        "enc_message"
    } else {
        "enc_other"
    }
}

/// Re-encode a decoded value into a fixed buffer and fold bytes and `len()` into the digest.
pub fn reencode<T: Encode<()> + CborLen<()>>(v: &T, h: &mut Fnv) {
    let mut buf = [0u8; 1024];
    let mut e = Encoder::new(Cursor::new(&mut buf[..]));
    match e.encode(v) {
        Ok(_) => {
            let n = e.writer().position();
            h.u64(n as u64);
            h.bytes(&e.writer().get_ref()[..n]);
        }
        Err(err) => {
            let _ = h.write_str(enc_class(&err));
        }
    }
    h.u64(minicbor::len(v) as u64);
}

pub fn dec<'b, T>(b: &'b [u8]) -> Out
where
    T: Decode<'b, ()> + Encode<()> + CborLen<()> + Debug,
{
    let mut d = Decoder::new(b);
    let r: Result<T, decode::Error> = d.decode();
    let pos = d.position();
    match r {
        Ok(v) => {
            let mut h = Fnv::new();
            let _ = write!(h, "{:?}", v);
            reencode(&v, &mut h);
            ok_out(h, pos)
        }
        Err(e) => err_out(&e, pos),
    }
}

/// decode-only variant for types without Encode/CborLen
pub fn dec_only<'b, T>(b: &'b [u8]) -> Out
where
    T: Decode<'b, ()> + Debug,
{
    let mut d = Decoder::new(b);
    let r: Result<T, decode::Error> = d.decode();
    let pos = d.position();
    match r {
        Ok(v) => {
            let mut h = Fnv::new();
            let _ = write!(h, "{:?}", v);
            ok_out(h, pos)
        }
        Err(e) => err_out(&e, pos),
    }
}

pub fn fin<T: Debug>(r: Result<T, decode::Error>, pos: usize) -> Out {
    match r {
        Ok(v) => {
            let mut h = Fnv::new();
            let _ = write!(h, "{:?}", v);
            ok_out(h, pos)
        }
        Err(e) => err_out(&e, pos),
    }
}

// ------------------------------------------------------------------ main

pub fn config_name() -> &'static str {
    match (cfg!(feature = "std"), cfg!(feature = "alloc"), cfg!(feature = "half")) {
        (true, _, true) => "std+half",
        (true, _, false) => "std",
        (false, true, true) => "alloc+half",
        (false, true, false) => "alloc",
        (false, false, true) => "none+half",
        (false, false, false) => "none",
    }
}

fn unhex(s: &str) -> Option<Vec<u8>> {
    let s = s.trim();
    if s.len() % 2 != 0 {
        return None;
    }
    let mut v = Vec::with_capacity(s.len() / 2);
    let b = s.as_bytes();
    for i in (0..b.len()).step_by(2) {
        let h = (b[i] as char).to_digit(16)?;
        let l = (b[i + 1] as char).to_digit(16)?;
        v.push((h * 16 + l) as u8);
    }
    Some(v)
}

pub fn hex(b: &[u8]) -> String {
    let mut s = String::with_capacity(b.len() * 2);
    for x in b {
        let _ = write!(s, "{:02x}", x);
    }
    s
}

pub fn all_ops() -> Vec<(&'static str, Op)> {
    let mut v: Vec<(&'static str, Op)> = Vec::new();
    nat::register(&mut v);
    srd::register(&mut v);
    v
}

fn main() {
    let argv: Vec<String> = std::env::args().collect();
    let mode = argv.get(1).map(|s| s.as_str()).unwrap_or("");
    let ops = all_ops();
    match mode {
        "config" => println!("{}", config_name()),
        "ops" => {
            for (n, _) in &ops {
                println!("{}", n);
            }
        }
        "samples" => {
            let mut out: Vec<(String, Vec<u8>)> = Vec::new();
            nat::samples(&mut out);
            srd::samples(&mut out);
            for (n, b) in out {
                println!("{}\t{}", n, hex(&b));
            }
        }
        "serve" => {
            let only: Option<&str> = argv.get(2).map(|s| s.as_str());
            let stdin = std::io::stdin();
            let stdout = std::io::stdout();
            let mut w = std::io::BufWriter::with_capacity(1 << 16, stdout.lock());
            // a panic inside an operation is an outcome ("panic"), not the end of the server
            std::panic::set_hook(Box::new(|_| {}));
            let mut line = String::new();
            let mut r = stdin.lock();
            loop {
                line.clear();
                match r.read_line(&mut line) {
                    Ok(0) | Err(_) => break,
                    Ok(_) => {}
                }
                let input = match unhex(&line) {
                    Some(b) => b.into_boxed_slice(),
                    None => {
                        let _ = writeln!(w, "!bad-input");
                        let _ = writeln!(w, ".");
                        let _ = w.flush();
                        continue;
                    }
                };
                for (name, f) in &ops {
                    if let Some(p) = only {
                        if !name.starts_with(p) {
                            continue;
                        }
                    }
                    let f = *f;
                    let inp: &[u8] = &input;
                    let o = match std::panic::catch_unwind(move || f(inp)) {
                        Ok(o) => o,
                        Err(_) => Out { class: "panic", dig: 0, pos: 0, epos: None, flag: '-' },
                    };
                    let _ = write!(w, "{}\t{}\t{:x}\t{}\t", name, o.class, o.dig, o.pos);
                    match o.epos {
                        Some(p) => {
                            let _ = write!(w, "{}", p);
                        }
                        None => {
                            let _ = write!(w, "-");
                        }
                    }
                    let _ = writeln!(w, "\t{}", o.flag);
                }
                let _ = writeln!(w, ".");
                let _ = w.flush();
            }
        }
        _ => {
            eprintln!("usage: vcfg config|ops|samples|serve [op-prefix]");
            std::process::exit(2);
        }
    }
}
