//! Per-worker report: what was executed, what the monitors observed, and any
//! violations (grouped by signature so that known findings can be matched by
//! the orchestrator without the worker knowing about them).

use crate::json::J;
use std::collections::{BTreeMap, HashSet};

pub struct Viol {
    pub count: u64,
    pub examples: Vec<J>,
}

pub struct Report {
    pub check: String,
    pub tier: String,
    pub seed: u64,
    pub shard: u64,
    pub nshards: u64,
    pub evaluations: u64,
    pub counters: BTreeMap<String, u64>,
    pub maxima: BTreeMap<String, f64>,
    distinct: HashSet<u64>,
    distinct_saturated: bool,
    pub distinct_enumerated: u64,
    pub samples: Vec<J>,
    pub violations: BTreeMap<String, Viol>,
    pub notes: Vec<String>,
    pub exhaustive: Vec<String>,
    pub inconclusive: Vec<String>,
    started: std::time::Instant,
}

const DISTINCT_CAP: usize = 4_000_000;
const SAMPLE_CAP: usize = 6;
const EXAMPLE_CAP: usize = 3;

impl Report {
    pub fn new(check: &str, tier: &str, seed: u64, shard: u64, nshards: u64) -> Self {
        Report {
            check: check.to_string(),
            tier: tier.to_string(),
            seed,
            shard,
            nshards,
            evaluations: 0,
            counters: BTreeMap::new(),
            maxima: BTreeMap::new(),
            distinct: HashSet::new(),
            distinct_saturated: false,
            distinct_enumerated: 0,
            samples: Vec::new(),
            violations: BTreeMap::new(),
            notes: Vec::new(),
            exhaustive: Vec::new(),
            inconclusive: Vec::new(),
            started: std::time::Instant::now(),
        }
    }

    #[inline]
    pub fn eval(&mut self) {
        self.evaluations += 1;
        if self.evaluations & 0xfff == 0 {
            crate::mon::tick();
        }
    }

    #[inline]
    pub fn evals(&mut self, n: u64) {
        self.evaluations += n
    }

    pub fn count(&mut self, name: &str) {
        self.count_n(name, 1)
    }

    pub fn count_n(&mut self, name: &str, n: u64) {
        if let Some(c) = self.counters.get_mut(name) {
            *c += n
        } else {
            self.counters.insert(name.to_string(), n);
        }
    }

    pub fn max(&mut self, name: &str, v: f64) {
        let e = self.maxima.entry(name.to_string()).or_insert(f64::MIN);
        if v > *e {
            *e = v
        }
    }

    /// Record a randomly generated non-trivial case by content hash.
    #[inline]
    pub fn seen(&mut self, hash: u64) {
        if self.distinct.len() < DISTINCT_CAP {
            self.distinct.insert(hash);
        } else {
            self.distinct_saturated = true
        }
    }

    /// Record `n` non-trivial cases that are distinct by construction
    /// (produced by an enumerating loop).
    #[inline]
    pub fn enumerated(&mut self, n: u64) {
        self.distinct_enumerated += n
    }

    pub fn sample(&mut self, j: J) {
        if self.samples.len() < SAMPLE_CAP {
            self.samples.push(j)
        }
    }

    pub fn want_sample(&self) -> bool {
        self.samples.len() < SAMPLE_CAP
    }

    pub fn note<S: Into<String>>(&mut self, s: S) {
        let s = s.into();
        if !self.notes.contains(&s) {
            self.notes.push(s)
        }
    }

    pub fn violation(&mut self, signature: &str, detail: J, replay: Vec<String>) {
        let v = self.violations.entry(signature.to_string()).or_insert(Viol { count: 0, examples: Vec::new() });
        v.count += 1;
        if v.examples.len() < EXAMPLE_CAP {
            v.examples.push(J::obj().with("detail", detail).with("replay", J::A(replay.into_iter().map(J::S).collect())));
        }
    }

    pub fn violation_count(&self) -> u64 {
        self.violations.values().map(|v| v.count).sum()
    }

    pub fn to_json(&self) -> J {
        let mut viol = Vec::new();
        for (sig, v) in &self.violations {
            viol.push(J::obj().with("signature", J::s(sig.clone())).with("count", J::U(v.count)).with("examples", J::A(v.examples.clone())));
        }
        J::obj()
            .with("check", J::s(self.check.clone()))
            .with("tier", J::s(self.tier.clone()))
            .with("seed", J::U(self.seed))
            .with("shard", J::U(self.shard))
            .with("nshards", J::U(self.nshards))
            .with("evaluations", J::U(self.evaluations))
            .with("distinct_hashed", J::U(self.distinct.len() as u64))
            .with("distinct_saturated", J::Bool(self.distinct_saturated))
            .with("distinct_enumerated", J::U(self.distinct_enumerated))
            .with("counters", J::O(self.counters.iter().map(|(k, v)| (k.clone(), J::U(*v))).collect()))
            .with("maxima", J::O(self.maxima.iter().map(|(k, v)| (k.clone(), J::F(*v))).collect()))
            .with("samples", J::A(self.samples.clone()))
            .with("violations", J::A(viol))
            .with("notes", J::A(self.notes.iter().map(|s| J::s(s.clone())).collect()))
            .with("exhaustive", J::A(self.exhaustive.iter().map(|s| J::s(s.clone())).collect()))
            .with("inconclusive", J::A(self.inconclusive.iter().map(|s| J::s(s.clone())).collect()))
            .with("wall_s", J::F(self.started.elapsed().as_secs_f64()))
    }

    pub fn write(&self, path: &str) {
        std::fs::write(path, self.to_json().render()).expect("write report");
        // raw hashes of the distinct non-trivial cases, merged exactly by the orchestrator
        let mut raw = Vec::with_capacity(self.distinct.len() * 8);
        for h in &self.distinct {
            raw.extend_from_slice(&h.to_le_bytes())
        }
        std::fs::write(format!("{}.hashes", path), raw).expect("write hashes");
    }
}

/// Command line of a worker.
#[derive(Clone, Debug)]
pub struct Args {
    pub check: String,
    pub tier: String,
    pub seed: u64,
    pub shard: u64,
    pub nshards: u64,
    pub out: String,
    pub replay: Vec<String>,
    pub extra: Vec<(String, String)>,
}

impl Args {
    pub fn parse(argv: &[String]) -> Args {
        let mut a = Args {
            check: argv.get(1).cloned().unwrap_or_default(),
            tier: "quick".into(),
            seed: 0,
            shard: 0,
            nshards: 1,
            out: String::new(),
            replay: Vec::new(),
            extra: Vec::new(),
        };
        let mut i = 2;
        while i < argv.len() {
            let k = argv[i].as_str();
            match k {
                "--tier" => {
                    a.tier = argv[i + 1].clone();
                    i += 2
                }
                "--seed" => {
                    a.seed = argv[i + 1].parse().expect("seed");
                    i += 2
                }
                "--shard" => {
                    a.shard = argv[i + 1].parse().expect("shard");
                    i += 2
                }
                "--nshards" => {
                    a.nshards = argv[i + 1].parse().expect("nshards");
                    i += 2
                }
                "--out" => {
                    a.out = argv[i + 1].clone();
                    i += 2
                }
                "--replay" => {
                    a.replay = argv[i + 1..].to_vec();
                    break;
                }
                _ if k.starts_with("--") && i + 1 < argv.len() => {
                    a.extra.push((k[2..].to_string(), argv[i + 1].clone()));
                    i += 2
                }
                _ => panic!("bad argument {}", k),
            }
        }
        a
    }

    pub fn thorough(&self) -> bool {
        self.tier == "thorough"
    }

    pub fn extra(&self, k: &str) -> Option<&str> {
        self.extra.iter().find(|(n, _)| n == k).map(|(_, v)| v.as_str())
    }

    /// Does index `i` belong to this shard?
    #[inline]
    pub fn mine(&self, i: u64) -> bool {
        let m = i % self.nshards == self.shard;
        // every 1024th index of this shard is a heartbeat: loops that tick on `i & mask == 0`
        // after this filter would otherwise only ever tick in shard 0
        if m && (i / self.nshards) & 0x3ff == 0 {
            crate::mon::tick();
        }
        m
    }
}

/// Exact size of the union of the hash files written by the workers.
pub fn merge_hash_files(paths: &[String]) -> u64 {
    let mut all: Vec<u64> = Vec::new();
    for p in paths {
        if let Ok(b) = std::fs::read(p) {
            for c in b.chunks_exact(8) {
                let mut a = [0u8; 8];
                a.copy_from_slice(c);
                all.push(u64::from_le_bytes(a))
            }
        }
    }
    all.sort_unstable();
    all.dedup();
    all.len() as u64
}
