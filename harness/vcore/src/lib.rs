//! Shared components of the minicbor verification harness: PRNG, reference
//! models (written from RFC 8949 / IEEE 754, independent of minicbor),
//! workload generators, runtime monitors and the evidence writer.

pub mod gen;
pub mod json;
pub mod mon;
pub mod refcbor;
pub mod refnum;
pub mod report;
pub mod rng;
