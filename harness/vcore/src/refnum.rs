//! Exact IEEE 754 half/single/double reference arithmetic on bit patterns,
//! using integer operations only (independent of the `half` crate and of the
//! hardware conversion instructions).

pub fn is_nan16(h: u16) -> bool {
    (h & 0x7c00) == 0x7c00 && (h & 0x03ff) != 0
}
pub fn is_nan32(b: u32) -> bool {
    (b & 0x7f80_0000) == 0x7f80_0000 && (b & 0x007f_ffff) != 0
}
pub fn is_nan64(b: u64) -> bool {
    (b & 0x7ff0_0000_0000_0000) == 0x7ff0_0000_0000_0000 && (b & 0x000f_ffff_ffff_ffff) != 0
}

/// Exact widening of a half pattern to a double pattern (NaN payloads are
/// kept in the top fraction bits; callers only rely on "NaN stays NaN").
pub fn f16_bits_to_f64_bits(h: u16) -> u64 {
    let s = u64::from(h >> 15) << 63;
    let e = u64::from((h >> 10) & 0x1f);
    let m = u64::from(h & 0x3ff);
    if e == 0 {
        if m == 0 {
            return s;
        }
        // subnormal: m * 2^-24
        let p = 63 - u64::from(m.leading_zeros()); // position of the top bit, 0..=9
        let exp = p + 1023 - 24;
        let frac = (m << (52 - p)) & ((1u64 << 52) - 1);
        return s | (exp << 52) | frac;
    }
    if e == 31 {
        return s | (0x7ffu64 << 52) | (m << 42);
    }
    s | ((e + 1023 - 15) << 52) | (m << 42)
}

pub fn f16_bits_to_f32_bits(h: u16) -> u32 {
    let s = u32::from(h >> 15) << 31;
    let e = u32::from((h >> 10) & 0x1f);
    let m = u32::from(h & 0x3ff);
    if e == 0 {
        if m == 0 {
            return s;
        }
        let p = 31 - m.leading_zeros();
        let exp = p + 127 - 24;
        let frac = (m << (23 - p)) & ((1u32 << 23) - 1);
        return s | (exp << 23) | frac;
    }
    if e == 31 {
        return s | (0xffu32 << 23) | (m << 13);
    }
    s | ((e + 127 - 15) << 23) | (m << 13)
}

pub fn f32_bits_to_f64_bits(b: u32) -> u64 {
    let s = u64::from(b >> 31) << 63;
    let e = u64::from((b >> 23) & 0xff);
    let m = u64::from(b & 0x7f_ffff);
    if e == 0 {
        if m == 0 {
            return s;
        }
        let p = 63 - u64::from(m.leading_zeros()); // 0..=22
        let exp = p + 1023 - 149;
        let frac = (m << (52 - p)) & ((1u64 << 52) - 1);
        return s | (exp << 52) | frac;
    }
    if e == 255 {
        return s | (0x7ffu64 << 52) | (m << 29);
    }
    s | ((e + 1023 - 127) << 52) | (m << 29)
}

/// Is this double pattern exactly representable as a single?  (finite or inf)
pub fn f64_bits_fit_f32(b: u64) -> Option<u32> {
    if is_nan64(b) {
        return None;
    }
    let x = f64::from_bits(b);
    let y = x as f32; // rounding conversion; exact iff round trip is identical
    if f32_bits_to_f64_bits(y.to_bits()) == b {
        Some(y.to_bits())
    } else {
        None
    }
}

/// Expected result of converting a single to half precision with
/// round-to-nearest, ties-to-even.
#[derive(Clone, Copy, Debug, PartialEq, Eq)]
pub enum Half {
    Bits(u16),
    /// Any NaN pattern is acceptable.
    NaN,
}

fn half_nonneg_value(bits: u16) -> f64 {
    // bits in 0..=0x7c00; 0x7c00 stands for 65536 = the first value beyond
    // the largest finite half, used as the rounding neighbour of 65504.
    if bits == 0x7c00 {
        65536.0
    } else {
        f64::from_bits(f16_bits_to_f64_bits(bits))
    }
}

pub fn f32_to_f16_rne(b: u32) -> Half {
    if is_nan32(b) {
        return Half::NaN;
    }
    let sign = ((b >> 16) & 0x8000) as u16;
    let mag = f64::from_bits(f32_bits_to_f64_bits(b & 0x7fff_ffff)); // exact |x|, may be inf
    if mag >= 65536.0 {
        return Half::Bits(sign | 0x7c00);
    }
    // Non-negative half patterns are ordered like their values: binary search
    // for the largest pattern lo in 0..=0x7bff with value(lo) <= |x|.
    let (mut l, mut r) = (0u16, 0x7bffu16);
    while l < r {
        let mid = l + (r - l + 1) / 2;
        if half_nonneg_value(mid) <= mag {
            l = mid
        } else {
            r = mid - 1
        }
    }
    let lo = l;
    let hi = lo + 1;
    let lv = half_nonneg_value(lo);
    if lv == mag {
        return Half::Bits(sign | lo);
    }
    let hv = half_nonneg_value(hi);
    // compare |x| - lo with hi - |x|  <=>  2|x| with lo + hi (both exact in f64)
    let twice = mag * 2.0;
    let sum = lv + hv;
    let pick = if twice < sum {
        lo
    } else if twice > sum {
        hi
    } else if lo & 1 == 0 {
        lo
    } else {
        hi
    };
    Half::Bits(sign | pick)
}

#[cfg(test)]
mod tests {
    use super::*;

    #[test]
    fn widen_matches_hardware_on_non_nan() {
        for b in [0u32, 1, 0x7f_ffff, 0x80_0000, 0x3f80_0000, 0x7f7f_ffff, 0x7f80_0000, 0x8000_0001, 0xff80_0000] {
            assert_eq!(f32_bits_to_f64_bits(b), (f32::from_bits(b) as f64).to_bits(), "{:08x}", b);
        }
        assert_eq!(f16_bits_to_f64_bits(0x3c00), 1.0f64.to_bits());
        assert_eq!(f16_bits_to_f64_bits(0x0001), (2f64.powi(-24)).to_bits());
        assert_eq!(f16_bits_to_f64_bits(0x7bff), 65504.0f64.to_bits());
        assert_eq!(f16_bits_to_f64_bits(0xc000), (-2.0f64).to_bits());
        assert_eq!(f16_bits_to_f32_bits(0x0001), (2f32.powi(-24)).to_bits());
        assert_eq!(f16_bits_to_f32_bits(0x03ff), (1023.0 * 2f32.powi(-24)).to_bits());
    }

    #[test]
    fn rne() {
        assert_eq!(f32_to_f16_rne(1.0f32.to_bits()), Half::Bits(0x3c00));
        assert_eq!(f32_to_f16_rne(65504.0f32.to_bits()), Half::Bits(0x7bff));
        assert_eq!(f32_to_f16_rne(65519.996f32.to_bits()), Half::Bits(0x7bff));
        assert_eq!(f32_to_f16_rne(65520.0f32.to_bits()), Half::Bits(0x7c00));
        assert_eq!(f32_to_f16_rne((-65520.0f32).to_bits()), Half::Bits(0xfc00));
        assert_eq!(f32_to_f16_rne(2f32.powi(-25).to_bits()), Half::Bits(0x0000)); // tie to even (0)
        assert_eq!(f32_to_f16_rne((2f32.powi(-25) * 1.0000001).to_bits()), Half::Bits(0x0001));
        assert_eq!(f32_to_f16_rne((3.0 * 2f32.powi(-25)).to_bits()), Half::Bits(0x0002)); // tie -> even
        assert_eq!(f32_to_f16_rne(f32::INFINITY.to_bits()), Half::Bits(0x7c00));
        assert_eq!(f32_to_f16_rne(f32::NAN.to_bits()), Half::NaN);
        assert_eq!(f32_to_f16_rne((-0.0f32).to_bits()), Half::Bits(0x8000));
        // 1 + 2^-11 is a tie between 1.0 (even) and 1+2^-10
        assert_eq!(f32_to_f16_rne((1.0 + 2f32.powi(-11)).to_bits()), Half::Bits(0x3c00));
        assert_eq!(f32_to_f16_rne((1.0 + 3.0 * 2f32.powi(-11)).to_bits()), Half::Bits(0x3c02));
    }

    #[test]
    fn all_halves_round_trip() {
        for h in 0..=0xffffu16 {
            if is_nan16(h) {
                continue;
            }
            assert_eq!(f32_to_f16_rne(f16_bits_to_f32_bits(h)), Half::Bits(h));
            assert_eq!(f32_bits_to_f64_bits(f16_bits_to_f32_bits(h)), f16_bits_to_f64_bits(h));
        }
    }
}
