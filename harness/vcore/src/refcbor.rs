//! Reference model of RFC 8949 data items, written from the RFC and sharing no
//! code with minicbor: a strict well-formedness parser that records head widths
//! and definiteness, a reference encoder that honours them, the preferred-form
//! normaliser, the expected token stream and the reference renderer of the
//! diagnostic notation documented for `minicbor::display`.

use crate::refnum;

/// A CBOR data item with its concrete serialisation choices.
///
/// Head widths `w` are the number of argument bytes following the initial
/// byte: 0 (argument < 24 in the initial byte), 1, 2, 4 or 8.
#[derive(Clone, Debug, PartialEq, Eq, Hash)]
pub enum Item {
    UInt { w: u8, v: u64 },
    /// Negative integer with argument `v`, i.e. the value `-1 - v`.
    NInt { w: u8, v: u64 },
    Bytes { w: u8, v: Vec<u8> },
    /// Indefinite-length byte string: definite chunks (width, data).
    BytesIndef(Vec<(u8, Vec<u8>)>),
    /// Text string, raw bytes (may be invalid UTF-8: still well-formed).
    Text { w: u8, v: Vec<u8> },
    TextIndef(Vec<(u8, Vec<u8>)>),
    /// `w == None` means indefinite length.
    Array { w: Option<u8>, items: Vec<Item> },
    Map { w: Option<u8>, items: Vec<(Item, Item)> },
    Tag { w: u8, v: u64, inner: Box<Item> },
    /// Simple value. `w == 0`: one-byte form (v < 24, includes false=20,
    /// true=21, null=22, undefined=23); `w == 1`: two-byte form `f8 v`
    /// (well-formed iff v >= 32).
    Simple { w: u8, v: u8 },
    F16(u16),
    F32(u32),
    F64(u64),
}

#[derive(Clone, Debug, PartialEq, Eq)]
pub enum PErr {
    /// The input ended inside an item that was well-formed so far.
    Truncated,
    /// Not well-formed (position, reason).
    IllFormed(usize, &'static str),
}

pub fn min_width(v: u64) -> u8 {
    if v < 24 {
        0
    } else if v <= 0xff {
        1
    } else if v <= 0xffff {
        2
    } else if v <= 0xffff_ffff {
        4
    } else {
        8
    }
}

pub fn widths_from(min: u8) -> &'static [u8] {
    match min {
        0 => &[0, 1, 2, 4, 8],
        1 => &[1, 2, 4, 8],
        2 => &[2, 4, 8],
        4 => &[4, 8],
        _ => &[8],
    }
}

pub fn head(major: u8, w: u8, arg: u64, out: &mut Vec<u8>) {
    let m = major << 5;
    match w {
        0 => {
            assert!(arg < 24, "immediate head with arg {}", arg);
            out.push(m | arg as u8)
        }
        1 => {
            out.push(m | 24);
            out.push(arg as u8)
        }
        2 => {
            out.push(m | 25);
            out.extend_from_slice(&(arg as u16).to_be_bytes())
        }
        4 => {
            out.push(m | 26);
            out.extend_from_slice(&(arg as u32).to_be_bytes())
        }
        8 => {
            out.push(m | 27);
            out.extend_from_slice(&arg.to_be_bytes())
        }
        _ => panic!("bad width {}", w),
    }
}

pub fn head_len(w: u8) -> usize {
    1 + w as usize
}

impl Item {
    pub fn uint(v: u64) -> Item {
        Item::UInt { w: min_width(v), v }
    }
    pub fn nint(v: u64) -> Item {
        Item::NInt { w: min_width(v), v }
    }
    /// Integer from its mathematical value (must be in [-2^64, 2^64-1]).
    pub fn int(v: i128) -> Item {
        if v >= 0 {
            Item::uint(v as u64)
        } else {
            Item::nint((-1 - v) as u64)
        }
    }
    pub fn bytes(v: &[u8]) -> Item {
        Item::Bytes { w: min_width(v.len() as u64), v: v.to_vec() }
    }
    pub fn text(v: &str) -> Item {
        Item::Text { w: min_width(v.len() as u64), v: v.as_bytes().to_vec() }
    }
    pub fn array(items: Vec<Item>) -> Item {
        Item::Array { w: Some(min_width(items.len() as u64)), items }
    }
    pub fn array_indef(items: Vec<Item>) -> Item {
        Item::Array { w: None, items }
    }
    pub fn map(items: Vec<(Item, Item)>) -> Item {
        Item::Map { w: Some(min_width(items.len() as u64)), items }
    }
    pub fn map_indef(items: Vec<(Item, Item)>) -> Item {
        Item::Map { w: None, items }
    }
    pub fn tag(v: u64, inner: Item) -> Item {
        Item::Tag { w: min_width(v), v, inner: Box::new(inner) }
    }
    pub fn simple(v: u8) -> Item {
        Item::Simple { w: if v < 24 { 0 } else { 1 }, v }
    }
    pub fn bool(b: bool) -> Item {
        Item::Simple { w: 0, v: if b { 21 } else { 20 } }
    }
    pub fn null() -> Item {
        Item::Simple { w: 0, v: 22 }
    }
    pub fn undefined() -> Item {
        Item::Simple { w: 0, v: 23 }
    }

    pub fn is_null(&self) -> bool {
        matches!(self, Item::Simple { w: 0, v: 22 })
    }

    pub fn encode(&self) -> Vec<u8> {
        let mut v = Vec::new();
        self.encode_into(&mut v);
        v
    }

    pub fn encode_into(&self, out: &mut Vec<u8>) {
        match self {
            Item::UInt { w, v } => head(0, *w, *v, out),
            Item::NInt { w, v } => head(1, *w, *v, out),
            Item::Bytes { w, v } => {
                head(2, *w, v.len() as u64, out);
                out.extend_from_slice(v)
            }
            Item::BytesIndef(chunks) => {
                out.push(0x5f);
                for (w, c) in chunks {
                    head(2, *w, c.len() as u64, out);
                    out.extend_from_slice(c)
                }
                out.push(0xff)
            }
            Item::Text { w, v } => {
                head(3, *w, v.len() as u64, out);
                out.extend_from_slice(v)
            }
            Item::TextIndef(chunks) => {
                out.push(0x7f);
                for (w, c) in chunks {
                    head(3, *w, c.len() as u64, out);
                    out.extend_from_slice(c)
                }
                out.push(0xff)
            }
            Item::Array { w, items } => {
                match w {
                    Some(w) => head(4, *w, items.len() as u64, out),
                    None => out.push(0x9f),
                }
                for i in items {
                    i.encode_into(out)
                }
                if w.is_none() {
                    out.push(0xff)
                }
            }
            Item::Map { w, items } => {
                match w {
                    Some(w) => head(5, *w, items.len() as u64, out),
                    None => out.push(0xbf),
                }
                for (k, v) in items {
                    k.encode_into(out);
                    v.encode_into(out)
                }
                if w.is_none() {
                    out.push(0xff)
                }
            }
            Item::Tag { w, v, inner } => {
                head(6, *w, *v, out);
                inner.encode_into(out)
            }
            Item::Simple { w, v } => {
                if *w == 0 {
                    assert!(*v < 24);
                    out.push(0xe0 | *v)
                } else {
                    out.push(0xf8);
                    out.push(*v)
                }
            }
            Item::F16(b) => {
                out.push(0xf9);
                out.extend_from_slice(&b.to_be_bytes())
            }
            Item::F32(b) => {
                out.push(0xfa);
                out.extend_from_slice(&b.to_be_bytes())
            }
            Item::F64(b) => {
                out.push(0xfb);
                out.extend_from_slice(&b.to_be_bytes())
            }
        }
    }

    /// The same item with every head in its shortest form (definiteness and
    /// float widths are kept: those are data-model visible for minicbor).
    pub fn preferred(&self) -> Item {
        match self {
            Item::UInt { v, .. } => Item::uint(*v),
            Item::NInt { v, .. } => Item::nint(*v),
            Item::Bytes { v, .. } => Item::bytes(v),
            Item::BytesIndef(c) => {
                Item::BytesIndef(c.iter().map(|(_, d)| (min_width(d.len() as u64), d.clone())).collect())
            }
            Item::Text { v, .. } => Item::Text { w: min_width(v.len() as u64), v: v.clone() },
            Item::TextIndef(c) => {
                Item::TextIndef(c.iter().map(|(_, d)| (min_width(d.len() as u64), d.clone())).collect())
            }
            Item::Array { w, items } => Item::Array {
                w: w.map(|_| min_width(items.len() as u64)),
                items: items.iter().map(|i| i.preferred()).collect(),
            },
            Item::Map { w, items } => Item::Map {
                w: w.map(|_| min_width(items.len() as u64)),
                items: items.iter().map(|(k, v)| (k.preferred(), v.preferred())).collect(),
            },
            Item::Tag { v, inner, .. } => Item::tag(*v, inner.preferred()),
            Item::Simple { v, .. } => Item::simple(*v),
            x @ (Item::F16(_) | Item::F32(_) | Item::F64(_)) => x.clone(),
        }
    }

    pub fn is_preferred(&self) -> bool {
        &self.preferred() == self
    }

    /// Every head of the item is definite-length (RFC 8949 preferred
    /// serialisation additionally requires this).
    pub fn is_definite(&self) -> bool {
        match self {
            Item::BytesIndef(_) | Item::TextIndef(_) => false,
            Item::Array { w, items } => w.is_some() && items.iter().all(|i| i.is_definite()),
            Item::Map { w, items } => w.is_some() && items.iter().all(|(k, v)| k.is_definite() && v.is_definite()),
            Item::Tag { inner, .. } => inner.is_definite(),
            _ => true,
        }
    }

    /// Well-formed per RFC 8949 (only the two-byte simple form can be
    /// ill-formed in this representation).
    pub fn is_well_formed(&self) -> bool {
        match self {
            Item::Simple { w: 1, v } => *v >= 32,
            Item::Simple { w: 0, v } => *v < 24,
            Item::Simple { .. } => false,
            Item::Array { items, .. } => items.iter().all(|i| i.is_well_formed()),
            Item::Map { items, .. } => items.iter().all(|(k, v)| k.is_well_formed() && v.is_well_formed()),
            Item::Tag { inner, .. } => inner.is_well_formed(),
            _ => true,
        }
    }

    /// All text strings (and chunks) are valid UTF-8.
    pub fn text_valid(&self) -> bool {
        match self {
            Item::Text { v, .. } => std::str::from_utf8(v).is_ok(),
            Item::TextIndef(c) => c.iter().all(|(_, d)| std::str::from_utf8(d).is_ok()),
            Item::Array { items, .. } => items.iter().all(|i| i.text_valid()),
            Item::Map { items, .. } => items.iter().all(|(k, v)| k.text_valid() && v.text_valid()),
            Item::Tag { inner, .. } => inner.text_valid(),
            _ => true,
        }
    }

    pub fn node_count(&self) -> usize {
        match self {
            Item::Array { items, .. } => 1 + items.iter().map(|i| i.node_count()).sum::<usize>(),
            Item::Map { items, .. } => 1 + items.iter().map(|(k, v)| k.node_count() + v.node_count()).sum::<usize>(),
            Item::Tag { inner, .. } => 1 + inner.node_count(),
            Item::BytesIndef(c) | Item::TextIndef(c) => 1 + c.len(),
            _ => 1,
        }
    }

    pub fn depth(&self) -> usize {
        match self {
            Item::Array { items, .. } => 1 + items.iter().map(|i| i.depth()).max().unwrap_or(0),
            Item::Map { items, .. } => 1 + items.iter().map(|(k, v)| k.depth().max(v.depth())).max().unwrap_or(0),
            Item::Tag { inner, .. } => 1 + inner.depth(),
            _ => 1,
        }
    }

    /// Mathematical value of an integer item.
    pub fn int_value(&self) -> Option<i128> {
        match self {
            Item::UInt { v, .. } => Some(*v as i128),
            Item::NInt { v, .. } => Some(-1 - (*v as i128)),
            _ => None,
        }
    }

    /// Short class label used for coverage tables.
    pub fn class(&self) -> &'static str {
        match self {
            Item::UInt { .. } => "uint",
            Item::NInt { .. } => "nint",
            Item::Bytes { .. } => "bytes",
            Item::BytesIndef(_) => "bytes-indef",
            Item::Text { .. } => "text",
            Item::TextIndef(_) => "text-indef",
            Item::Array { w: Some(_), .. } => "array",
            Item::Array { w: None, .. } => "array-indef",
            Item::Map { w: Some(_), .. } => "map",
            Item::Map { w: None, .. } => "map-indef",
            Item::Tag { .. } => "tag",
            Item::Simple { .. } => "simple",
            Item::F16(_) => "f16",
            Item::F32(_) => "f32",
            Item::F64(_) => "f64",
        }
    }
}

struct P<'a> {
    b: &'a [u8],
    pos: usize,
}

impl<'a> P<'a> {
    fn byte(&mut self) -> Result<u8, PErr> {
        let x = *self.b.get(self.pos).ok_or(PErr::Truncated)?;
        self.pos += 1;
        Ok(x)
    }

    fn take(&mut self, n: u64) -> Result<&'a [u8], PErr> {
        let rem = (self.b.len() - self.pos) as u64;
        if n > rem {
            return Err(PErr::Truncated);
        }
        let n = n as usize;
        let s = &self.b[self.pos..self.pos + n];
        self.pos += n;
        Ok(s)
    }

    /// Read the argument for additional information `ai` (< 28).
    fn arg(&mut self, ai: u8) -> Result<(u8, u64), PErr> {
        match ai {
            0..=23 => Ok((0, u64::from(ai))),
            24 => Ok((1, u64::from(self.byte()?))),
            25 => {
                let s = self.take(2)?;
                Ok((2, u64::from(u16::from_be_bytes([s[0], s[1]]))))
            }
            26 => {
                let s = self.take(4)?;
                Ok((4, u64::from(u32::from_be_bytes([s[0], s[1], s[2], s[3]]))))
            }
            27 => {
                let s = self.take(8)?;
                let mut a = [0u8; 8];
                a.copy_from_slice(s);
                Ok((8, u64::from_be_bytes(a)))
            }
            _ => unreachable!(),
        }
    }

    /// Parse one item; `Ok(None)` means a break byte was found where the
    /// caller allowed one.
    fn item(&mut self, allow_break: bool) -> Result<Option<Item>, PErr> {
        let start = self.pos;
        let ib = self.byte()?;
        let major = ib >> 5;
        let ai = ib & 0x1f;
        if (28..=30).contains(&ai) {
            return Err(PErr::IllFormed(start, "reserved additional information 28..30"));
        }
        if ai == 31 {
            return match major {
                0 | 1 | 6 => Err(PErr::IllFormed(start, "additional information 31 on major type 0/1/6")),
                2 | 3 => {
                    let mut chunks = Vec::new();
                    loop {
                        let cs = self.pos;
                        let cb = self.byte()?;
                        if cb == 0xff {
                            break;
                        }
                        if cb >> 5 != major {
                            return Err(PErr::IllFormed(cs, "chunk of different major type in indefinite string"));
                        }
                        let cai = cb & 0x1f;
                        if cai == 31 {
                            return Err(PErr::IllFormed(cs, "indefinite chunk inside indefinite string"));
                        }
                        if cai >= 28 {
                            return Err(PErr::IllFormed(cs, "reserved additional information 28..30"));
                        }
                        let (w, n) = self.arg(cai)?;
                        let d = self.take(n)?;
                        chunks.push((w, d.to_vec()));
                    }
                    Ok(Some(if major == 2 { Item::BytesIndef(chunks) } else { Item::TextIndef(chunks) }))
                }
                4 => {
                    let mut items = Vec::new();
                    while let Some(i) = self.item(true)? {
                        items.push(i)
                    }
                    Ok(Some(Item::Array { w: None, items }))
                }
                5 => {
                    let mut items = Vec::new();
                    loop {
                        let k = match self.item(true)? {
                            Some(k) => k,
                            None => break,
                        };
                        let vs = self.pos;
                        let v = match self.item(true)? {
                            Some(v) => v,
                            None => return Err(PErr::IllFormed(vs, "break between map key and value")),
                        };
                        items.push((k, v))
                    }
                    Ok(Some(Item::Map { w: None, items }))
                }
                _ => {
                    if allow_break {
                        Ok(None)
                    } else {
                        Err(PErr::IllFormed(start, "break outside indefinite-length item"))
                    }
                }
            };
        }
        if major == 7 {
            return Ok(Some(match ai {
                0..=23 => Item::Simple { w: 0, v: ai },
                24 => {
                    let v = self.byte()?;
                    if v < 32 {
                        return Err(PErr::IllFormed(start, "two-byte simple value < 32"));
                    }
                    Item::Simple { w: 1, v }
                }
                25 => {
                    let s = self.take(2)?;
                    Item::F16(u16::from_be_bytes([s[0], s[1]]))
                }
                26 => {
                    let s = self.take(4)?;
                    Item::F32(u32::from_be_bytes([s[0], s[1], s[2], s[3]]))
                }
                _ => {
                    let s = self.take(8)?;
                    let mut a = [0u8; 8];
                    a.copy_from_slice(s);
                    Item::F64(u64::from_be_bytes(a))
                }
            }));
        }
        let (w, n) = self.arg(ai)?;
        Ok(Some(match major {
            0 => Item::UInt { w, v: n },
            1 => Item::NInt { w, v: n },
            2 => Item::Bytes { w, v: self.take(n)?.to_vec() },
            3 => Item::Text { w, v: self.take(n)?.to_vec() },
            4 => {
                let mut items = Vec::new();
                for _ in 0..n {
                    match self.item(false)? {
                        Some(i) => items.push(i),
                        None => unreachable!(),
                    }
                }
                Item::Array { w: Some(w), items }
            }
            5 => {
                let mut items = Vec::new();
                for _ in 0..n {
                    let k = self.item(false)?.unwrap();
                    let v = self.item(false)?.unwrap();
                    items.push((k, v))
                }
                Item::Map { w: Some(w), items }
            }
            6 => {
                let inner = self.item(false)?.unwrap();
                Item::Tag { w, v: n, inner: Box::new(inner) }
            }
            _ => unreachable!(),
        }))
    }
}

/// Parse exactly one well-formed item from the start of `b`; returns the item
/// and the number of bytes it occupies.
pub fn parse(b: &[u8]) -> Result<(Item, usize), PErr> {
    parse_at(b, 0)
}

pub fn parse_at(b: &[u8], pos: usize) -> Result<(Item, usize), PErr> {
    let mut p = P { b, pos };
    match p.item(false)? {
        Some(i) => Ok((i, p.pos)),
        None => unreachable!(),
    }
}

/// Parse a sequence of items covering the whole input.
pub fn parse_seq(b: &[u8]) -> Result<Vec<Item>, PErr> {
    let mut p = P { b, pos: 0 };
    let mut v = Vec::new();
    while p.pos < b.len() {
        v.push(p.item(false)?.unwrap())
    }
    Ok(v)
}

// ---------------------------------------------------------------------------
// Expected token stream

/// Reference token: what the head at this point of the input denotes in the
/// RFC 8949 data model.  Integers are compared by value, not by the Rust
/// width minicbor picks; simple values 20..=23 are `Simple(20..=23)`.
#[derive(Clone, Debug, PartialEq)]
pub enum RTok {
    Int(i128),
    Bytes(Vec<u8>),
    Text(Vec<u8>),
    Array(u64),
    Map(u64),
    Tag(u64),
    Simple(u8),
    F16(u16),
    F32(u32),
    F64(u64),
    Break,
    BeginBytes,
    BeginText,
    BeginArray,
    BeginMap,
}

pub fn tokens(i: &Item, out: &mut Vec<RTok>) {
    match i {
        Item::UInt { v, .. } => out.push(RTok::Int(*v as i128)),
        Item::NInt { v, .. } => out.push(RTok::Int(-1 - *v as i128)),
        Item::Bytes { v, .. } => out.push(RTok::Bytes(v.clone())),
        Item::BytesIndef(c) => {
            out.push(RTok::BeginBytes);
            for (_, d) in c {
                out.push(RTok::Bytes(d.clone()))
            }
            out.push(RTok::Break)
        }
        Item::Text { v, .. } => out.push(RTok::Text(v.clone())),
        Item::TextIndef(c) => {
            out.push(RTok::BeginText);
            for (_, d) in c {
                out.push(RTok::Text(d.clone()))
            }
            out.push(RTok::Break)
        }
        Item::Array { w, items } => {
            out.push(if w.is_some() { RTok::Array(items.len() as u64) } else { RTok::BeginArray });
            for x in items {
                tokens(x, out)
            }
            if w.is_none() {
                out.push(RTok::Break)
            }
        }
        Item::Map { w, items } => {
            out.push(if w.is_some() { RTok::Map(items.len() as u64) } else { RTok::BeginMap });
            for (k, v) in items {
                tokens(k, out);
                tokens(v, out)
            }
            if w.is_none() {
                out.push(RTok::Break)
            }
        }
        Item::Tag { v, inner, .. } => {
            out.push(RTok::Tag(*v));
            tokens(inner, out)
        }
        Item::Simple { v, .. } => out.push(RTok::Simple(*v)),
        Item::F16(b) => out.push(RTok::F16(*b)),
        Item::F32(b) => out.push(RTok::F32(*b)),
        Item::F64(b) => out.push(RTok::F64(*b)),
    }
}

// ---------------------------------------------------------------------------
// Diagnostic notation as documented for `minicbor::display`

/// Render a well-formed item whose text strings are valid UTF-8.
pub fn diag(i: &Item) -> String {
    let mut s = String::new();
    diag_into(i, &mut s);
    s
}

fn hex_bytes(v: &[u8], s: &mut String) {
    s.push_str("h'");
    for (i, x) in v.iter().enumerate() {
        if i > 0 {
            s.push(' ')
        }
        s.push_str(&format!("{:02x}", x));
    }
    s.push('\'');
}

fn diag_into(i: &Item, s: &mut String) {
    match i {
        Item::UInt { v, .. } => s.push_str(&v.to_string()),
        Item::NInt { v, .. } => s.push_str(&(-1 - *v as i128).to_string()),
        Item::Bytes { v, .. } => hex_bytes(v, s),
        Item::BytesIndef(c) => {
            if c.is_empty() {
                s.push_str("''_")
            } else {
                s.push_str("(_ ");
                for (k, (_, d)) in c.iter().enumerate() {
                    if k > 0 {
                        s.push_str(", ")
                    }
                    hex_bytes(d, s)
                }
                s.push(')')
            }
        }
        Item::Text { v, .. } => {
            s.push('"');
            s.push_str(std::str::from_utf8(v).expect("diag: valid utf-8 required"));
            s.push('"')
        }
        Item::TextIndef(c) => {
            if c.is_empty() {
                s.push_str("\"\"_")
            } else {
                s.push_str("(_ ");
                for (k, (_, d)) in c.iter().enumerate() {
                    if k > 0 {
                        s.push_str(", ")
                    }
                    s.push('"');
                    s.push_str(std::str::from_utf8(d).expect("diag: valid utf-8 required"));
                    s.push('"')
                }
                s.push(')')
            }
        }
        Item::Array { w, items } => {
            s.push_str(if w.is_some() { "[" } else { "[_ " });
            for (k, x) in items.iter().enumerate() {
                if k > 0 {
                    s.push_str(", ")
                }
                diag_into(x, s)
            }
            s.push(']')
        }
        Item::Map { w, items } => {
            s.push_str(if w.is_some() { "{" } else { "{_ " });
            for (n, (k, v)) in items.iter().enumerate() {
                if n > 0 {
                    s.push_str(", ")
                }
                diag_into(k, s);
                s.push_str(": ");
                diag_into(v, s)
            }
            s.push('}')
        }
        Item::Tag { v, inner, .. } => {
            s.push_str(&v.to_string());
            s.push('(');
            diag_into(inner, s);
            s.push(')')
        }
        Item::Simple { v: 20, .. } => s.push_str("false"),
        Item::Simple { v: 21, .. } => s.push_str("true"),
        Item::Simple { v: 22, .. } => s.push_str("null"),
        Item::Simple { v: 23, .. } => s.push_str("undefined"),
        Item::Simple { v, .. } => s.push_str(&format!("simple({})", v)),
        Item::F16(b) => s.push_str(&format!("{:e}", f32::from_bits(refnum::f16_bits_to_f32_bits(*b)))),
        Item::F32(b) => s.push_str(&format!("{:e}", f32::from_bits(*b))),
        Item::F64(b) => s.push_str(&format!("{:e}", f64::from_bits(*b))),
    }
}

/// The notation for an empty indefinite container is undocumented: `[_ ]` and
/// `[_]` are both accepted.  Normalise before comparing.
pub fn diag_normalise(s: &str) -> String {
    s.replace("[_ ]", "[_]").replace("{_ }", "{_}")
}

#[cfg(test)]
mod tests {
    use super::*;

    #[test]
    fn rfc_examples() {
        // RFC 8949 Appendix A samples
        let cases: &[(&str, &str)] = &[
            ("00", "0"),
            ("1903e8", "1000"),
            ("3903e7", "-1000"),
            ("1bffffffffffffffff", "18446744073709551615"),
            ("3bffffffffffffffff", "-18446744073709551616"),
            ("4401020304", "h'01 02 03 04'"),
            ("6449455446", "\"IETF\""),
            ("83010203", "[1, 2, 3]"),
            ("8301820203820405", "[1, [2, 3], [4, 5]]"),
            ("a201020304", "{1: 2, 3: 4}"),
            ("9f018202039f0405ffff", "[_ 1, [2, 3], [_ 4, 5]]"),
            ("bf61610161629f0203ffff", "{_ \"a\": 1, \"b\": [_ 2, 3]}"),
            ("5f42010243030405ff", "(_ h'01 02', h'03 04 05')"),
            ("7f657374726561646d696e67ff", "(_ \"strea\", \"ming\")"),
            ("c11a514b67b0", "1(1363896240)"),
            ("f4", "false"),
            ("f6", "null"),
            ("f0", "simple(16)"),
            ("f8ff", "simple(255)"),
        ];
        for (h, d) in cases {
            let b = crate::json::unhex(h).unwrap();
            let (i, n) = parse(&b).unwrap();
            assert_eq!(n, b.len());
            assert_eq!(i.encode(), b);
            assert_eq!(&diag(&i), d, "{}", h);
        }
    }

    #[test]
    fn ill_formed() {
        for h in ["1c", "1f", "3f", "df", "ff", "f800", "f81f", "5f00ff", "5f5f41004100ffff", "7f4100ff", "bf00ff", "9f"] {
            let b = crate::json::unhex(h).unwrap();
            let r = parse(&b);
            assert!(r.is_err(), "{} -> {:?}", h, r);
        }
        assert_eq!(parse(&[0x9f]), Err(PErr::Truncated));
        assert_eq!(parse(&[0x18]), Err(PErr::Truncated));
        assert_eq!(parse(&[0x5b, 0xff, 0xff, 0xff, 0xff, 0xff, 0xff, 0xff, 0xff]), Err(PErr::Truncated));
        assert!(matches!(parse(&[0xf8, 0x10]), Err(PErr::IllFormed(..))));
    }
}
