//! Minimal JSON value and writer (no parser: workers only emit reports).

#[derive(Clone, Debug, PartialEq)]
pub enum J {
    Null,
    Bool(bool),
    I(i64),
    U(u64),
    F(f64),
    S(String),
    A(Vec<J>),
    O(Vec<(String, J)>),
}

impl J {
    pub fn obj() -> J {
        J::O(Vec::new())
    }

    pub fn s<T: Into<String>>(s: T) -> J {
        J::S(s.into())
    }

    pub fn set<K: Into<String>>(&mut self, k: K, v: J) -> &mut Self {
        let k = k.into();
        if let J::O(o) = self {
            if let Some(e) = o.iter_mut().find(|(n, _)| *n == k) {
                e.1 = v;
            } else {
                o.push((k, v));
            }
        } else {
            panic!("J::set on non-object")
        }
        self
    }

    pub fn with<K: Into<String>>(mut self, k: K, v: J) -> J {
        self.set(k, v);
        self
    }

    pub fn push(&mut self, v: J) {
        if let J::A(a) = self {
            a.push(v)
        } else {
            panic!("J::push on non-array")
        }
    }

    pub fn render(&self) -> String {
        let mut s = String::new();
        self.write(&mut s);
        s
    }

    pub fn write(&self, out: &mut String) {
        match self {
            J::Null => out.push_str("null"),
            J::Bool(b) => out.push_str(if *b { "true" } else { "false" }),
            J::I(n) => out.push_str(&n.to_string()),
            J::U(n) => out.push_str(&n.to_string()),
            J::F(x) => {
                if x.is_finite() {
                    out.push_str(&format!("{}", x));
                    if x.fract() == 0.0 && !format!("{}", x).contains('e') {
                        out.push_str(".0")
                    }
                } else {
                    out.push_str("null")
                }
            }
            J::S(s) => write_str(s, out),
            J::A(a) => {
                out.push('[');
                for (i, x) in a.iter().enumerate() {
                    if i > 0 {
                        out.push(',')
                    }
                    x.write(out)
                }
                out.push(']')
            }
            J::O(o) => {
                out.push('{');
                for (i, (k, v)) in o.iter().enumerate() {
                    if i > 0 {
                        out.push(',')
                    }
                    write_str(k, out);
                    out.push(':');
                    v.write(out)
                }
                out.push('}')
            }
        }
    }
}

fn write_str(s: &str, out: &mut String) {
    out.push('"');
    for c in s.chars() {
        match c {
            '"' => out.push_str("\\\""),
            '\\' => out.push_str("\\\\"),
            '\n' => out.push_str("\\n"),
            '\r' => out.push_str("\\r"),
            '\t' => out.push_str("\\t"),
            c if (c as u32) < 0x20 => out.push_str(&format!("\\u{:04x}", c as u32)),
            c => out.push(c),
        }
    }
    out.push('"');
}

pub fn hex(b: &[u8]) -> String {
    let mut s = String::with_capacity(b.len() * 2);
    for x in b {
        s.push_str(&format!("{:02x}", x));
    }
    s
}

pub fn unhex(s: &str) -> Option<Vec<u8>> {
    let s = s.trim();
    if s.len() % 2 != 0 {
        return None;
    }
    let mut v = Vec::with_capacity(s.len() / 2);
    let b = s.as_bytes();
    for i in (0..b.len()).step_by(2) {
        let h = (b[i] as char).to_digit(16)?;
        let l = (b[i + 1] as char).to_digit(16)?;
        v.push((h * 16 + l) as u8);
    }
    Some(v)
}

impl From<u64> for J {
    fn from(x: u64) -> J {
        J::U(x)
    }
}
impl From<usize> for J {
    fn from(x: usize) -> J {
        J::U(x as u64)
    }
}
impl From<i64> for J {
    fn from(x: i64) -> J {
        J::I(x)
    }
}
impl From<bool> for J {
    fn from(x: bool) -> J {
        J::Bool(x)
    }
}
impl From<&str> for J {
    fn from(x: &str) -> J {
        J::S(x.to_string())
    }
}
impl From<String> for J {
    fn from(x: String) -> J {
        J::S(x)
    }
}
impl From<f64> for J {
    fn from(x: f64) -> J {
        J::F(x)
    }
}
