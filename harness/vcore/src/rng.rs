//! Deterministic PRNG (SplitMix64 seeding, xoshiro256**).  All randomness of
//! the harness derives from `VERIF_SEED` through this generator; case `i` of
//! shard `k` is a pure function of (check, tier, seed, k, i).

#[derive(Clone, Debug)]
pub struct Rng {
    s: [u64; 4],
}

pub fn splitmix(x: &mut u64) -> u64 {
    *x = x.wrapping_add(0x9E37_79B9_7F4A_7C15);
    let mut z = *x;
    z = (z ^ (z >> 30)).wrapping_mul(0xBF58_476D_1CE4_E5B9);
    z = (z ^ (z >> 27)).wrapping_mul(0x94D0_49BB_1331_11EB);
    z ^ (z >> 31)
}

/// FNV-1a, used to mix strings into seeds and for cheap content hashes.
pub fn fnv64(data: &[u8]) -> u64 {
    let mut h: u64 = 0xcbf2_9ce4_8422_2325;
    for b in data {
        h ^= u64::from(*b);
        h = h.wrapping_mul(0x0000_0100_0000_01b3);
    }
    h
}

pub fn hash_mix(a: u64, b: u64) -> u64 {
    let mut x = a ^ b.rotate_left(32) ^ 0x2545_F491_4F6C_DD1D;
    splitmix(&mut x)
}

impl Rng {
    pub fn new(seed: u64) -> Self {
        let mut x = seed;
        let s = [splitmix(&mut x), splitmix(&mut x), splitmix(&mut x), splitmix(&mut x)];
        Rng { s }
    }

    /// Derive a generator from a tuple of identifying values.
    pub fn derive(label: &str, seed: u64, shard: u64, case: u64) -> Self {
        let mut h = fnv64(label.as_bytes());
        h = hash_mix(h, seed);
        h = hash_mix(h, shard);
        h = hash_mix(h, case);
        Rng::new(h)
    }

    pub fn next_u64(&mut self) -> u64 {
        let r = self.s[1].wrapping_mul(5).rotate_left(7).wrapping_mul(9);
        let t = self.s[1] << 17;
        self.s[2] ^= self.s[0];
        self.s[3] ^= self.s[1];
        self.s[1] ^= self.s[2];
        self.s[0] ^= self.s[3];
        self.s[2] ^= t;
        self.s[3] = self.s[3].rotate_left(45);
        r
    }

    pub fn next_u32(&mut self) -> u32 {
        (self.next_u64() >> 32) as u32
    }

    /// Uniform in `0..n` (n > 0).
    pub fn below(&mut self, n: u64) -> u64 {
        debug_assert!(n > 0);
        // multiply-shift; bias is irrelevant for workload generation
        ((u128::from(self.next_u64()) * u128::from(n)) >> 64) as u64
    }

    pub fn usize_below(&mut self, n: usize) -> usize {
        self.below(n as u64) as usize
    }

    /// Uniform in `lo..=hi`.
    pub fn range(&mut self, lo: u64, hi: u64) -> u64 {
        debug_assert!(lo <= hi);
        if lo == 0 && hi == u64::MAX {
            return self.next_u64();
        }
        lo + self.below(hi - lo + 1)
    }

    pub fn bool(&mut self) -> bool {
        self.next_u64() & 1 == 1
    }

    /// True with probability `num/den`.
    pub fn chance(&mut self, num: u64, den: u64) -> bool {
        self.below(den) < num
    }

    pub fn pick<'a, T>(&mut self, xs: &'a [T]) -> &'a T {
        &xs[self.usize_below(xs.len())]
    }

    pub fn bytes(&mut self, n: usize) -> Vec<u8> {
        let mut v = Vec::with_capacity(n);
        while v.len() < n {
            let x = self.next_u64().to_le_bytes();
            let k = (n - v.len()).min(8);
            v.extend_from_slice(&x[..k]);
        }
        v
    }

    pub fn shuffle<T>(&mut self, xs: &mut [T]) {
        for i in (1..xs.len()).rev() {
            let j = self.usize_below(i + 1);
            xs.swap(i, j);
        }
    }
}
