//! Runtime monitors: panic capture, allocation accounting, step counting,
//! bounded formatter sink, canary buffers, pointer provenance, watchdog.
//!
//! All monitor state is process-global; a worker process measures one call at
//! a time on one thread, so the monitors' own state can never be the race.

use std::alloc::{GlobalAlloc, Layout, System};
use std::cell::{Cell, UnsafeCell};
use std::panic::{catch_unwind, AssertUnwindSafe};
use std::sync::atomic::{AtomicBool, AtomicU64, AtomicUsize, Ordering::Relaxed};
use std::sync::Mutex;

// ---------------------------------------------------------------------------
// current case marker (used by the watchdog and the allocation cap to name the
// case that was running when the process had to be stopped)

struct CaseBuf(UnsafeCell<[u8; 1024]>);
unsafe impl Sync for CaseBuf {}
static CASE_BUF: CaseBuf = CaseBuf(UnsafeCell::new([0; 1024]));
static CASE_LEN: AtomicUsize = AtomicUsize::new(0);
static HEARTBEAT: AtomicU64 = AtomicU64::new(0);

/// Record what is about to be executed (ASCII, truncated to 1 KiB).
#[inline]
pub fn set_case(desc: &[u8]) {
    let n = desc.len().min(1024);
    unsafe {
        let p = CASE_BUF.0.get() as *mut u8;
        std::ptr::copy_nonoverlapping(desc.as_ptr(), p, n);
    }
    CASE_LEN.store(n, Relaxed);
    HEARTBEAT.store(HEARTBEAT.load(Relaxed).wrapping_add(1), Relaxed);
}

/// Progress tick without a case description (cheap; for tight exhaustive loops).
#[inline]
pub fn tick() {
    HEARTBEAT.store(HEARTBEAT.load(Relaxed).wrapping_add(1), Relaxed);
}

fn write_stderr_raw(parts: &[&[u8]]) {
    use std::io::Write;
    let mut e = std::io::stderr();
    for p in parts {
        let _ = e.write_all(p);
    }
    let _ = e.write_all(b"\n");
}

fn current_case_copy() -> Vec<u8> {
    let n = CASE_LEN.load(Relaxed);
    let mut v = vec![0u8; n];
    unsafe {
        let p = CASE_BUF.0.get() as *const u8;
        std::ptr::copy_nonoverlapping(p, v.as_mut_ptr(), n);
    }
    v
}

// ---------------------------------------------------------------------------
// allocation monitor

pub struct CountingAlloc;

// The accounting is per thread and only active inside an `AllocScope` of that
// thread, so allocations of other threads (watchdog, runtime start-up) can
// never be attributed to a measured call.  The cells are const-initialised
// and have no destructor, hence touching them inside the allocator is safe.
thread_local! {
    static ON: Cell<bool> = const { Cell::new(false) };
    static CUR: Cell<isize> = const { Cell::new(0) };
    static PEAK: Cell<isize> = const { Cell::new(0) };
    static COUNT: Cell<u64> = const { Cell::new(0) };
    static MAXREQ: Cell<usize> = const { Cell::new(0) };
}
/// Requests above this size are refused (null), after naming the current case.
pub const ALLOC_HARD_CAP: usize = 1 << 30;
static CAP: AtomicUsize = AtomicUsize::new(ALLOC_HARD_CAP);

/// Change the refusal threshold (a workload that deliberately needs one huge buffer).
pub fn set_alloc_cap(n: usize) {
    CAP.store(n, Relaxed)
}

#[inline]
fn on() -> bool {
    ON.try_with(|c| c.get()).unwrap_or(false)
}

#[inline]
fn on_alloc(size: usize) {
    if !on() {
        return;
    }
    let _ = CUR.try_with(|c| {
        let v = c.get() + size as isize;
        c.set(v);
        let _ = PEAK.try_with(|p| {
            if v > p.get() {
                p.set(v)
            }
        });
    });
    let _ = COUNT.try_with(|c| c.set(c.get() + 1));
    let _ = MAXREQ.try_with(|c| {
        if size > c.get() {
            c.set(size)
        }
    });
}

#[inline]
fn on_dealloc(size: usize) {
    if !on() {
        return;
    }
    let _ = CUR.try_with(|c| c.set(c.get() - size as isize));
}

fn refuse(size: usize) {
    // no allocation allowed here
    let mut num = [0u8; 20];
    let mut n = size;
    let mut i = num.len();
    loop {
        i -= 1;
        num[i] = b'0' + (n % 10) as u8;
        n /= 10;
        if n == 0 {
            break;
        }
    }
    let len = CASE_LEN.load(Relaxed);
    let case: &[u8] = unsafe { std::slice::from_raw_parts(CASE_BUF.0.get() as *const u8, len) };
    unsafe {
        let msg1 = b"VERIF-ALLOC-REFUSED size=";
        libc_write(2, msg1.as_ptr(), msg1.len());
        libc_write(2, num[i..].as_ptr(), num.len() - i);
        let msg2 = b" case=";
        libc_write(2, msg2.as_ptr(), msg2.len());
        libc_write(2, case.as_ptr(), case.len());
        libc_write(2, b"\n".as_ptr(), 1);
    }
}

extern "C" {
    #[link_name = "write"]
    fn libc_write(fd: i32, buf: *const u8, n: usize) -> isize;
}

unsafe impl GlobalAlloc for CountingAlloc {
    unsafe fn alloc(&self, l: Layout) -> *mut u8 {
        if l.size() > CAP.load(Relaxed) {
            refuse(l.size());
            return std::ptr::null_mut();
        }
        let p = System.alloc(l);
        if !p.is_null() {
            on_alloc(l.size())
        }
        p
    }
    unsafe fn alloc_zeroed(&self, l: Layout) -> *mut u8 {
        if l.size() > CAP.load(Relaxed) {
            refuse(l.size());
            return std::ptr::null_mut();
        }
        let p = System.alloc_zeroed(l);
        if !p.is_null() {
            on_alloc(l.size())
        }
        p
    }
    unsafe fn dealloc(&self, p: *mut u8, l: Layout) {
        on_dealloc(l.size());
        System.dealloc(p, l)
    }
    unsafe fn realloc(&self, p: *mut u8, l: Layout, new: usize) -> *mut u8 {
        if new > CAP.load(Relaxed) {
            refuse(new);
            return std::ptr::null_mut();
        }
        let q = System.realloc(p, l, new);
        if !q.is_null() {
            on_dealloc(l.size());
            on_alloc(new)
        }
        q
    }
}

#[derive(Clone, Copy, Debug, Default)]
pub struct AllocReading {
    /// Peak of live bytes above the level at the start of the scope.
    pub peak: usize,
    pub count: u64,
    pub max_request: usize,
    /// Live bytes at the end minus live bytes at the start.
    pub retained: isize,
}

pub struct AllocScope {
    _private: (),
}

impl AllocScope {
    #[inline]
    pub fn begin() -> AllocScope {
        CUR.with(|c| c.set(0));
        PEAK.with(|c| c.set(0));
        COUNT.with(|c| c.set(0));
        MAXREQ.with(|c| c.set(0));
        ON.with(|c| c.set(true));
        AllocScope { _private: () }
    }
    #[inline]
    pub fn end(self) -> AllocReading {
        ON.with(|c| c.set(false));
        AllocReading {
            peak: PEAK.with(|c| c.get()).max(0) as usize,
            count: COUNT.with(|c| c.get()),
            max_request: MAXREQ.with(|c| c.get()),
            retained: CUR.with(|c| c.get()),
        }
    }
}

/// Whether the counting allocator is installed in this binary (set by the
/// binary; under Miri/ASan runs it is left off).
static ALLOC_ACTIVE: AtomicBool = AtomicBool::new(false);
pub fn set_alloc_active(b: bool) {
    ALLOC_ACTIVE.store(b, Relaxed)
}
pub fn alloc_active() -> bool {
    ALLOC_ACTIVE.load(Relaxed)
}

// ---------------------------------------------------------------------------
// step monitor (hook in minicbor, registered by the binary)

type ResetFn = fn(u64);
type StepsFn = fn() -> u64;
static STEP_FNS: Mutex<Option<(ResetFn, StepsFn)>> = Mutex::new(None);
static STEP_FAST: AtomicUsize = AtomicUsize::new(0);
static STEP_FAST2: AtomicUsize = AtomicUsize::new(0);
pub const STEP_LIMIT_MSG: &str = "minicbor_verif: step limit exceeded";

pub fn register_step_hook(reset: ResetFn, steps: StepsFn) {
    *STEP_FNS.lock().unwrap() = Some((reset, steps));
    STEP_FAST.store(reset as usize, Relaxed);
    STEP_FAST2.store(steps as usize, Relaxed);
}

pub fn steps_available() -> bool {
    STEP_FAST.load(Relaxed) != 0
}

/// Reset the step counter and arm a limit (0 = no limit).
#[inline]
pub fn steps_reset(limit: u64) {
    let f = STEP_FAST.load(Relaxed);
    if f != 0 {
        let f: ResetFn = unsafe { std::mem::transmute(f) };
        f(limit)
    }
}

#[inline]
pub fn steps_read() -> u64 {
    let f = STEP_FAST2.load(Relaxed);
    if f != 0 {
        let f: StepsFn = unsafe { std::mem::transmute(f) };
        f()
    } else {
        0
    }
}

// ---------------------------------------------------------------------------
// huge read-only zero region (anonymous mapping: virtual only, never touched pages cost nothing);
// lets a workload hand the library a >= 4 GiB slice without allocating it

extern "C" {
    fn mmap(addr: *mut u8, len: usize, prot: i32, flags: i32, fd: i32, off: i64) -> *mut u8;
    fn munmap(addr: *mut u8, len: usize) -> i32;
}

pub struct ZeroRegion {
    ptr: *mut u8,
    len: usize,
}

impl ZeroRegion {
    pub fn new(len: usize) -> Option<ZeroRegion> {
        // PROT_READ = 1, MAP_PRIVATE | MAP_ANONYMOUS | MAP_NORESERVE = 0x02 | 0x20 | 0x4000
        let p = unsafe { mmap(std::ptr::null_mut(), len.max(1), 1, 0x4022, -1, 0) };
        if p as isize == -1 || p.is_null() {
            None
        } else {
            Some(ZeroRegion { ptr: p, len })
        }
    }
    /// A private writable mapping starting with `prefix` (only the pages written to get memory).
    pub fn with_prefix(len: usize, prefix: &[u8]) -> Option<ZeroRegion> {
        // PROT_READ | PROT_WRITE = 3
        let p = unsafe { mmap(std::ptr::null_mut(), len.max(1), 3, 0x4022, -1, 0) };
        if p as isize == -1 || p.is_null() || prefix.len() > len {
            None
        } else {
            unsafe { std::ptr::copy_nonoverlapping(prefix.as_ptr(), p, prefix.len()) };
            Some(ZeroRegion { ptr: p, len })
        }
    }
    pub fn as_slice(&self) -> &[u8] {
        unsafe { std::slice::from_raw_parts(self.ptr, self.len) }
    }
}

impl Drop for ZeroRegion {
    fn drop(&mut self) {
        unsafe {
            munmap(self.ptr, self.len.max(1));
        }
    }
}

// ---------------------------------------------------------------------------
// stack monitor (second part of the hook: low-water mark of the stack pointer)

type StackResetFn = fn(usize);
type StackLowFn = fn() -> usize;
static STACK_FAST: AtomicUsize = AtomicUsize::new(0);
static STACK_FAST2: AtomicUsize = AtomicUsize::new(0);
pub const STACK_LIMIT_MSG: &str = "minicbor_verif: stack depth limit exceeded";

pub fn register_stack_hook(reset: StackResetFn, low: StackLowFn) {
    STACK_FAST.store(reset as usize, Relaxed);
    STACK_FAST2.store(low as usize, Relaxed);
}

pub fn stack_available() -> bool {
    STACK_FAST.load(Relaxed) != 0
}

/// Measures how deep below the caller's frame the library's input accessors ran.
/// With a budget, the hook panics (marker `STACK_LIMIT_MSG`) once the depth exceeds it,
/// which turns runaway recursion into an observable event instead of a stack overflow.
pub struct StackScope {
    base: usize,
}

impl StackScope {
    #[inline(always)]
    pub fn begin(budget: usize) -> StackScope {
        let probe = 0u8;
        let base = std::ptr::addr_of!(probe) as usize;
        let f = STACK_FAST.load(Relaxed);
        if f != 0 {
            let f: StackResetFn = unsafe { std::mem::transmute(f) };
            f(if budget == 0 { 0 } else { base.saturating_sub(budget) })
        }
        StackScope { base }
    }
    /// Depth reached in bytes (0 if the hook is absent or no step ran).
    #[inline]
    pub fn end(self) -> usize {
        let f2 = STACK_FAST2.load(Relaxed);
        let low = if f2 != 0 {
            let g: StackLowFn = unsafe { std::mem::transmute(f2) };
            g()
        } else {
            usize::MAX
        };
        let f = STACK_FAST.load(Relaxed);
        if f != 0 {
            let f: StackResetFn = unsafe { std::mem::transmute(f) };
            f(0)
        }
        if low == usize::MAX {
            0
        } else {
            self.base.saturating_sub(low)
        }
    }
}

// ---------------------------------------------------------------------------
// panic monitor

#[derive(Clone, Debug)]
pub struct PanicReport {
    pub message: String,
    pub location: String,
}

impl PanicReport {
    pub fn is_step_limit(&self) -> bool {
        self.message.starts_with(STEP_LIMIT_MSG)
    }
    pub fn is_stack_limit(&self) -> bool {
        self.message.starts_with(STACK_LIMIT_MSG)
    }
}

static LAST_PANIC: Mutex<Option<PanicReport>> = Mutex::new(None);
static QUIET: AtomicBool = AtomicBool::new(false);

pub fn install_panic_hook() {
    let prev = std::panic::take_hook();
    std::panic::set_hook(Box::new(move |info| {
        let message = if let Some(s) = info.payload().downcast_ref::<&str>() {
            s.to_string()
        } else if let Some(s) = info.payload().downcast_ref::<String>() {
            s.clone()
        } else {
            "<non-string panic payload>".to_string()
        };
        let location = info.location().map(|l| format!("{}:{}:{}", l.file(), l.line(), l.column())).unwrap_or_default();
        if let Ok(mut g) = LAST_PANIC.lock() {
            *g = Some(PanicReport { message, location });
        }
        if !QUIET.load(Relaxed) {
            prev(info)
        }
    }));
}

/// Run `f`, turning a panic into a report.  Output of the default hook is
/// suppressed while inside.
pub fn guarded<R>(f: impl FnOnce() -> R) -> Result<R, PanicReport> {
    QUIET.store(true, Relaxed);
    let r = catch_unwind(AssertUnwindSafe(f));
    QUIET.store(false, Relaxed);
    match r {
        Ok(v) => Ok(v),
        Err(_) => {
            let rep = LAST_PANIC.lock().ok().and_then(|mut g| g.take());
            Err(rep.unwrap_or(PanicReport { message: "<unknown panic>".into(), location: String::new() }))
        }
    }
}

// ---------------------------------------------------------------------------
// bounded formatter sink

pub struct LimitedSink {
    pub buf: String,
    pub limit: usize,
    pub overflowed: bool,
    pub written: usize,
    pub keep: bool,
}

impl LimitedSink {
    pub fn new(limit: usize, keep: bool) -> Self {
        LimitedSink { buf: String::new(), limit, overflowed: false, written: 0, keep }
    }
}

impl std::fmt::Write for LimitedSink {
    fn write_str(&mut self, s: &str) -> std::fmt::Result {
        self.written += s.len();
        if self.written > self.limit {
            self.overflowed = true;
            return Err(std::fmt::Error);
        }
        if self.keep {
            self.buf.push_str(s)
        }
        Ok(())
    }
}

// ---------------------------------------------------------------------------
// canary buffer

pub const CANARY: u8 = 0xA5;

pub struct Canary {
    buf: Vec<u8>,
    pad: usize,
    cap: usize,
}

impl Canary {
    pub fn new(cap: usize, pad: usize) -> Self {
        Canary { buf: vec![CANARY; cap + 2 * pad], pad, cap }
    }
    pub fn sink(&mut self) -> &mut [u8] {
        let (p, c) = (self.pad, self.cap);
        &mut self.buf[p..p + c]
    }
    pub fn content(&self) -> &[u8] {
        &self.buf[self.pad..self.pad + self.cap]
    }
    pub fn intact(&self) -> bool {
        self.buf[..self.pad].iter().all(|b| *b == CANARY) && self.buf[self.pad + self.cap..].iter().all(|b| *b == CANARY)
    }
}

// ---------------------------------------------------------------------------
// provenance

pub fn within(input: &[u8], p: *const u8, len: usize) -> bool {
    let s = input.as_ptr() as usize;
    let e = s + input.len();
    let a = p as usize;
    if len == 0 {
        // an empty slice may legitimately point anywhere inside [s, e] or be dangling
        return true;
    }
    a >= s && a + len <= e
}

/// Offset of a borrowed sub-slice within the input, if it lies inside.
pub fn offset_in(input: &[u8], p: *const u8, len: usize) -> Option<usize> {
    let s = input.as_ptr() as usize;
    let a = p as usize;
    if a >= s && a + len <= s + input.len() {
        Some(a - s)
    } else {
        None
    }
}

// ---------------------------------------------------------------------------
// watchdog

/// Start a watchdog thread: if no `set_case`/`tick` happens for `secs`
/// seconds the process prints a marker naming the current case and exits with
/// status 97.  The orchestrator re-runs that case alone to decide between a
/// hang (violation) and a slow machine (inconclusive).
pub fn start_watchdog(secs: u64) {
    std::thread::Builder::new()
        .name("watchdog".into())
        .spawn(move || {
            let mut last = HEARTBEAT.load(Relaxed);
            let mut idle = 0u64;
            loop {
                std::thread::sleep(std::time::Duration::from_secs(1));
                let now = HEARTBEAT.load(Relaxed);
                if now == last {
                    idle += 1;
                    if idle >= secs {
                        let c = current_case_copy();
                        write_stderr_raw(&[b"VERIF-WATCHDOG case=", &c]);
                        std::process::exit(97);
                    }
                } else {
                    idle = 0;
                    last = now;
                }
            }
        })
        .expect("spawn watchdog");
}
