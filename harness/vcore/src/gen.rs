//! Workload generators: boundary-dense scalar values, CBOR item trees (random
//! and exhaustive-small), byte-level mutators for hostile input.

use crate::refcbor::{min_width, widths_from, Item};
use crate::rng::Rng;
use std::sync::OnceLock;

// ---------------------------------------------------------------------------
// integers

fn boundary_table() -> &'static Vec<u64> {
    static T: OnceLock<Vec<u64>> = OnceLock::new();
    T.get_or_init(|| {
        let mut v = vec![0u64, 1, 2, 22, 23, 24, 25, 26, 27, 28, 31, 32, 100, 127, 128, 254, 255, 256, 257, 999, 1000, 65534, 65535, 65536, 65537, 1_000_000, 999_999_999, 1_000_000_000, 1_000_000_001];
        for k in 0..=64u32 {
            let p: u128 = 1u128 << k;
            for d in -3i128..=3 {
                let x = p as i128 + d;
                if x >= 0 && x <= u64::MAX as i128 {
                    v.push(x as u64)
                }
            }
        }
        v.sort_unstable();
        v.dedup();
        v
    })
}

pub fn boundaries_u64() -> &'static [u64] {
    boundary_table()
}

/// Boundary-dense u64.
pub fn gen_u64(rng: &mut Rng) -> u64 {
    match rng.below(10) {
        0..=3 => *rng.pick(boundary_table()),
        4..=6 => {
            let k = rng.below(65) as u32;
            if k == 0 {
                0
            } else if k == 64 {
                rng.next_u64()
            } else {
                rng.next_u64() & ((1u64 << k) - 1)
            }
        }
        7..=8 => rng.below(300),
        _ => rng.next_u64(),
    }
}

/// Boundary-dense integer of `bits` width; returned as i128.
pub fn gen_int(rng: &mut Rng, bits: u32, signed: bool) -> i128 {
    let mbits = if signed { bits - 1 } else { bits };
    let mask: u64 = if mbits >= 64 { u64::MAX } else { (1u64 << mbits) - 1 };
    let arg = gen_u64(rng) & mask;
    let arg = if rng.chance(1, 8) { mask - (arg & 3) } else { arg }; // densify the top edge
    if signed && rng.bool() {
        -1 - arg as i128
    } else {
        arg as i128
    }
}

/// Any CBOR integer value in [-2^64, 2^64-1].
pub fn gen_cbor_int(rng: &mut Rng) -> i128 {
    let a = gen_u64(rng);
    if rng.bool() {
        a as i128
    } else {
        -1 - a as i128
    }
}

// ---------------------------------------------------------------------------
// floats

pub fn gen_f32_bits(rng: &mut Rng) -> u32 {
    const SPECIAL: &[u32] = &[
        0x0000_0000, 0x8000_0000, 0x0000_0001, 0x8000_0001, 0x007f_ffff, 0x0080_0000, 0x3f80_0000, 0xbf80_0000, 0x7f7f_ffff, 0xff7f_ffff, 0x7f80_0000, 0xff80_0000,
        0x7fc0_0000, 0xffc0_0000, 0x7f80_0001, 0x7fa0_0000, 0xffff_ffff, 0x477f_e000, 0x477f_f000, 0x3380_0000, 0x3300_0000, 0x3880_0000, 0x387f_c000,
    ];
    match rng.below(4) {
        0 => *rng.pick(SPECIAL),
        1 => rng.next_u32(),
        2 => {
            // random exponent, few mantissa bits
            let e = rng.below(256) as u32;
            let m = (rng.next_u32() & 0x7f_ffff) & !((1u32 << rng.below(24)) - 1);
            ((rng.below(2) as u32) << 31) | (e << 23) | m
        }
        _ => {
            // a half-representable value widened
            crate::refnum::f16_bits_to_f32_bits(rng.next_u32() as u16)
        }
    }
}

pub fn gen_f64_bits(rng: &mut Rng) -> u64 {
    const SPECIAL: &[u64] = &[
        0, 0x8000_0000_0000_0000, 1, 0x000f_ffff_ffff_ffff, 0x0010_0000_0000_0000, 0x3ff0_0000_0000_0000, 0x7fef_ffff_ffff_ffff, 0x7ff0_0000_0000_0000, 0xfff0_0000_0000_0000,
        0x7ff8_0000_0000_0000, 0x7ff0_0000_0000_0001, 0xffff_ffff_ffff_ffff, 0x36a0_0000_0000_0000, 0x47ef_ffff_e000_0000,
    ];
    match rng.below(4) {
        0 => *rng.pick(SPECIAL),
        1 => rng.next_u64(),
        2 => {
            let e = rng.below(2048);
            let m = (rng.next_u64() & 0x000f_ffff_ffff_ffff) & !((1u64 << rng.below(53)) - 1);
            (rng.below(2) << 63) | (e << 52) | m
        }
        _ => crate::refnum::f32_bits_to_f64_bits(gen_f32_bits(rng)),
    }
}

// ---------------------------------------------------------------------------
// strings and bytes

pub fn gen_len(rng: &mut Rng, big: bool) -> usize {
    match rng.below(20) {
        0..=2 => 0,
        3..=4 => 1,
        5 => 22,
        6 => 23,
        7 => 24,
        8 => 25,
        9 => 255,
        10 => 256,
        11 => 257,
        12 if big => *rng.pick(&[65535usize, 65536, 65537]),
        _ => rng.below(40) as usize,
    }
}

const CHARS: &[char] = &['a', 'z', '0', ' ', '"', '\\', '\n', '\u{0}', '\u{7f}', '\u{80}', 'ä', 'ß', '\u{7ff}', '\u{800}', '€', '\u{d7ff}', '\u{e000}', '\u{ffff}', '\u{10000}', '😀', '\u{10ffff}'];

/// A valid UTF-8 string of exactly `n` bytes if possible (padded with ASCII).
pub fn gen_string_len(rng: &mut Rng, n: usize) -> String {
    let mut s = String::with_capacity(n);
    while s.len() < n {
        let c = if rng.chance(3, 4) { (b'a' + rng.below(26) as u8) as char } else { *rng.pick(CHARS) };
        if s.len() + c.len_utf8() <= n {
            s.push(c)
        } else {
            s.push('x')
        }
    }
    s
}

pub fn gen_string(rng: &mut Rng, big: bool) -> String {
    let n = gen_len(rng, big);
    gen_string_len(rng, n)
}

pub fn gen_bytes(rng: &mut Rng, big: bool) -> Vec<u8> {
    let n = gen_len(rng, big);
    match rng.below(3) {
        0 => vec![rng.next_u32() as u8; n],
        _ => rng.bytes(n),
    }
}

pub fn gen_char(rng: &mut Rng) -> char {
    match rng.below(3) {
        0 => *rng.pick(CHARS),
        1 => (rng.below(128) as u8) as char,
        _ => loop {
            if let Some(c) = char::from_u32(rng.below(0x11_0000) as u32) {
                break c;
            }
        },
    }
}

// ---------------------------------------------------------------------------
// item trees

#[derive(Clone, Debug)]
pub struct TreeCfg {
    pub max_depth: usize,
    pub max_children: usize,
    /// Probability (percent) that a string/array/map is indefinite-length.
    pub indef_pct: u64,
    /// Probability (percent) that a head is wider than necessary.
    pub nonpreferred_pct: u64,
    pub tags: bool,
    pub floats: bool,
    pub simple: bool,
    /// Generate only valid UTF-8 text.
    pub valid_text: bool,
    pub big_strings: bool,
}

impl TreeCfg {
    pub fn preferred(depth: usize) -> TreeCfg {
        TreeCfg { max_depth: depth, max_children: 5, indef_pct: 25, nonpreferred_pct: 0, tags: true, floats: true, simple: true, valid_text: true, big_strings: false }
    }
    pub fn any(depth: usize) -> TreeCfg {
        TreeCfg { nonpreferred_pct: 30, ..TreeCfg::preferred(depth) }
    }
    pub fn definite(depth: usize) -> TreeCfg {
        TreeCfg { indef_pct: 0, ..TreeCfg::preferred(depth) }
    }
}

fn pick_width(rng: &mut Rng, cfg: &TreeCfg, v: u64) -> u8 {
    let m = min_width(v);
    if cfg.nonpreferred_pct > 0 && rng.chance(cfg.nonpreferred_pct, 100) {
        *rng.pick(widths_from(m))
    } else {
        m
    }
}

fn gen_text_bytes(rng: &mut Rng, cfg: &TreeCfg) -> Vec<u8> {
    if cfg.valid_text || rng.chance(9, 10) {
        gen_string(rng, cfg.big_strings).into_bytes()
    } else {
        let mut v = gen_bytes(rng, false);
        v.push(0xff);
        v
    }
}

pub fn gen_leaf(rng: &mut Rng, cfg: &TreeCfg) -> Item {
    loop {
        match rng.below(12) {
            0 | 1 => {
                let v = gen_u64(rng);
                return Item::UInt { w: pick_width(rng, cfg, v), v };
            }
            2 | 3 => {
                let v = gen_u64(rng);
                return Item::NInt { w: pick_width(rng, cfg, v), v };
            }
            4 => {
                let v = gen_bytes(rng, cfg.big_strings);
                return Item::Bytes { w: pick_width(rng, cfg, v.len() as u64), v };
            }
            5 => {
                let v = gen_text_bytes(rng, cfg);
                return Item::Text { w: pick_width(rng, cfg, v.len() as u64), v };
            }
            6 if cfg.simple => {
                return match rng.below(4) {
                    0 => Item::Simple { w: 0, v: rng.below(24) as u8 },
                    1 => Item::Simple { w: 1, v: 32 + rng.below(224) as u8 },
                    2 => Item::bool(rng.bool()),
                    _ => Item::null(),
                }
            }
            7 if cfg.floats => {
                return match rng.below(3) {
                    0 => Item::F16(rng.next_u32() as u16),
                    1 => Item::F32(gen_f32_bits(rng)),
                    _ => Item::F64(gen_f64_bits(rng)),
                }
            }
            8 if cfg.indef_pct > 0 && rng.chance(cfg.indef_pct, 100) => {
                let n = rng.below(4) as usize;
                let text = rng.bool();
                let chunks = (0..n)
                    .map(|_| {
                        let d = if text { gen_text_bytes(rng, cfg) } else { gen_bytes(rng, false) };
                        (pick_width(rng, cfg, d.len() as u64), d)
                    })
                    .collect();
                return if text { Item::TextIndef(chunks) } else { Item::BytesIndef(chunks) };
            }
            9 => return Item::Array { w: Some(pick_width(rng, cfg, 0)), items: vec![] },
            10 => return Item::Map { w: Some(pick_width(rng, cfg, 0)), items: vec![] },
            _ => continue,
        }
    }
}

pub fn gen_item(rng: &mut Rng, cfg: &TreeCfg, depth: usize) -> Item {
    if depth >= cfg.max_depth || rng.chance(2, 5) {
        return gen_leaf(rng, cfg);
    }
    let indef = cfg.indef_pct > 0 && rng.chance(cfg.indef_pct, 100);
    match rng.below(if cfg.tags { 5 } else { 4 }) {
        0 | 1 => {
            let n = rng.below(cfg.max_children as u64 + 1) as usize;
            let items: Vec<Item> = (0..n).map(|_| gen_item(rng, cfg, depth + 1)).collect();
            Item::Array { w: if indef { None } else { Some(pick_width(rng, cfg, n as u64)) }, items }
        }
        2 | 3 => {
            let n = rng.below(cfg.max_children as u64 + 1) as usize;
            let items: Vec<(Item, Item)> = (0..n).map(|_| (gen_item(rng, cfg, depth + 1), gen_item(rng, cfg, depth + 1))).collect();
            Item::Map { w: if indef { None } else { Some(pick_width(rng, cfg, n as u64)) }, items }
        }
        _ => {
            let v = if rng.bool() { rng.below(300) } else { gen_u64(rng) };
            Item::Tag { w: pick_width(rng, cfg, v), v, inner: Box::new(gen_item(rng, cfg, depth + 1)) }
        }
    }
}

// ---------------------------------------------------------------------------
// exhaustive small trees

/// Leaf alphabet; `rich` adds width variants and more kinds.
pub fn leaf_alphabet(rich: bool) -> Vec<Item> {
    let mut v = vec![
        Item::UInt { w: 0, v: 0 },
        Item::UInt { w: 1, v: 24 },
        Item::NInt { w: 0, v: 5 },
        Item::Bytes { w: 0, v: vec![0x18] },
        Item::Text { w: 0, v: b"a".to_vec() },
        Item::Simple { w: 0, v: 22 },
        Item::Array { w: Some(0), items: vec![] },
        Item::Array { w: None, items: vec![] },
        Item::Map { w: Some(0), items: vec![] },
        Item::Map { w: None, items: vec![] },
        Item::BytesIndef(vec![]),
        Item::TextIndef(vec![]),
    ];
    if rich {
        v.extend(vec![
            Item::UInt { w: 0, v: 23 },
            Item::UInt { w: 1, v: 1 },
            Item::UInt { w: 2, v: 256 },
            Item::UInt { w: 4, v: 65536 },
            Item::UInt { w: 8, v: 1 << 32 },
            Item::UInt { w: 8, v: u64::MAX },
            Item::NInt { w: 1, v: 127 },
            Item::NInt { w: 1, v: 128 },
            Item::NInt { w: 2, v: 0x8000 },
            Item::NInt { w: 8, v: u64::MAX },
            Item::Bytes { w: 0, v: vec![] },
            Item::Bytes { w: 1, v: vec![1, 2] },
            Item::Text { w: 0, v: vec![] },
            Item::Text { w: 1, v: "ä€".as_bytes().to_vec() },
            Item::Simple { w: 0, v: 20 },
            Item::Simple { w: 0, v: 21 },
            Item::Simple { w: 0, v: 23 },
            Item::Simple { w: 0, v: 0 },
            Item::Simple { w: 1, v: 32 },
            Item::Simple { w: 1, v: 255 },
            Item::F16(0x3c00),
            Item::F32(0x3fc0_0000),
            Item::F64(0x3ff8_0000_0000_0001),
            Item::Array { w: Some(1), items: vec![] },
            Item::Map { w: Some(8), items: vec![] },
        ]);
    }
    v
}

fn compositions(n: usize, parts: usize, cur: &mut Vec<usize>, out: &mut Vec<Vec<usize>>) {
    if parts == 0 {
        if n == 0 {
            out.push(cur.clone())
        }
        return;
    }
    if n < parts {
        return;
    }
    for first in 1..=(n - (parts - 1)) {
        cur.push(first);
        compositions(n - first, parts - 1, cur, out);
        cur.pop();
    }
}

fn product(sizes: &[usize], by_size: &[Vec<Item>], f: &mut dyn FnMut(&[Item])) {
    fn rec(i: usize, sizes: &[usize], by_size: &[Vec<Item>], cur: &mut Vec<Item>, f: &mut dyn FnMut(&[Item])) {
        if i == sizes.len() {
            f(cur);
            return;
        }
        for it in &by_size[sizes[i]] {
            cur.push(it.clone());
            rec(i + 1, sizes, by_size, cur, f);
            cur.pop();
        }
    }
    rec(0, sizes, by_size, &mut Vec::new(), f)
}

/// All items with at most `max_nodes` nodes over the given leaf alphabet:
/// `result[n]` holds the items with exactly `n` nodes (index 0 is empty).
/// Containers: tag (two widths), array and map (definite at two widths,
/// indefinite), indefinite strings with 1..=2 chunks.
pub fn enumerate_items(max_nodes: usize, leaves: &[Item], container_widths: &[u8]) -> Vec<Vec<Item>> {
    let mut by_size: Vec<Vec<Item>> = vec![Vec::new(); max_nodes + 1];
    if max_nodes == 0 {
        return by_size;
    }
    by_size[1] = leaves.to_vec();
    for n in 2..=max_nodes {
        let mut cur: Vec<Item> = Vec::new();
        // tags
        for inner in by_size[n - 1].clone() {
            cur.push(Item::Tag { w: 0, v: 2, inner: Box::new(inner.clone()) });
            cur.push(Item::Tag { w: 1, v: 24, inner: Box::new(inner) });
        }
        // indefinite strings with n-1 chunks (n-1 <= 2)
        if n - 1 <= 2 {
            let chunks_b: Vec<(u8, Vec<u8>)> = vec![(0, vec![]), (0, vec![0x61]), (1, vec![0x62, 0x63])];
            let mut idx = vec![0usize; n - 1];
            loop {
                let c: Vec<(u8, Vec<u8>)> = idx.iter().map(|i| chunks_b[*i].clone()).collect();
                cur.push(Item::BytesIndef(c.clone()));
                cur.push(Item::TextIndef(c));
                let mut k = 0;
                loop {
                    if k == idx.len() {
                        break;
                    }
                    idx[k] += 1;
                    if idx[k] < chunks_b.len() {
                        break;
                    }
                    idx[k] = 0;
                    k += 1;
                }
                if k == idx.len() {
                    break;
                }
            }
        }
        // arrays with k children, maps with k/2 pairs
        for k in 1..=(n - 1) {
            let mut comps = Vec::new();
            compositions(n - 1, k, &mut Vec::new(), &mut comps);
            for comp in comps {
                let by = &by_size;
                product(&comp, by, &mut |items: &[Item]| {
                    for w in container_widths {
                        cur.push(Item::Array { w: Some(*w), items: items.to_vec() });
                    }
                    cur.push(Item::Array { w: None, items: items.to_vec() });
                    if items.len() % 2 == 0 {
                        let pairs: Vec<(Item, Item)> = items.chunks(2).map(|c| (c[0].clone(), c[1].clone())).collect();
                        for w in container_widths {
                            cur.push(Item::Map { w: Some(*w), items: pairs.clone() });
                        }
                        cur.push(Item::Map { w: None, items: pairs });
                    }
                });
            }
        }
        by_size[n] = cur;
    }
    by_size
}

/// Random item, biased towards the things the configurations treat differently:
/// half floats, indefinite strings, indefinite containers inside definite ones.
pub fn gen_hot_item(rng: &mut Rng, depth: usize) -> Item {
    let leaf = |rng: &mut Rng| match rng.below(9) {
        0 => Item::F16(rng.next_u32() as u16),
        1 => Item::F16(*rng.pick(&[0x0000u16, 0x3c00, 0x7c00, 0xfc00, 0x7e00, 0x0001, 0x7bff, 0x8000])),
        2 => Item::F32(gen_f32_bits(rng)),
        3 => Item::TextIndef((0..rng.below(3)).map(|_| { let n = rng.below(4) as usize; let s = gen_string_len(rng, n); (min_width(s.len() as u64), s.into_bytes()) }).collect()),
        4 => Item::BytesIndef((0..rng.below(3)).map(|_| { let n = rng.below(4) as usize; (min_width(n as u64), rng.bytes(n)) }).collect()),
        5 => Item::uint(gen_u64(rng)),
        6 => Item::text(&gen_string(rng, false)),
        7 => Item::null(),
        _ => Item::int(gen_cbor_int(rng)),
    };
    if depth == 0 || rng.chance(2, 5) {
        return leaf(rng);
    }
    let n = rng.below(4) as usize;
    match rng.below(5) {
        0 => Item::array((0..n).map(|_| gen_hot_item(rng, depth - 1)).collect()),
        1 => Item::array_indef((0..n).map(|_| gen_hot_item(rng, depth - 1)).collect()),
        2 => Item::map((0..n).map(|_| (Item::uint(rng.below(12)), gen_hot_item(rng, depth - 1))).collect()),
        3 => Item::map_indef((0..n).map(|_| (gen_hot_item(rng, 0), gen_hot_item(rng, depth - 1))).collect()),
        _ => Item::tag(rng.below(30), gen_hot_item(rng, depth - 1)),
    }
}


// ---------------------------------------------------------------------------
// re-framing (same data-model value, different serialisation)

/// Widen every head to a random admissible width.
pub fn widen(rng: &mut Rng, i: &Item) -> Item {
    let pw = |rng: &mut Rng, v: u64| *rng.pick(widths_from(min_width(v)));
    match i {
        Item::UInt { v, .. } => Item::UInt { w: pw(rng, *v), v: *v },
        Item::NInt { v, .. } => Item::NInt { w: pw(rng, *v), v: *v },
        Item::Bytes { v, .. } => Item::Bytes { w: pw(rng, v.len() as u64), v: v.clone() },
        Item::Text { v, .. } => Item::Text { w: pw(rng, v.len() as u64), v: v.clone() },
        Item::BytesIndef(c) => Item::BytesIndef(c.iter().map(|(_, d)| (pw(rng, d.len() as u64), d.clone())).collect()),
        Item::TextIndef(c) => Item::TextIndef(c.iter().map(|(_, d)| (pw(rng, d.len() as u64), d.clone())).collect()),
        Item::Array { w, items } => Item::Array { w: w.map(|_| pw(rng, items.len() as u64)), items: items.iter().map(|x| widen(rng, x)).collect() },
        Item::Map { w, items } => Item::Map { w: w.map(|_| pw(rng, items.len() as u64)), items: items.iter().map(|(k, v)| (widen(rng, k), widen(rng, v))).collect() },
        Item::Tag { v, inner, .. } => Item::Tag { w: pw(rng, *v), v: *v, inner: Box::new(widen(rng, inner)) },
        x => x.clone(),
    }
}

/// Turn arrays and maps into indefinite-length ones with probability pct.
pub fn indefinite_containers(rng: &mut Rng, i: &Item, pct: u64) -> Item {
    match i {
        Item::Array { w, items } => Item::Array {
            w: if rng.chance(pct, 100) { None } else { *w },
            items: items.iter().map(|x| indefinite_containers(rng, x, pct)).collect(),
        },
        Item::Map { w, items } => Item::Map {
            w: if rng.chance(pct, 100) { None } else { *w },
            items: items.iter().map(|(k, v)| (indefinite_containers(rng, k, pct), indefinite_containers(rng, v, pct))).collect(),
        },
        Item::Tag { w, v, inner } => Item::Tag { w: *w, v: *v, inner: Box::new(indefinite_containers(rng, inner, pct)) },
        x => x.clone(),
    }
}

// ---------------------------------------------------------------------------
// byte-level mutators

/// Offsets of all heads in a *valid* encoding (linear scan).
pub fn head_offsets(b: &[u8]) -> Vec<usize> {
    let mut v = Vec::new();
    let mut p = 0usize;
    while p < b.len() {
        v.push(p);
        let ib = b[p];
        let major = ib >> 5;
        let ai = ib & 0x1f;
        let w = match ai {
            24 => 1,
            25 => 2,
            26 => 4,
            27 => 8,
            _ => 0,
        };
        if p + 1 + w > b.len() {
            break;
        }
        let mut arg: u64 = u64::from(ai);
        if w > 0 {
            arg = 0;
            for x in &b[p + 1..p + 1 + w] {
                arg = (arg << 8) | u64::from(*x)
            }
        }
        p += 1 + w;
        if (major == 2 || major == 3) && ai < 28 {
            p = p.saturating_add(arg.min(usize::MAX as u64 / 2) as usize);
        }
    }
    v
}

const HOT_BYTES: &[u8] = &[0x00, 0x17, 0x18, 0x19, 0x1a, 0x1b, 0x1c, 0x1f, 0x20, 0x37, 0x38, 0x3b, 0x40, 0x5b, 0x5f, 0x60, 0x7b, 0x7f, 0x80, 0x82, 0x9b, 0x9f, 0xa0, 0xa1, 0xbb, 0xbf, 0xc0, 0xdb, 0xdf, 0xe0, 0xf4, 0xf6, 0xf7, 0xf8, 0xf9, 0xfa, 0xfb, 0xfc, 0xff];

pub fn extreme_args(len_hint: u64) -> Vec<u64> {
    let mut v = vec![
        u64::MAX, u64::MAX - 1, i64::MAX as u64, (i64::MAX as u64) + 1, 1 << 32, (1 << 32) - 1, (1 << 32) + 1, 1 << 31, (1 << 31) - 1, 1 << 16, 65535, 256, 255, 24, 23, 0, 1,
        1_000_000, 100_000, usize::MAX as u64 / 2, (usize::MAX as u64 / 2) + 1,
    ];
    v.push(len_hint);
    v.push(len_hint.wrapping_add(1));
    v.push(len_hint.wrapping_sub(1));
    v
}

/// Apply one random mutation.
pub fn mutate_once(rng: &mut Rng, b: &mut Vec<u8>, other: &[u8]) -> &'static str {
    if b.is_empty() {
        b.push(*rng.pick(HOT_BYTES));
        return "fill";
    }
    match rng.below(11) {
        0 => {
            let n = rng.usize_below(b.len());
            b.truncate(n);
            "truncate"
        }
        1 => {
            let i = rng.usize_below(b.len());
            b[i] ^= 1 << rng.below(8);
            "bitflip"
        }
        2 => {
            let i = rng.usize_below(b.len());
            b[i] = if rng.bool() { *rng.pick(HOT_BYTES) } else { rng.next_u32() as u8 };
            "setbyte"
        }
        3 | 4 => {
            // overwrite a head's argument with an extreme value
            let heads = head_offsets(b);
            let p = *rng.pick(&heads);
            let ib = b[p];
            let ai = ib & 0x1f;
            let w = match ai {
                24 => 1usize,
                25 => 2,
                26 => 4,
                27 => 8,
                _ => 0,
            };
            if p + 1 + w > b.len() {
                return "noop";
            }
            let arg = *rng.pick(&extreme_args(b.len() as u64));
            let nw = *rng.pick(widths_from(min_width(arg)));
            let mut h = Vec::new();
            crate::refcbor::head(ib >> 5, nw, arg, &mut h);
            b.splice(p..p + 1 + w, h);
            "extreme-arg"
        }
        5 => {
            // widen a head, same argument
            let heads = head_offsets(b);
            let p = *rng.pick(&heads);
            let ib = b[p];
            let ai = ib & 0x1f;
            let w = match ai {
                24 => 1usize,
                25 => 2,
                26 => 4,
                27 => 8,
                28..=31 => return "noop",
                _ => 0,
            };
            if p + 1 + w > b.len() || ib >> 5 == 7 {
                return "noop";
            }
            let mut arg = u64::from(ai);
            if w > 0 {
                arg = 0;
                for x in &b[p + 1..p + 1 + w] {
                    arg = (arg << 8) | u64::from(*x)
                }
            }
            let nw = *rng.pick(&[1u8, 2, 4, 8]);
            if (nw as usize) < w || (nw == 1 && arg > 0xff) || (nw == 2 && arg > 0xffff) || (nw == 4 && arg > 0xffff_ffff) {
                return "noop";
            }
            let mut h = Vec::new();
            crate::refcbor::head(ib >> 5, nw, arg, &mut h);
            b.splice(p..p + 1 + w, h);
            "widen-head"
        }
        6 => {
            // change the major type of a head
            let heads = head_offsets(b);
            let p = *rng.pick(&heads);
            b[p] = (b[p] & 0x1f) | ((rng.below(8) as u8) << 5);
            "swap-major"
        }
        7 => {
            let i = rng.usize_below(b.len() + 1);
            b.insert(i, if rng.bool() { 0xff } else { *rng.pick(HOT_BYTES) });
            "insert"
        }
        8 => {
            let i = rng.usize_below(b.len());
            b.remove(i);
            "delete"
        }
        9 => {
            // make a head indefinite
            let heads = head_offsets(b);
            let p = *rng.pick(&heads);
            b[p] |= 0x1f;
            "make-indef"
        }
        _ => {
            if other.is_empty() {
                return "noop";
            }
            let i = rng.usize_below(b.len() + 1);
            let j = rng.usize_below(other.len());
            b.truncate(i);
            b.extend_from_slice(&other[j..]);
            "splice"
        }
    }
}

pub fn mutate(rng: &mut Rng, valid: &[u8], other: &[u8]) -> (Vec<u8>, Vec<&'static str>) {
    let mut b = valid.to_vec();
    let n = 1 + rng.below(3);
    let mut ops = Vec::new();
    for _ in 0..n {
        ops.push(mutate_once(rng, &mut b, other));
        if b.len() > 1 << 20 {
            b.truncate(1 << 20)
        }
    }
    (b, ops)
}

/// The structured head sweep: every initial byte x argument widths x boundary
/// arguments x fillers.  Calls `f` for each input (input is reused).
pub fn head_sweep(f: &mut dyn FnMut(&[u8])) -> u64 {
    let fillers: &[&[u8]] = &[&[], &[0x00], &[0xff], &[0x01, 0x02, 0x03, 0x04], &[0x61, 0x62, 0x63, 0x64, 0x65, 0x66, 0x67, 0x68, 0x69], &[0xf6, 0xf6, 0xf6], &[0x9f, 0x9f, 0x9f, 0xff]];
    // integers on the width / range boundaries, then the bit patterns of floats on the same boundaries
    // (as half, single and double: 2^31, 2^32, 2^63, 2^64, 1e9, -1, infinities, NaNs, subnormals)
    let args: &[u64] = &[
        0, 1, 2, 3, 4, 23, 24, 255, 256, 65535, 65536, 999_999_999, 1_000_000_000, (1 << 31) - 1, 1 << 31, (1 << 32) - 1, 1 << 32, (1u64 << 63) - 1, 1 << 63, u64::MAX - 1, u64::MAX,
        0x3c00, 0x7bff, 0x7c00, 0xfc00, 0x7e00, 0x8001,
        0x4f00_0000, 0x4f80_0000, 0x5f00_0000, 0x5f80_0000, 0x4e6e_6b28, 0xbf80_0000, 0x7f80_0000, 0xff80_0000, 0x7fc0_0000, 0x7f80_0001, 0x0000_0001, 0x7f7f_ffff,
        0x41e0_0000_0000_0000, 0x41f0_0000_0000_0000, 0x43e0_0000_0000_0000, 0x43f0_0000_0000_0000, 0x41cd_cd65_0000_0000, 0xbff0_0000_0000_0000, 0x7ff0_0000_0000_0000, 0xfff0_0000_0000_0000, 0x7ff8_0000_0000_0000, 0x7ff0_0000_0000_0001, 0x0000_0000_0000_0001, 0x7fef_ffff_ffff_ffff,
        0x43ef_ffff_ffff_ffff, 0x43f0_0000_0000_0001, 0x3ff0_0000_0000_0000,
    ];
    let mut n = 0u64;
    let mut buf: Vec<u8> = Vec::with_capacity(32);
    for ib in 0..=255u8 {
        let ai = ib & 0x1f;
        let w: usize = match ai {
            24 => 1,
            25 => 2,
            26 => 4,
            27 => 8,
            _ => 0,
        };
        let arglist: Vec<u64> = if w == 0 { vec![0] } else { args.iter().copied().filter(|a| w == 8 || *a < (1u64 << (8 * w))).collect() };
        for a in &arglist {
            for fill in fillers {
                buf.clear();
                buf.push(ib);
                buf.extend_from_slice(&a.to_be_bytes()[8 - w..]);
                buf.extend_from_slice(fill);
                f(&buf);
                n += 1;
            }
        }
    }
    n
}

#[cfg(test)]
mod tests {
    use super::*;
    use crate::refcbor::parse;

    #[test]
    fn generated_items_round_trip_through_reference() {
        let mut rng = Rng::new(1);
        for _ in 0..3000 {
            let it = gen_item(&mut rng, &TreeCfg::any(5), 0);
            let b = it.encode();
            let (p, n) = parse(&b).expect("well-formed");
            assert_eq!(n, b.len());
            assert_eq!(p, it);
            assert_eq!(p.preferred().encode().len() <= b.len(), true);
        }
    }

    #[test]
    fn enumeration_sizes() {
        let e = enumerate_items(3, &leaf_alphabet(false), &[0]);
        assert!(e[1].len() == 12);
        assert!(e[2].len() > 40);
        assert!(e[3].len() > 500);
        for it in e.iter().flatten() {
            let b = it.encode();
            let (p, n) = parse(&b).unwrap();
            assert_eq!(n, b.len());
            assert_eq!(&p, it);
        }
    }

    #[test]
    fn head_offsets_cover_valid_encoding() {
        let mut rng = Rng::new(2);
        for _ in 0..500 {
            let it = gen_item(&mut rng, &TreeCfg::any(4), 0);
            let b = it.encode();
            let h = head_offsets(&b);
            assert!(!h.is_empty() && h[0] == 0);
        }
    }
}
