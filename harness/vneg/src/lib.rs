//! Self-check shared by the negative derive programs (see Cargo.toml).
use minicbor::{CborLen, Decode, Encode};
use vcore::refcbor::{self, Item};

fn dup_keys(it: &Item, out: &mut Vec<String>) {
    match it {
        Item::Map { items, .. } => {
            for (i, (k, v)) in items.iter().enumerate() {
                if items[..i].iter().any(|(k2, _)| k2.encode() == k.encode()) {
                    out.push(format!("C08: map key {} occurs twice in {}", refcbor::diag(k), refcbor::diag(it)));
                }
                dup_keys(k, out);
                dup_keys(v, out);
            }
        }
        Item::Array { items, .. } => items.iter().for_each(|x| dup_keys(x, out)),
        Item::Tag { inner, .. } => dup_keys(inner, out),
        _ => {}
    }
}

/// Failed sub-checks, each prefixed with the property it belongs to.
pub fn selfcheck<T>(v: &T) -> Vec<String>
where
    T: Encode<()> + CborLen<()> + for<'b> Decode<'b, ()> + PartialEq + core::fmt::Debug,
{
    let mut out = Vec::new();
    let bytes = match minicbor::to_vec(v) {
        Ok(b) => b,
        Err(e) => return vec![format!("C08: encoding {:?} fails: {}", v, e)],
    };
    let n = minicbor::len(v);
    if n != bytes.len() {
        out.push(format!("C07: len() = {} but {} bytes are written for {:?}", n, bytes.len(), v));
    }
    match refcbor::parse(&bytes) {
        Ok((it, used)) if used == bytes.len() => dup_keys(&it, &mut out),
        other => out.push(format!("C08: the encoding {} of {:?} is not one well-formed item ({:?})", vcore::json::hex(&bytes), v, other.map(|x| x.1))),
    }
    match minicbor::decode::<T>(&bytes) {
        Ok(w) if &w == v => {}
        Ok(w) => out.push(format!("C09: {:?} encodes to {} which decodes to {:?}", v, vcore::json::hex(&bytes), w)),
        Err(e) => out.push(format!("C09: {:?} encodes to {} which does not decode: {}", v, vcore::json::hex(&bytes), e)),
    }
    out
}

pub fn report(name: &str, fails: Vec<String>) {
    if fails.is_empty() {
        println!("NEG {} accepted-and-consistent", name);
    } else {
        for f in &fails {
            println!("NEG {} FAIL {}", name, f);
        }
    }
}
