// One definition the derive macros are expected to reject; see ../../Cargo.toml.
#![allow(dead_code)]
use minicbor::{CborLen, Decode, Encode};

#[derive(Debug, PartialEq, Encode, Decode, CborLen)]
#[cbor(map)] struct S { #[n(0)] a: u8, #[n(0)] b: u16 }

fn main() {
    vneg::report("dup_n_n_map", vneg::selfcheck(&S { a: 7, b: 300 }));
}
