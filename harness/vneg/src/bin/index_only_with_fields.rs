// One definition the derive macros are expected to reject; see ../../Cargo.toml.
#![allow(dead_code)]
use minicbor::{CborLen, Decode, Encode};

#[derive(Debug, PartialEq, Encode, Decode, CborLen)]
#[cbor(index_only)] enum S { #[n(0)] A, #[n(1)] B(#[n(0)] u8) }

fn main() {
    vneg::report("index_only_with_fields", vneg::selfcheck(&S::B(3)));
}
