// One definition the derive macros are expected to reject; see ../../Cargo.toml.
#![allow(dead_code)]
use minicbor::{CborLen, Decode, Encode};

#[derive(Debug, PartialEq, Encode, Decode, CborLen)]
#[cbor(map)] struct S { #[n(0)] a: u8, #[cbor(skip)] #[n(0)] b: u16 }

fn main() {
    vneg::report("skip_with_index_dup", vneg::selfcheck(&S { a: 7, b: 0 }));
}
