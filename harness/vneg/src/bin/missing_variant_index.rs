// One definition the derive macros are expected to reject; see ../../Cargo.toml.
#![allow(dead_code)]
use minicbor::{CborLen, Decode, Encode};

#[derive(Debug, PartialEq, Encode, Decode, CborLen)]
enum S { #[n(0)] A, B }

fn main() {
    vneg::report("missing_variant_index", vneg::selfcheck(&S::B));
}
