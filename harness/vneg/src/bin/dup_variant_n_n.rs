// One definition the derive macros are expected to reject; see ../../Cargo.toml.
#![allow(dead_code)]
use minicbor::{CborLen, Decode, Encode};

#[derive(Debug, PartialEq, Encode, Decode, CborLen)]
enum S { #[n(0)] A, #[n(0)] B }

fn main() {
    vneg::report("dup_variant_n_n", vneg::selfcheck(&S::B));
}
