// One definition the derive macros are expected to reject; see ../../Cargo.toml.
#![allow(dead_code)]
use minicbor::{CborLen, Decode, Encode};

#[derive(Debug, PartialEq, Encode, Decode, CborLen)]
#[cbor(index_only, tag(5))] enum S { #[n(0)] A, #[n(1)] B }

fn main() {
    vneg::report("index_only_and_tag", vneg::selfcheck(&S::B));
}
