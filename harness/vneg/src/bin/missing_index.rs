// One definition the derive macros are expected to reject; see ../../Cargo.toml.
#![allow(dead_code)]
use minicbor::{CborLen, Decode, Encode};

#[derive(Debug, PartialEq, Encode, Decode, CborLen)]
struct S { #[n(0)] a: u8, b: u16 }

fn main() {
    vneg::report("missing_index", vneg::selfcheck(&S { a: 7, b: 300 }));
}
