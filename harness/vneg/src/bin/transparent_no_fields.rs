// One definition the derive macros are expected to reject; see ../../Cargo.toml.
#![allow(dead_code)]
use minicbor::{CborLen, Decode, Encode};

#[derive(Debug, PartialEq, Encode, Decode, CborLen)]
#[cbor(transparent)] struct S {}

fn main() {
    vneg::report("transparent_no_fields", vneg::selfcheck(&S {}));
}
