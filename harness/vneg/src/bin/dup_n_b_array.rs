// One definition the derive macros are expected to reject; see ../../Cargo.toml.
#![allow(dead_code)]
use minicbor::{CborLen, Decode, Encode};

#[derive(Debug, PartialEq, Encode, Decode, CborLen)]
struct S { #[n(0)] a: u8, #[b(0)] b: String }

fn main() {
    vneg::report("dup_n_b_array", vneg::selfcheck(&S { a: 7, b: "x".into() }));
}
