// One definition the derive macros are expected to reject; see ../../Cargo.toml.
#![allow(dead_code)]
use minicbor::{CborLen, Decode, Encode};

#[derive(Debug, PartialEq, Encode, Decode, CborLen)]
#[cbor(map)] struct S(#[n(0)] u8, #[b(0)] String);

fn main() {
    vneg::report("dup_tuple", vneg::selfcheck(&S(7, "x".into())));
}
