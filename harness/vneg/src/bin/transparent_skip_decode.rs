// One definition the derive macros are expected to reject; see ../../Cargo.toml.
#![allow(dead_code)]
use minicbor::{CborLen, Decode, Encode};

#[derive(Debug, PartialEq, Encode, Decode, CborLen)]
#[cbor(transparent)] struct S(#[cbor(skip)] u8, #[n(0)] u64);

fn main() {
    vneg::report("transparent_skip_decode", vneg::selfcheck(&S(0, 1000)));
}
