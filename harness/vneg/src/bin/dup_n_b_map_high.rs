// One definition the derive macros are expected to reject; see ../../Cargo.toml.
#![allow(dead_code)]
use minicbor::{CborLen, Decode, Encode};

#[derive(Debug, PartialEq, Encode, Decode, CborLen)]
#[cbor(map)] struct S { #[n(0)] a: u8, #[n(5)] c: bool, #[b(5)] b: String }

fn main() {
    vneg::report("dup_n_b_map_high", vneg::selfcheck(&S { a: 7, c: true, b: "x".into() }));
}
