// One definition the derive macros are expected to reject; see ../../Cargo.toml.
#![allow(dead_code)]
use minicbor::{CborLen, Decode, Encode};

#[derive(Debug, PartialEq, Encode, Decode, CborLen)]
#[cbor(index_only)] struct S { #[n(0)] a: u8 }

fn main() {
    vneg::report("index_only_struct", vneg::selfcheck(&S { a: 1 }));
}
