// One definition the derive macros are expected to reject; see ../../Cargo.toml.
#![allow(dead_code)]
use minicbor::{CborLen, Decode, Encode};

#[derive(Debug, PartialEq, Encode, Decode, CborLen)]
#[cbor(map)] struct S { #[cbor(n(2))] a: u8, #[cbor(b(2))] b: String }

fn main() {
    vneg::report("dup_cbor_n_b", vneg::selfcheck(&S { a: 7, b: "x".into() }));
}
