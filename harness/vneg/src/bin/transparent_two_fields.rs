// One definition the derive macros are expected to reject; see ../../Cargo.toml.
#![allow(dead_code)]
use minicbor::{CborLen, Decode, Encode};

#[derive(Debug, PartialEq, Encode, Decode, CborLen)]
#[cbor(transparent)] struct S { #[n(0)] a: u8, #[n(1)] b: u16 }

fn main() {
    vneg::report("transparent_two_fields", vneg::selfcheck(&S { a: 7, b: 300 }));
}
