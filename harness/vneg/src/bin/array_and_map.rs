// One definition the derive macros are expected to reject; see ../../Cargo.toml.
#![allow(dead_code)]
use minicbor::{CborLen, Decode, Encode};

#[derive(Debug, PartialEq, Encode, Decode, CborLen)]
#[cbor(array, map)] struct S { #[n(0)] a: u8 }

fn main() {
    vneg::report("array_and_map", vneg::selfcheck(&S { a: 7 }));
}
