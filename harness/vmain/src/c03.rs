//! C03 — encoder output is well-formed, deterministic, shortest-form CBOR.
//!
//! Oracle: `vcore::refcbor` — the bytes must parse as exactly one well-formed
//! item covering all output, every head must be in preferred (shortest) form,
//! all built-in impls must use definite lengths, and for the canonical
//! mappings the bytes must equal the reference encoding of the item the
//! harness builds from the Rust value.  Encoding twice gives the same bytes.

use crate::subj::Subject;
use minicbor::data::{IanaTag, Int, Tag, Token};
use minicbor::encode::{ArrayIter, MapIter};
use minicbor::{Encode, Encoder};
use std::any::type_name;
use vcore::gen::{self, TreeCfg};
use vcore::json::{hex, J};
use vcore::mon;
use vcore::refcbor::{self, Item};
use vcore::refnum;
use vcore::report::{Args, Report};
use vcore::rng::{fnv64, hash_mix, Rng};

const ID: &str = "C03";
pub const SIG_SIMPLE_RESERVED: &str = "C03|Encoder::simple|24..=31|f8<32";

fn fail(rep: &mut Report, sig: &str, what: String, out: &[u8], replay: Vec<String>) {
    rep.violation(&format!("{}|{}", ID, sig), J::obj().with("what", J::s(what)).with("output", J::s(hex(&out[..out.len().min(128)]))), replay);
}

fn enc<F>(f: F) -> Result<Vec<u8>, String>
where
    F: FnOnce(&mut Encoder<Vec<u8>>) -> Result<(), minicbor::encode::Error<std::convert::Infallible>>,
{
    let mut e = Encoder::new(Vec::new());
    f(&mut e).map_err(|e| e.to_string())?;
    Ok(e.into_writer())
}

/// Compare the output of one encoder method with the reference item.
fn expect_item(rep: &mut Report, op: &str, arg: String, out: Result<Vec<u8>, String>, exp: &Item) {
    rep.eval();
    let want = exp.encode();
    match out {
        Ok(b) if b == want => {}
        Ok(b) => fail(rep, op, format!("{}({}) wrote {}, reference preferred encoding is {}", op, arg, hex(&b), hex(&want)), &b, vec!["c03".into(), "--replay".into(), "method".into(), op.into(), arg]),
        Err(e) => fail(rep, op, format!("{}({}) failed: {}", op, arg, e), &[], vec!["c03".into(), "--replay".into(), "method".into(), op.into(), arg]),
    }
}

fn method_u64(rep: &mut Report, v: u64) {
    expect_item(rep, "Encoder::u64", v.to_string(), enc(|e| e.u64(v).map(|_| ())), &Item::uint(v));
    expect_item(rep, "Encoder::int", v.to_string(), enc(|e| e.int(Int::from(v)).map(|_| ())), &Item::uint(v));
    expect_item(rep, "Encoder::int", format!("-1-{}", v), enc(|e| e.int(Int::try_from(-1 - v as i128).unwrap()).map(|_| ())), &Item::nint(v));
    expect_item(rep, "Encoder::tag", v.to_string(), enc(|e| e.tag(Tag::new(v)).map(|_| ()).and_then(|_| e.u8(0).map(|_| ()))), &Item::tag(v, Item::uint(0)));
    if let Ok(i) = i64::try_from(v) {
        expect_item(rep, "Encoder::i64", i.to_string(), enc(|e| e.i64(i).map(|_| ())), &Item::uint(v));
        expect_item(rep, "Encoder::i64", (-1 - i).to_string(), enc(|e| e.i64(-1 - i).map(|_| ())), &Item::nint(v));
    }
    // array / map heads: compare the head only (the declared elements are not written here)
    let mut h = Vec::new();
    refcbor::head(4, refcbor::min_width(v), v, &mut h);
    rep.eval();
    match enc(|e| e.array(v).map(|_| ())) {
        Ok(b) if b == h => {}
        r => fail(rep, "Encoder::array", format!("array({}) wrote {:?}, expected {}", v, r.map(|b| hex(&b)), hex(&h)), &[], vec!["c03".into(), "--replay".into(), "method".into(), "Encoder::array".into(), v.to_string()]),
    }
    let mut h = Vec::new();
    refcbor::head(5, refcbor::min_width(v), v, &mut h);
    rep.eval();
    match enc(|e| e.map(v).map(|_| ())) {
        Ok(b) if b == h => {}
        r => fail(rep, "Encoder::map", format!("map({}) wrote {:?}, expected {}", v, r.map(|b| hex(&b)), hex(&h)), &[], vec!["c03".into(), "--replay".into(), "method".into(), "Encoder::map".into(), v.to_string()]),
    }
}

fn method_u32(rep: &mut Report, v: u32) {
    expect_item(rep, "Encoder::u32", v.to_string(), enc(|e| e.u32(v).map(|_| ())), &Item::uint(v as u64));
    let i = v as i32;
    expect_item(rep, "Encoder::i32", i.to_string(), enc(|e| e.i32(i).map(|_| ())), &Item::int(i as i128));
}

fn method_small(rep: &mut Report) {
    for v in 0..=255u8 {
        expect_item(rep, "Encoder::u8", v.to_string(), enc(|e| e.u8(v).map(|_| ())), &Item::uint(v as u64));
        let i = v as i8;
        expect_item(rep, "Encoder::i8", i.to_string(), enc(|e| e.i8(i).map(|_| ())), &Item::int(i as i128));
    }
    for v in 0..=65535u16 {
        expect_item(rep, "Encoder::u16", v.to_string(), enc(|e| e.u16(v).map(|_| ())), &Item::uint(v as u64));
        let i = v as i16;
        expect_item(rep, "Encoder::i16", i.to_string(), enc(|e| e.i16(i).map(|_| ())), &Item::int(i as i128));
    }
    expect_item(rep, "Encoder::bool", "false".into(), enc(|e| e.bool(false).map(|_| ())), &Item::bool(false));
    expect_item(rep, "Encoder::bool", "true".into(), enc(|e| e.bool(true).map(|_| ())), &Item::bool(true));
    expect_item(rep, "Encoder::null", "".into(), enc(|e| e.null().map(|_| ())), &Item::null());
    expect_item(rep, "Encoder::undefined", "".into(), enc(|e| e.undefined().map(|_| ())), &Item::undefined());
    for n in 0..=255u8 {
        simple_case(rep, n, false);
        simple_case(rep, n, true);
    }
    rep.enumerated(2 * 256 + 2 * 65536 + 4 + 512);
}

/// `Encoder::simple(n)` / `Token::Simple(n)`.  The values 24..=31 have no
/// well-formed encoding: the only correct behaviour is an encode error.
fn simple_case(rep: &mut Report, n: u8, via_token: bool) {
    rep.eval();
    let out = if via_token { minicbor::to_vec(Token::Simple(n)).map_err(|e| e.to_string()) } else { enc(|e| e.simple(n).map(|_| ())) };
    let op = if via_token { "Token::Simple" } else { "Encoder::simple" };
    let rp = vec!["c03".into(), "--replay".into(), "simple".into(), n.to_string(), via_token.to_string()];
    if (24..=31).contains(&n) {
        match out {
            Err(_) => {}
            Ok(b) if b == [0xf8, n] => rep.violation(
                SIG_SIMPLE_RESERVED,
                J::obj().with("what", J::s(format!("{}({}) wrote {} which RFC 8949 3.3 declares not well-formed; these values have no well-formed encoding", op, n, hex(&b)))),
                rp,
            ),
            Ok(b) => fail(rep, op, format!("{}({}) wrote {}", op, n, hex(&b)), &b, rp),
        }
        return;
    }
    let want = Item::simple(n).encode();
    match out {
        Ok(b) if b == want => {}
        Ok(b) => fail(rep, &format!("{}|{}", op, if n < 24 { "<24" } else { ">=32" }), format!("{}({}) wrote {}, reference {}", op, n, hex(&b), hex(&want)), &b, rp),
        Err(e) => fail(rep, op, format!("{}({}) failed: {}", op, n, e), &[], rp),
    }
}

fn method_strings(rep: &mut Report, a: &Args) {
    let mut lens: Vec<usize> = vec![0, 1, 2, 22, 23, 24, 25, 254, 255, 256, 257, 65534, 65535, 65536, 65537];
    if a.shard == 0 {
        lens.push(1 << 20);
    }
    for (k, n) in lens.iter().enumerate() {
        if !a.mine(k as u64) && *n != 1 << 20 {
            continue;
        }
        let data = vec![0x61u8; *n];
        let s = String::from_utf8(data.clone()).unwrap();
        expect_item(rep, "Encoder::bytes", format!("len {}", n), enc(|e| e.bytes(&data).map(|_| ())), &Item::bytes(&data));
        expect_item(rep, "Encoder::str", format!("len {}", n), enc(|e| e.str(&s).map(|_| ())), &Item::text(&s));
    }
    rep.enumerated(2 * lens.len() as u64 / a.nshards.max(1));
}

// ---------------------------------------------------------------------------
// built-in Encode impls

fn multiset(items: &[Item]) -> Vec<Vec<u8>> {
    let mut v: Vec<Vec<u8>> = items.iter().map(|i| i.encode()).collect();
    v.sort();
    v
}

fn same_unordered(a: &Item, b: &Item) -> bool {
    match (a, b) {
        (Item::Array { w: wa, items: ia }, Item::Array { w: wb, items: ib }) => wa == wb && multiset(ia) == multiset(ib),
        (Item::Map { w: wa, items: ia }, Item::Map { w: wb, items: ib }) => {
            let f = |m: &Vec<(Item, Item)>| {
                let mut v: Vec<(Vec<u8>, Vec<u8>)> = m.iter().map(|(k, v)| (k.encode(), v.encode())).collect();
                v.sort();
                v
            };
            wa == wb && f(ia) == f(ib)
        }
        _ => a == b,
    }
}

pub fn check_impl<T>(ty: &str, v: &T, rep: &mut Report, replay: &dyn Fn() -> Vec<String>)
where
    T: Subject + Encode<()>,
{
    rep.eval();
    let r = mon::guarded(|| (minicbor::to_vec(v), minicbor::to_vec(v)));
    let (b1, b2) = match r {
        Err(p) => {
            fail(rep, &format!("impl|{}|panic", ty), format!("encoding {} panicked: {}", v.show(), p.message), &[], replay());
            return;
        }
        Ok((Err(_), Err(_))) => {
            if !v.refused() {
                fail(rep, &format!("impl|{}|error", ty), format!("encoding {} failed", v.show()), &[], replay());
            }
            return;
        }
        Ok((Ok(a), Ok(b))) => (a, b),
        Ok(_) => {
            fail(rep, &format!("impl|{}|nondeterministic", ty), format!("encoding {} twice: one success, one failure", v.show()), &[], replay());
            return;
        }
    };
    if b1 != b2 {
        fail(rep, &format!("impl|{}|nondeterministic", ty), format!("two encodings of {} differ: {} vs {}", v.show(), hex(&b1[..b1.len().min(64)]), hex(&b2[..b2.len().min(64)])), &b1, replay());
        return;
    }
    if let Some(h) = v.head_only() {
        // `Tag` alone is not a complete value: it writes the tag head which the caller completes
        if b1 != h {
            fail(rep, &format!("impl|{}|head", ty), format!("head for {} is {}, reference {}", v.show(), hex(&b1), hex(&h)), &b1, replay());
        } else {
            rep.seen(hash_mix(fnv64(ty.as_bytes()), fnv64(&b1)));
        }
        return;
    }
    let (item, used) = match refcbor::parse(&b1) {
        Ok(x) => x,
        Err(e) => {
            fail(rep, &format!("impl|{}|ill-formed", ty), format!("output for {} is not a well-formed item: {:?}", v.show(), e), &b1, replay());
            return;
        }
    };
    if used != b1.len() {
        fail(rep, &format!("impl|{}|not-one-item", ty), format!("output for {} has {} bytes after the first item", v.show(), b1.len() - used), &b1, replay());
        return;
    }
    if !item.is_preferred() {
        fail(rep, &format!("impl|{}|non-preferred-head", ty), format!("output for {} uses a non-shortest head", v.show()), &b1, replay());
        return;
    }
    if !item.is_definite() {
        fail(rep, &format!("impl|{}|indefinite", ty), format!("output for {} uses an indefinite length", v.show()), &b1, replay());
        return;
    }
    if let Some(exp) = v.item() {
        let ok = if T::unordered() { same_unordered(&item, &exp) } else { item == exp };
        if !ok {
            fail(rep, &format!("impl|{}|wrong-item", ty), format!("output for {} is {} but the data-model value is {}", v.show(), hex(&b1[..b1.len().min(64)]), hex(&exp.encode()[..exp.encode().len().min(64)])), &b1, replay());
            return;
        }
        rep.count("impl/compared-with-reference-item");
    } else {
        rep.count("impl/well-formedness-only (crate-specific shape)");
    }
    rep.seen(hash_mix(fnv64(ty.as_bytes()), fnv64(&b1)));
    if rep.want_sample() && b1.len() > 3 {
        rep.sample(J::obj().with("type", J::s(ty)).with("value", J::s(v.show())).with("output", J::s(hex(&b1[..b1.len().min(48)]))));
    }
}

fn run_impl<T>(a: &Args, rep: &mut Report, n: u64)
where
    T: Subject + Encode<()>,
{
    let ty = type_name::<T>();
    let label = format!("c03/{}", ty);
    for i in 0..n {
        if !a.mine(i) {
            continue;
        }
        let mut rng = Rng::derive(&label, a.seed, 0, i);
        let v = T::gen(&mut rng);
        check_impl::<T>(ty, &v, rep, &|| vec!["c03".into(), "--seed".into(), a.seed.to_string(), "--replay".into(), "impl".into(), ty.to_string(), i.to_string()]);
    }
    mon::tick();
}

// ---------------------------------------------------------------------------
// balanced call sequences

/// Play an item tree (preferred widths) into the encoder, choosing randomly
/// among equivalent methods.
fn play(rng: &mut Rng, e: &mut Encoder<Vec<u8>>, it: &Item, calls: &mut Vec<&'static str>) -> Result<(), String> {
    macro_rules! c {
        ($name:expr, $x:expr) => {{
            calls.push($name);
            $x.map(|_| ()).map_err(|e| e.to_string())?
        }};
    }
    match it {
        Item::UInt { v, .. } => {
            let v = *v;
            let mut opts: Vec<u8> = vec![3, 4];
            if v <= u8::MAX as u64 {
                opts.push(0)
            }
            if v <= u16::MAX as u64 {
                opts.push(1)
            }
            if v <= u32::MAX as u64 {
                opts.push(2)
            }
            if v <= i64::MAX as u64 {
                opts.push(5)
            }
            if char::from_u32(v.min(u32::MAX as u64) as u32).is_some() && v <= u32::MAX as u64 {
                opts.push(6)
            }
            match *rng.pick(&opts) {
                0 => c!("u8", e.u8(v as u8)),
                1 => c!("u16", e.u16(v as u16)),
                2 => c!("u32", e.u32(v as u32)),
                3 => c!("u64", e.u64(v)),
                4 => c!("int", e.int(Int::from(v))),
                5 => c!("i64", e.i64(v as i64)),
                _ => c!("char", e.char(char::from_u32(v as u32).unwrap())),
            }
        }
        Item::NInt { v, .. } => {
            let v = *v;
            let val = -1 - v as i128;
            let mut opts: Vec<u8> = vec![4];
            if val >= i8::MIN as i128 {
                opts.push(0)
            }
            if val >= i16::MIN as i128 {
                opts.push(1)
            }
            if val >= i32::MIN as i128 {
                opts.push(2)
            }
            if val >= i64::MIN as i128 {
                opts.push(3)
            }
            match *rng.pick(&opts) {
                0 => c!("i8", e.i8(val as i8)),
                1 => c!("i16", e.i16(val as i16)),
                2 => c!("i32", e.i32(val as i32)),
                3 => c!("i64", e.i64(val as i64)),
                _ => c!("int", e.int(Int::try_from(val).unwrap())),
            }
        }
        Item::Bytes { v, .. } => c!("bytes", e.bytes(v)),
        Item::Text { v, .. } => c!("str", e.str(std::str::from_utf8(v).unwrap())),
        Item::BytesIndef(ch) => {
            c!("begin_bytes", e.begin_bytes());
            for (_, d) in ch {
                c!("bytes", e.bytes(d))
            }
            c!("end", e.end())
        }
        Item::TextIndef(ch) => {
            c!("begin_str", e.begin_str());
            for (_, d) in ch {
                c!("str", e.str(std::str::from_utf8(d).unwrap()))
            }
            c!("end", e.end())
        }
        Item::Array { w, items } => {
            if w.is_some() {
                c!("array", e.array(items.len() as u64))
            } else {
                c!("begin_array", e.begin_array())
            }
            for x in items {
                play(rng, e, x, calls)?
            }
            if w.is_none() {
                c!("end", e.end())
            }
        }
        Item::Map { w, items } => {
            if w.is_some() {
                c!("map", e.map(items.len() as u64))
            } else {
                c!("begin_map", e.begin_map())
            }
            for (k, v) in items {
                play(rng, e, k, calls)?;
                play(rng, e, v, calls)?
            }
            if w.is_none() {
                c!("end", e.end())
            }
        }
        Item::Tag { v, inner, .. } => {
            match IanaTag::try_from(Tag::new(*v)) {
                Ok(t) if rng.bool() => c!("tag(IanaTag)", e.tag(t)),
                _ => c!("tag", e.tag(Tag::new(*v))),
            }
            play(rng, e, inner, calls)?
        }
        Item::Simple { v, .. } => match *v {
            20 if rng.bool() => c!("bool", e.bool(false)),
            21 if rng.bool() => c!("bool", e.bool(true)),
            22 if rng.bool() => c!("null", e.null()),
            23 if rng.bool() => c!("undefined", e.undefined()),
            n => c!("simple", e.simple(n)),
        },
        Item::F16(h) => c!("f16", e.f16(f32::from_bits(refnum::f16_bits_to_f32_bits(*h)))),
        Item::F32(b) => c!("f32", e.f32(f32::from_bits(*b))),
        Item::F64(b) => c!("f64", e.f64(f64::from_bits(*b))),
    }
    Ok(())
}

fn sanitize_for_play(it: &Item) -> Item {
    // half NaNs are not bit-stable through Encoder::f16 (only "NaN to NaN" is
    // promised), two-byte simple values < 32 have no well-formed encoding:
    // keep both out of the call-sequence workload (C12 and the simple sweep cover them).
    match it {
        Item::F16(h) if refnum::is_nan16(*h) => Item::F16(0x7e00 & 0x7c00),
        Item::Simple { w: 1, v } if *v < 32 => Item::simple(32),
        Item::Array { w, items } => Item::Array { w: *w, items: items.iter().map(sanitize_for_play).collect() },
        Item::Map { w, items } => Item::Map { w: *w, items: items.iter().map(|(k, v)| (sanitize_for_play(k), sanitize_for_play(v))).collect() },
        Item::Tag { w, v, inner } => Item::Tag { w: *w, v: *v, inner: Box::new(sanitize_for_play(inner)) },
        x => x.clone(),
    }
}

fn sequence_case(rep: &mut Report, seed: u64, i: u64) {
    rep.eval();
    let mut rng = Rng::derive("c03/seq", seed, 0, i);
    let cfg = TreeCfg { max_children: 6, ..TreeCfg::preferred(6) };
    let tree = sanitize_for_play(&gen::gen_item(&mut rng, &cfg, 0));
    let want = tree.encode();
    let mut calls = Vec::new();
    let rp = vec!["c03".into(), "--seed".into(), seed.to_string(), "--replay".into(), "seq".into(), i.to_string()];
    let r = mon::guarded(|| {
        let mut e = Encoder::new(Vec::new());
        play(&mut rng, &mut e, &tree, &mut calls).map(|_| e.into_writer())
    });
    match r {
        Err(p) => fail(rep, "sequence|panic", format!("panic {} at {}", p.message, p.location), &[], rp),
        Ok(Err(e)) => fail(rep, "sequence|error", format!("call sequence failed: {}", e), &[], rp),
        Ok(Ok(b)) => {
            if b != want {
                fail(rep, "sequence|bytes", format!("balanced call sequence ({} calls) wrote {} but the reference encoding of the same tree is {}", calls.len(), hex(&b[..b.len().min(64)]), hex(&want[..want.len().min(64)])), &b, rp);
                return;
            }
            match refcbor::parse(&b) {
                Ok((it, n)) if n == b.len() && it == tree => {}
                other => {
                    fail(rep, "sequence|parse", format!("output does not parse back to the tree: {:?}", other.map(|x| x.1)), &b, rp);
                    return;
                }
            }
            rep.seen(fnv64(&b));
            rep.max("sequence/max calls", calls.len() as f64);
            if rep.want_sample() && calls.len() > 6 && calls.len() < 16 {
                rep.sample(J::obj().with("calls", J::A(calls.iter().map(|c| J::s(*c)).collect())).with("output", J::s(hex(&b))));
            }
        }
    }
}

/// The registered tag numbers of the `IanaTag` names, written from RFC 8949 section 3.4 (tags
/// 0-5, 21-24, 32-36) and RFC 8746 (40, 41, 1040 and the typed-array block 64..=87, where 76 is
/// reserved) - independently of the library's own table.
pub(crate) fn iana_table() -> Vec<(IanaTag, u64)> {
    use IanaTag::*;
    vec![
        (DateTime, 0), (Timestamp, 1), (PosBignum, 2), (NegBignum, 3), (Decimal, 4), (Bigfloat, 5),
        (ToBase64Url, 21), (ToBase64, 22), (ToBase16, 23), (Cbor, 24),
        (Uri, 32), (Base64Url, 33), (Base64, 34), (Regex, 35), (Mime, 36),
        (MultiDimArrayR, 40), (HomogenousArray, 41), (MultiDimArrayC, 1040),
        (TypedArrayU8, 64), (TypedArrayU16B, 65), (TypedArrayU32B, 66), (TypedArrayU64B, 67),
        (TypedArrayU8Clamped, 68), (TypedArrayU16L, 69), (TypedArrayU32L, 70), (TypedArrayU64L, 71),
        (TypedArrayI8, 72), (TypedArrayI16B, 73), (TypedArrayI32B, 74), (TypedArrayI64B, 75),
        (TypedArrayI16L, 77), (TypedArrayI32L, 78), (TypedArrayI64L, 79),
        (TypedArrayF16B, 80), (TypedArrayF32B, 81), (TypedArrayF64B, 82), (TypedArrayF128B, 83),
        (TypedArrayF16L, 84), (TypedArrayF32L, 85), (TypedArrayF64L, 86), (TypedArrayF128L, 87),
    ]
}

/// `Encoder::tag` given a registered name writes the head of the registered number.
fn iana_tags(rep: &mut Report) {
    let table = iana_table();
    for (name, n) in &table {
        rep.eval();
        let mut want = Vec::new();
        refcbor::head(6, refcbor::min_width(*n), *n, &mut want);
        let got = mon::guarded(|| {
            let mut e = Encoder::new(Vec::new());
            e.tag(*name).map_err(|e| e.to_string())?;
            Ok::<_, String>((e.into_writer(), Tag::from(*name).as_u64(), IanaTag::try_from(Tag::new(*n)).ok()))
        });
        match got {
            Ok(Ok((bytes, num, back))) => {
                if bytes != want || num != *n {
                    fail(rep, "Encoder::tag(IanaTag)", format!("{:?} is registered as tag {} (head {}), the encoder wrote {} (Tag number {})", name, n, hex(&want), hex(&bytes), num), &[], vec![]);
                }
                let _ = back; // the reverse lookup is not part of this property (the enum is non_exhaustive)
            }
            Ok(Err(e)) => fail(rep, "Encoder::tag(IanaTag)", format!("{:?}: {}", name, e), &[], vec![]),
            Err(p) => fail(rep, "Encoder::tag(IanaTag)", format!("{:?}: panic {}", name, p.message), &[], vec![]),
        }
    }
    rep.enumerated(table.len() as u64);
}

/// A sink that keeps the first bytes and counts the rest.
struct HeadSink {
    head: Vec<u8>,
    total: u64,
}

impl minicbor::encode::Write for HeadSink {
    type Error = std::convert::Infallible;
    fn write_all(&mut self, b: &[u8]) -> Result<(), Self::Error> {
        let room = 12usize.saturating_sub(self.head.len());
        self.head.extend_from_slice(&b[..b.len().min(room)]);
        self.total += b.len() as u64;
        Ok(())
    }
}

/// Byte and text strings whose length needs the 8-byte head (>= 2^32): the payload is a read-only
/// anonymous zero mapping (virtual memory only), the sink keeps the head and counts the bytes.
fn huge_strings(rep: &mut Report) {
    for n in [(1u64 << 32) - 1, 1 << 32, (1 << 32) + 1, (1 << 32) + 70_000] {
        let region = match mon::ZeroRegion::new(n as usize) {
            Some(r) => r,
            None => {
                rep.note(format!("could not map a {} byte zero region; huge-string heads not exercised", n));
                return;
            }
        };
        let data = region.as_slice();
        for text in [false, true] {
            rep.eval();
            let mut want = Vec::new();
            refcbor::head(if text { 3 } else { 2 }, refcbor::min_width(n), n, &mut want);
            let hl = want.len();
            want.extend(std::iter::repeat(0u8).take(12 - hl));
            let r = mon::guarded(|| {
                let mut e = Encoder::new(HeadSink { head: Vec::new(), total: 0 });
                if text {
                    // all-zero bytes are valid UTF-8 (NUL characters)
                    let s = unsafe { std::str::from_utf8_unchecked(data) };
                    e.str(s).map_err(|e| e.to_string())?;
                } else {
                    e.bytes(data).map_err(|e| e.to_string())?;
                }
                let w = e.into_writer();
                Ok::<_, String>((w.head, w.total))
            });
            let what = if text { "Encoder::str(huge)" } else { "Encoder::bytes(huge)" };
            match r {
                Ok(Ok((head, total))) => {
                    if head != want || total != hl as u64 + n {
                        fail(rep, what, format!("a {} byte string was written as {}.. ({} bytes in total); expected {}.. ({} bytes)", n, hex(&head), total, hex(&want), hl as u64 + n), &[], vec![]);
                    } else {
                        rep.count("strings of 2^32-1 .. 2^32+70000 bytes: head and total length");
                    }
                }
                Ok(Err(e)) => fail(rep, what, format!("{} byte string: {}", n, e), &[], vec![]),
                Err(p) => fail(rep, what, format!("{} byte string: panic {}", n, p.message), &[], vec![]),
            }
        }
        rep.enumerated(2);
    }
}

fn iter_case(rep: &mut Report, seed: u64, i: u64) {
    rep.eval();
    let mut rng = Rng::derive("c03/iter", seed, 0, i);
    let v: Vec<u64> = Vec::<u64>::gen(&mut rng);
    let items: Vec<Item> = v.iter().map(|x| Item::uint(*x)).collect();
    let rp = vec!["c03".into(), "--seed".into(), seed.to_string(), "--replay".into(), "iter".into(), i.to_string()];
    let rp0: Vec<String> = rp.clone();
    let exact = minicbor::to_vec(ArrayIter::new(v.iter())).map_err(|e| e.to_string());
    let inexact = minicbor::to_vec(ArrayIter::new(v.iter().filter(|_| true))).map_err(|e| e.to_string());
    let hinted_exact = v.is_empty(); // filter over an empty slice iterator reports (0, Some(0))
    let w1 = Item::array(items.clone()).encode();
    let w2 = if hinted_exact { w1.clone() } else { Item::array_indef(items.clone()).encode() };
    if exact.as_deref() != Ok(&w1[..]) {
        fail(rep, "ArrayIter|exact", format!("ArrayIter with exact size hint wrote {:?}, expected {}", exact.map(|b| hex(&b)), hex(&w1)), &[], rp.clone());
    }
    if inexact.as_deref() != Ok(&w2[..]) {
        fail(rep, "ArrayIter|inexact", format!("ArrayIter with inexact size hint wrote {:?}, expected {}", inexact.map(|b| hex(&b)), hex(&w2)), &[], rp.clone());
    }
    let pairs: Vec<(Item, Item)> = v.iter().map(|x| (Item::uint(*x), Item::bool(x % 2 == 0))).collect();
    let m1 = minicbor::to_vec(MapIter::new(v.iter().map(|x| (*x, x % 2 == 0)))).map_err(|e| e.to_string());
    let m2 = minicbor::to_vec(MapIter::new(v.iter().filter(|_| true).map(|x| (*x, x % 2 == 0)))).map_err(|e| e.to_string());
    let wm1 = Item::map(pairs.clone()).encode();
    let wm2 = if hinted_exact { wm1.clone() } else { Item::map_indef(pairs).encode() };
    let (wm1c, wm2c) = (wm1.clone(), wm2.clone());
    if m1.as_deref() != Ok(&wm1[..]) {
        fail(rep, "MapIter|exact", format!("MapIter with exact size hint wrote {:?}, expected {}", m1.map(|b| hex(&b)), hex(&wm1)), &[], rp.clone());
    }
    if m2.as_deref() != Ok(&wm2[..]) {
        fail(rep, "MapIter|inexact", format!("MapIter with inexact size hint wrote {:?}, expected {}", m2.map(|b| hex(&b)), hex(&wm2)), &[], rp);
    }
    // the same *object* encoded repeatedly (also after a write fault part-way): identical bytes
    fn again<T: minicbor::Encode<()>>(rep: &mut Report, what: &str, obj: &T, want: &[u8], cut: usize, rp: &[String]) {
        let first = minicbor::to_vec(obj).map_err(|e| e.to_string());
        let mut small = vec![0u8; cut.min(want.len().saturating_sub(1))];
        let faulted = minicbor::encode(obj, &mut small[..]).is_err();
        let second = minicbor::to_vec(obj).map_err(|e| e.to_string());
        if first.as_deref() != Ok(want) || second.as_deref() != Ok(want) {
            fail(rep, &format!("{}|encoded-twice", what), format!("the same object was encoded as {:?}, then (after an attempt into a {}-byte slice, failed: {}) as {:?}; expected {} both times", first.map(|b| hex(&b)), small.len(), faulted, second.map(|b| hex(&b)), hex(want)), &[], rp.to_vec());
        }
    }
    let cut = rng.usize_below(w2.len().max(1));
    again(rep, "ArrayIter|exact", &ArrayIter::new(v.iter()), &w1, cut, &rp0);
    again(rep, "ArrayIter|inexact", &ArrayIter::new(v.iter().filter(|_| true)), &w2, cut, &rp0);
    again(rep, "MapIter|exact", &MapIter::new(v.iter().map(|x| (*x, x % 2 == 0))), &wm1c, cut, &rp0);
    again(rep, "MapIter|inexact", &MapIter::new(v.iter().filter(|_| true).map(|x| (*x, x % 2 == 0))), &wm2c, cut, &rp0);
    rep.seen(hash_mix(77, fnv64(&w1)));
}

pub fn run(a: &Args, rep: &mut Report) {
    // A. encoder methods over their argument spaces
    if a.shard == 0 {
        method_small(rep);
        rep.exhaustive.push("Encoder::{u8,i8,u16,i16} all arguments, simple(0..=255) directly and via Token, bool/null/undefined".into());
    }
    {
        // all chars -> uint
        let mut n = 0;
        for c in (0..0x11_0000u32).filter(|c| a.mine(*c as u64)).filter_map(char::from_u32) {
            expect_item(rep, "Encoder::char", format!("U+{:04X}", c as u32), enc(|e| e.char(c).map(|_| ())), &Item::uint(c as u64));
            n += 1;
        }
        rep.enumerated(n);
        rep.exhaustive.push("Encoder::char all scalar values".into());
    }
    method_strings(rep, a);
    let mut n = 0;
    for (k, v) in gen::boundaries_u64().iter().enumerate() {
        if !a.mine(k as u64) {
            continue;
        }
        method_u64(rep, *v);
        if *v <= u32::MAX as u64 {
            method_u32(rep, *v as u32);
            method_u32(rep, (*v as u32).wrapping_neg());
        }
        n += 1;
    }
    rep.enumerated(n);
    let nrand: u64 = if a.thorough() { 10_000_000 } else { 1_000_000 };
    for i in 0..nrand {
        if !a.mine(i) {
            continue;
        }
        let mut rng = Rng::derive("c03/u64", a.seed, 0, i);
        let v = gen::gen_u64(&mut rng);
        method_u64(rep, v);
        method_u32(rep, rng.next_u32());
        rep.seen(v);
        if i & 0xffff == 0 {
            mon::tick()
        }
    }
    if a.thorough() {
        let total = 1u64 << 32;
        let lo = total / a.nshards * a.shard;
        let hi = if a.shard + 1 == a.nshards { total } else { total / a.nshards * (a.shard + 1) };
        let mut out = [0u8; 5];
        let mut want = Vec::with_capacity(5);
        let mut bad = 0u64;
        for x in lo..hi {
            if x & 0xfffff == 0 {
                mon::tick()
            }
            let v = x as u32;
            for signed in [false, true] {
                let (neg, arg) = if !signed || (v as i32) >= 0 { (false, v as u64) } else { (true, (-1 - (v as i32) as i64) as u64) };
                let ok = if signed { Encoder::new(&mut out[..]).i32(v as i32).is_ok() } else { Encoder::new(&mut out[..]).u32(v).is_ok() };
                want.clear();
                refcbor::head(if neg { 1 } else { 0 }, refcbor::min_width(arg), arg, &mut want);
                if !ok || out[..want.len()] != want[..] {
                    bad += 1;
                    if bad < 4 {
                        fail(rep, if signed { "Encoder::i32" } else { "Encoder::u32" }, format!("argument bits {:08x}: wrote {}, expected {}", v, hex(&out[..want.len()]), hex(&want)), &out, vec!["c03".into(), "--replay".into(), "method".into(), "u32".into(), v.to_string()]);
                    }
                }
            }
        }
        rep.evals(2 * (hi - lo));
        rep.enumerated(2 * (hi - lo));
        rep.count_n("sweep/Encoder::u32 and i32 all 2^32 arguments", 2 * (hi - lo));
        rep.exhaustive.push("Encoder::u32 and Encoder::i32 for all 2^32 arguments".into());
    }
    // B. built-in Encode impls
    let n: u64 = if a.thorough() { 1_000_000 } else { 60_000 };
    macro_rules! m {
        ($t:ty) => {
            run_impl::<$t>(a, rep, n)
        };
    }
    for_each_subject!(m);
    if a.shard == 0 {
        iana_tags(rep);
    }
    if a.shard == 1 % a.nshards {
        huge_strings(rep);
    }
    // C. balanced call sequences and iterator adapters
    let nseq: u64 = if a.thorough() { 20_000_000 } else { 1_500_000 };
    for i in 0..nseq {
        if !a.mine(i) {
            continue;
        }
        sequence_case(rep, a.seed, i);
        if i % 8 == 0 {
            iter_case(rep, a.seed, i);
        }
        if i & 0xffff == 0 {
            mon::tick()
        }
    }
}

pub fn replay(a: &Args, rep: &mut Report) {
    let r = &a.replay;
    match r[0].as_str() {
        "simple" => simple_case(rep, r[1].parse().unwrap(), r[2] == "true"),
        "seq" => sequence_case(rep, a.seed, r[1].parse().unwrap()),
        "iter" => iter_case(rep, a.seed, r[1].parse().unwrap()),
        "impl" => {
            let want = r[1].as_str();
            let i: u64 = r[2].parse().unwrap();
            macro_rules! m {
                ($t:ty) => {
                    if type_name::<$t>() == want {
                        let mut rng = Rng::derive(&format!("c03/{}", want), a.seed, 0, i);
                        let v = <$t as Subject>::gen(&mut rng);
                        println!("replaying {} value {}", want, v.show());
                        check_impl::<$t>(want, &v, rep, &|| vec![]);
                    }
                };
            }
            for_each_subject!(m);
        }
        "method" => {
            let v: u64 = r[2].parse().unwrap_or(0);
            method_u64(rep, v);
            if v <= u32::MAX as u64 {
                method_u32(rep, v as u32)
            }
            if r[1].contains("u8") || r[1].contains("i8") || r[1].contains("16") || r[1].contains("bool") || r[1].contains("null") || r[1].contains("undefined") {
                method_small(rep)
            }
        }
        other => eprintln!("unknown replay kind {}", other),
    }
}
