//! Worker binary for the checks that run against the std+half+derive build.
//!
//! usage: vmain <check> --tier quick|thorough --seed N --shard k --nshards n --out report.json
//!        vmain <check> --out report.json --replay <args...>

use vcore::mon;
use vcore::report::{Args, Report};

#[macro_use]
pub mod subj;
pub mod c01;
pub mod c02;
pub mod c03;
pub mod c04;
pub mod c06;
pub mod c07;
pub mod c13;
pub mod aio;
pub mod c14;
pub mod c15;
pub mod c16;
pub mod refser;
pub mod c17;
pub mod c18;
pub mod c11;
pub mod c19;
pub mod corpus;
pub mod c05;
pub mod c12;
pub mod c20;
pub mod iterlaws;

#[cfg(not(any(miri, verif_no_alloc_monitor)))]
#[global_allocator]
static ALLOC: mon::CountingAlloc = mon::CountingAlloc;

fn main() {
    let argv: Vec<String> = std::env::args().collect();
    if argv.len() < 2 {
        eprintln!("usage: vmain <check> [--tier t] [--seed n] [--shard k] [--nshards n] [--out path] [--replay ...]");
        std::process::exit(2);
    }
    if argv[1] == "merge-hashes" {
        println!("{}", vcore::report::merge_hash_files(&argv[2..]));
        return;
    }
    let args = Args::parse(&argv);
    mon::install_panic_hook();
    #[cfg(not(any(miri, verif_no_alloc_monitor)))]
    mon::set_alloc_active(true);
    #[cfg(all(minicbor_verif, have_step_hook))]
    mon::register_step_hook(minicbor::verif::reset, minicbor::verif::steps);
    // not in the AddressSanitizer build: with ASan locals may live in heap-allocated "fake stack"
    // frames, so the address of a local says nothing about the stack depth
    #[cfg(all(minicbor_verif, have_stack_hook, not(verif_no_alloc_monitor)))]
    mon::register_stack_hook(minicbor::verif::stack_reset, minicbor::verif::stack_low);
    let wd: u64 = std::env::var("VERIF_WATCHDOG_SECS").ok().and_then(|s| s.parse().ok()).unwrap_or(600);
    if wd > 0 {
        mon::start_watchdog(wd);
    }
    let a2 = args.clone();
    let h = std::thread::Builder::new()
        .stack_size(1 << 30)
        .name("worker".into())
        .spawn(move || {
            let mut rep = Report::new(&a2.check, &a2.tier, a2.seed, a2.shard, a2.nshards);
            rep.note(format!("step_hook={} stack_hook={} io_hook={} alloc_monitor={}", mon::steps_available(), mon::stack_available(), cfg!(have_io_hook), mon::alloc_active()));
            let replay = !a2.replay.is_empty();
            match a2.check.as_str() {
                "c01" => if replay { c01::replay(&a2, &mut rep) } else { c01::run(&a2, &mut rep) },
                "c02" => if replay { c02::replay(&a2, &mut rep) } else { c02::run(&a2, &mut rep) },
                "c03" => if replay { c03::replay(&a2, &mut rep) } else { c03::run(&a2, &mut rep) },
                "c04" => if replay { c04::replay(&a2, &mut rep) } else { c04::run(&a2, &mut rep) },
                "c06" => if replay { c06::replay(&a2, &mut rep, true) } else { c06::run(&a2, &mut rep, true) },
                "c07" => if replay { c07::replay(&a2, &mut rep) } else { c07::run(&a2, &mut rep) },
                "c13" => if replay { c13::replay(&a2, &mut rep) } else { c13::run(&a2, &mut rep) },
                "c14" => if replay { c14::replay(&a2, &mut rep) } else { c14::run(&a2, &mut rep) },
                "c15" => if replay { c15::replay(&a2, &mut rep) } else { c15::run(&a2, &mut rep) },
                "c16" => if replay { c16::replay(&a2, &mut rep) } else { c16::run(&a2, &mut rep) },
                "c17" => if replay { c17::replay(&a2, &mut rep) } else { c17::run(&a2, &mut rep) },
                "c18" => if replay { c18::replay(&a2, &mut rep) } else { c18::run(&a2, &mut rep) },
                "c11" => if replay { c11::replay(&a2, &mut rep) } else { c11::run(&a2, &mut rep) },
                "c19" => if replay { c19::replay(&a2, &mut rep) } else { c19::run(&a2, &mut rep) },
                "c05" => if replay { c05::replay(&a2, &mut rep) } else { c05::run(&a2, &mut rep) },
                "c12" => if replay { c12::replay(&a2, &mut rep) } else { c12::run(&a2, &mut rep) },
                "c20" => if replay { c20::replay(&a2, &mut rep) } else { c20::run(&a2, &mut rep) },
                "c06n" => if replay { c20::replay_c06n(&a2, &mut rep) } else { c20::run_c06n(&a2, &mut rep) },
                other => {
                    eprintln!("unknown check {}", other);
                    std::process::exit(2)
                }
            }
            rep
        })
        .expect("spawn worker");
    let rep = match h.join() {
        Ok(r) => r,
        Err(_) => {
            eprintln!("VERIF-HARNESS-PANIC worker thread panicked outside a guarded call");
            std::process::exit(98)
        }
    };
    if !args.out.is_empty() {
        rep.write(&args.out);
    } else {
        println!("{}", rep.to_json().render());
    }
}
