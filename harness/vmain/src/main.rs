fn main(){}
