//! C12 — floats survive bit-exactly; half precision converts per IEEE 754.
//!
//! Oracle: `vcore::refnum` (integer arithmetic on bit patterns, independent
//! of the `half` crate).  NaN: identical bits are required at equal width;
//! across widths only "NaN stays NaN" is required.

use minicbor::{Decoder, Encoder};
use vcore::json::{hex, J};
use vcore::mon;
use vcore::refnum::{self, Half};
use vcore::report::{Args, Report};
use vcore::rng::Rng;

const ID: &str = "C12";

fn fail(rep: &mut Report, op: &str, kind: &str, bits: u64, what: String) {
    rep.violation(
        &format!("{}|{}", ID, op),
        J::obj().with("op", J::s(op)).with("pattern", J::s(format!("{}:{:x}", kind, bits))).with("what", J::s(what)),
        vec!["c12".into(), "--replay".into(), kind.into(), format!("{:x}", bits)],
    );
}

pub fn check_half(rep: &mut Report, h: u16) {
    let b = [0xf9, (h >> 8) as u8, h as u8];
    let nan = refnum::is_nan16(h);
    let e32 = refnum::f16_bits_to_f32_bits(h);
    let e64 = refnum::f16_bits_to_f64_bits(h);
    let mut d = Decoder::new(&b);
    match d.f16() {
        Ok(x) if d.position() == 3 && ((nan && x.is_nan()) || x.to_bits() == e32) => {}
        r => fail(rep, "Decoder::f16", "f16", h as u64, format!("got {:?} (bits {:x?}), expected bits {:08x}", r.as_ref().map_err(|e| e.to_string()), r.as_ref().ok().map(|x| x.to_bits()), e32)),
    }
    let mut d = Decoder::new(&b);
    match d.f32() {
        Ok(x) if d.position() == 3 && ((nan && x.is_nan()) || x.to_bits() == e32) => {}
        r => fail(rep, "Decoder::f32(half item)", "f16", h as u64, format!("got {:?}, expected bits {:08x}", r.map(|x| x.to_bits()).map_err(|e| e.to_string()), e32)),
    }
    let mut d = Decoder::new(&b);
    match d.f64() {
        Ok(x) if d.position() == 3 && ((nan && x.is_nan()) || x.to_bits() == e64) => {}
        r => fail(rep, "Decoder::f64(half item)", "f16", h as u64, format!("got {:?}, expected bits {:016x}", r.map(|x| x.to_bits()).map_err(|e| e.to_string()), e64)),
    }
    // explicit half encoding of a half-representable value is exact
    let x = f32::from_bits(e32);
    let mut out = [0u8; 3];
    let ok = Encoder::new(&mut out[..]).f16(x).is_ok();
    let got = u16::from_be_bytes([out[1], out[2]]);
    if !ok || out[0] != 0xf9 || !((nan && refnum::is_nan16(got)) || got == h) {
        fail(rep, "Encoder::f16(half-representable)", "f16", h as u64, format!("wrote {}", hex(&out)));
    }
}

pub fn check_f32(rep: &mut Report, bits: u32, with_rounding: bool) {
    let x = f32::from_bits(bits);
    let mut out = [0u8; 5];
    let ok = Encoder::new(&mut out[..]).f32(x).is_ok();
    let be = bits.to_be_bytes();
    if !ok || out != [0xfa, be[0], be[1], be[2], be[3]] {
        fail(rep, "Encoder::f32", "f32", bits as u64, format!("wrote {}", hex(&out)));
        return;
    }
    let mut d = Decoder::new(&out);
    match d.f32() {
        Ok(y) if y.to_bits() == bits && d.position() == 5 => {}
        r => fail(rep, "Decoder::f32", "f32", bits as u64, format!("got {:?}", r.map(|y| format!("{:08x}", y.to_bits())).map_err(|e| e.to_string()))),
    }
    let mut d = Decoder::new(&out);
    let e64 = refnum::f32_bits_to_f64_bits(bits);
    match d.f64() {
        Ok(y) if d.position() == 5 && ((refnum::is_nan32(bits) && y.is_nan()) || y.to_bits() == e64) => {}
        r => fail(rep, "Decoder::f64(single item)", "f32", bits as u64, format!("got {:?}, expected {:016x}", r.map(|y| format!("{:016x}", y.to_bits())).map_err(|e| e.to_string()), e64)),
    }
    let mut d = Decoder::new(&out);
    if let Ok(y) = d.f16() {
        fail(rep, "Decoder::f16(single item)", "f32", bits as u64, format!("a wider float was accepted by the narrower accessor: {:?}", y));
    }
    if with_rounding {
        let mut h = [0u8; 3];
        let ok = Encoder::new(&mut h[..]).f16(x).is_ok();
        let got = u16::from_be_bytes([h[1], h[2]]);
        let exp = refnum::f32_to_f16_rne(bits);
        let good = match exp {
            Half::NaN => refnum::is_nan16(got),
            Half::Bits(e) => got == e,
        };
        if !ok || h[0] != 0xf9 || !good {
            fail(rep, "Encoder::f16(rounding)", "f32", bits as u64, format!("wrote {}, expected {:?}", hex(&h), exp));
        }
        // the other explicit half-precision entry point: a Token::F16 holding this value
        let t = minicbor::data::Token::F16(x);
        let mut h2 = [0u8; 8];
        let mut e = Encoder::new(minicbor::encode::write::Cursor::new(&mut h2[..]));
        let ok2 = e.encode(&t).is_ok();
        let n2 = e.writer().position();
        let got2 = u16::from_be_bytes([h2[1], h2[2]]);
        let good2 = match exp {
            Half::NaN => refnum::is_nan16(got2),
            Half::Bits(e) => got2 == e,
        };
        if !ok2 || n2 != 3 || h2[0] != 0xf9 || !good2 || minicbor::len(&t) != 3 {
            fail(rep, "Token::F16(rounding)", "f32", bits as u64, format!("Token::F16 wrote {} ({} bytes, len() = {}), expected a half item {:?}", hex(&h2[..n2.min(8)]), n2, minicbor::len(&t), exp));
        }
    }
}

pub fn check_f64(rep: &mut Report, bits: u64) {
    let x = f64::from_bits(bits);
    let mut out = [0u8; 9];
    let ok = Encoder::new(&mut out[..]).f64(x).is_ok();
    let be = bits.to_be_bytes();
    if !ok || out[0] != 0xfb || out[1..] != be {
        fail(rep, "Encoder::f64", "f64", bits, format!("wrote {}", hex(&out)));
        return;
    }
    let mut d = Decoder::new(&out);
    match d.f64() {
        Ok(y) if y.to_bits() == bits && d.position() == 9 => {}
        r => fail(rep, "Decoder::f64", "f64", bits, format!("got {:?}", r.map(|y| format!("{:016x}", y.to_bits())).map_err(|e| e.to_string()))),
    }
    let mut d = Decoder::new(&out);
    if let Ok(y) = d.f32() {
        fail(rep, "Decoder::f32(double item)", "f64", bits, format!("a wider float was accepted by the narrower accessor: {:?}", y));
    }
    let mut d = Decoder::new(&out);
    if let Ok(y) = d.f16() {
        fail(rep, "Decoder::f16(double item)", "f64", bits, format!("a wider float was accepted by the narrower accessor: {:?}", y));
    }
    // typed decode
    match minicbor::decode::<f64>(&out) {
        Ok(y) if y.to_bits() == bits => {}
        _ => fail(rep, "decode::<f64>", "f64", bits, "typed decode differs".into()),
    }
    // the serde front end is an accessor like the others: exact at equal width, and a double is
    // never narrowed into an f32 target
    match minicbor_serde::from_slice::<f64>(&out) {
        Ok(y) if y.to_bits() == bits => {}
        r => fail(rep, "serde f64(double item)", "f64", bits, format!("got {:?}", r.map(|y| format!("{:016x}", y.to_bits())).map_err(|e| e.to_string()))),
    }
    if let Ok(y) = minicbor_serde::from_slice::<f32>(&out) {
        fail(rep, "serde f32(double item)", "f64", bits, format!("a wider float was accepted by the narrower accessor: {:?}", y));
    }
    if let Ok(y) = minicbor_serde::from_slice::<(f32,)>(&[&[0x81][..], &out[..]].concat()) {
        fail(rep, "serde (f32,)(double item)", "f64", bits, format!("a wider float was accepted by the narrower accessor: {:?}", y));
    }
}

/// One array of floats of mixed widths read through the narrower (f32) element type.
fn check_mixed_seq(rep: &mut Report, seed: u64, i: u64) {
    let mut rng = Rng::derive("c12/seq", seed, 0, i);
    let k = 1 + rng.below(4) as usize;
    let mut items: Vec<vcore::refcbor::Item> = Vec::new();
    let mut ok32: Vec<u32> = Vec::new(); // values an f32 reader may yield (as f32 bits)
    for _ in 0..k {
        match rng.below(3) {
            0 => {
                let h = rng.next_u32() as u16;
                items.push(vcore::refcbor::Item::F16(h));
                ok32.push(refnum::f16_bits_to_f32_bits(h));
            }
            1 => {
                let b = vcore::gen::gen_f32_bits(&mut rng);
                items.push(vcore::refcbor::Item::F32(b));
                ok32.push(b);
            }
            _ => items.push(vcore::refcbor::Item::F64(vcore::gen::gen_f64_bits(&mut rng))),
        }
    }
    let indef = rng.bool();
    let enc = if indef { vcore::refcbor::Item::array_indef(items.clone()) } else { vcore::refcbor::Item::array(items.clone()) }.encode();
    let input: Box<[u8]> = enc.into_boxed_slice();
    rep.seen(vcore::rng::fnv64(&input));
    let mut d = minicbor::Decoder::new(&input);
    let mut bad: Option<String> = None;
    if let Ok(it) = d.array_iter::<f32>() {
        for (j, x) in it.take(2 * k + 3).enumerate() {
            if let Ok(v) = x {
                let vb = v.to_bits();
                let nan_ok = refnum::is_nan32(vb) && ok32.iter().any(|b| refnum::is_nan32(*b));
                if !ok32.contains(&vb) && !nan_ok {
                    bad = Some(format!("array_iter::<f32>() step {} yielded {:08x}, which is none of the half / single items of the array", j, vb));
                    break;
                }
            }
        }
    }
    // the same through repeated f32() calls on one decoder (stop at the first success-less round)
    if bad.is_none() {
        let mut d = minicbor::Decoder::new(&input);
        if d.array().is_ok() {
            for j in 0..(2 * k + 3) {
                match d.f32() {
                    Ok(v) => {
                        let vb = v.to_bits();
                        let nan_ok = refnum::is_nan32(vb) && ok32.iter().any(|b| refnum::is_nan32(*b));
                        if !ok32.contains(&vb) && !nan_ok {
                            bad = Some(format!("f32() call {} on the same decoder returned {:08x}, which is none of the half / single items of the array", j, vb));
                            break;
                        }
                    }
                    Err(_) => {}
                }
            }
        }
    }
    if let Some(what) = bad {
        rep.violation(&format!("{}|narrower accessor yields a foreign value", ID), J::obj().with("what", J::s(what)).with("input", J::s(vcore::json::hex(&input))), vec!["c12".into(), "--seed".into(), seed.to_string(), "--replay".into(), "seq".into(), i.to_string()]);
    }
}

fn guarded_block(rep: &mut Report, what: &str, f: impl FnOnce(&mut Report)) {
    if let Err(p) = mon::guarded(|| f(rep)) {
        rep.violation(&format!("{}|panic", ID), J::obj().with("what", J::s(format!("panic in {}: {} at {}", what, p.message, p.location))), vec![]);
    }
}

pub fn run(a: &Args, rep: &mut Report) {
    // all 65536 half patterns
    guarded_block(rep, "half sweep", |rep| {
        let mut n = 0;
        for h in 0..=0xffffu32 {
            if !a.mine(h as u64) {
                continue;
            }
            check_half(rep, h as u16);
            n += 1;
        }
        rep.evals(n);
        rep.enumerated(n);
        rep.count_n("half/all 65536 patterns", n);
    });
    rep.exhaustive.push("all 2^16 half patterns through f16()/f32()/f64() and exact re-encoding".into());
    if a.thorough() {
        // all 2^32 single patterns: identity, widening, rejection by f16(), and f16 rounding
        guarded_block(rep, "f32 sweep", |rep| {
            let total = 1u64 << 32;
            let lo = total / a.nshards * a.shard;
            let hi = if a.shard + 1 == a.nshards { total } else { total / a.nshards * (a.shard + 1) };
            for b in lo..hi {
                if b & 0xfffff == 0 {
                    mon::tick()
                }
                check_f32(rep, b as u32, true);
            }
            rep.evals(hi - lo);
            rep.enumerated(hi - lo);
            rep.count_n("f32/all 2^32 patterns", hi - lo);
        });
        rep.exhaustive.push("all 2^32 single patterns: identity, widening, narrowing rejected, Encoder::f16 rounding vs exact RNE".into());
        // every f32-representable value as a double
        guarded_block(rep, "f64 of f32 sweep", |rep| {
            let total = 1u64 << 32;
            let lo = total / a.nshards * a.shard;
            let hi = if a.shard + 1 == a.nshards { total } else { total / a.nshards * (a.shard + 1) };
            let mut n = 0;
            for b in (lo..hi).step_by(1) {
                if b & 0xfffff == 0 {
                    mon::tick()
                }
                if refnum::is_nan32(b as u32) {
                    continue;
                }
                check_f64(rep, refnum::f32_bits_to_f64_bits(b as u32));
                n += 1;
            }
            rep.evals(n);
            rep.enumerated(n);
            rep.count_n("f64/all f32-representable values", n);
        });
        rep.exhaustive.push("all non-NaN f32-representable doubles".into());
    } else {
        // stratified subset: every sign x exponent, the top 11 mantissa bits
        // exhaustively x low bits around the half rounding boundary
        guarded_block(rep, "f32 stratified", |rep| {
            const LOW: [u32; 11] = [0x000, 0x001, 0x002, 0x003, 0x004, 0x7ff, 0x800, 0x801, 0xffc, 0xffe, 0xfff];
            let mut n = 0u64;
            let mut idx = 0u64;
            for se in 0..512u32 {
                for top in 0..2048u32 {
                    idx += 1;
                    if !a.mine(idx) {
                        continue;
                    }
                    for low in LOW {
                        let bits = (se << 23) | (top << 12) | low;
                        check_f32(rep, bits, true);
                        n += 1;
                    }
                }
                mon::tick();
            }
            // the region that rounds to half subnormals: dense in the top 16 mantissa bits
            for e in 100..=113u32 {
                for s in 0..2u32 {
                    for top in 0..65536u32 {
                        idx += 1;
                        if !a.mine(idx) {
                            continue;
                        }
                        for low in [0u32, 1, 0x3f, 0x40, 0x41, 0x7f] {
                            let bits = (s << 31) | (e << 23) | (top << 7) | low;
                            check_f32(rep, bits, true);
                            n += 1;
                        }
                    }
                }
                mon::tick();
            }
            rep.evals(n);
            rep.enumerated(n);
            rep.count_n("f32/stratified subset", n);
        });
    }
    // doubles: exponent edges and random patterns
    guarded_block(rep, "f64", |rep| {
        let mut n = 0u64;
        let mut idx = 0u64;
        for e in 0..2048u64 {
            for s in 0..2u64 {
                for m in [0u64, 1, 2, 0x8_0000_0000_0000, 0x7_ffff_ffff_ffff, 0xf_ffff_ffff_ffff, 0xf_ffff_ffff_fffe, 0x0_0000_2000_0000, 0x0_0000_1000_0000, 0x0_0000_1fff_ffff] {
                    idx += 1;
                    if !a.mine(idx) {
                        continue;
                    }
                    check_f64(rep, (s << 63) | (e << 52) | m);
                    n += 1;
                }
            }
        }
        rep.enumerated(n);
        rep.count_n("f64/all exponents x mantissa edges", n);
        let nrand: u64 = if a.thorough() { 40_000_000 } else { 4_000_000 };
        let mut r = 0;
        for i in 0..nrand {
            if !a.mine(i) {
                continue;
            }
            let mut rng = Rng::derive("c12/f64", a.seed, 0, i);
            let b = vcore::gen::gen_f64_bits(&mut rng);
            check_f64(rep, b);
            rep.seen(b);
            r += 1;
            if i & 0xfffff == 0 {
                mon::tick()
            }
        }
        rep.count_n("f64/random patterns", r);
        rep.evals(n + r);
    });
    // sequences of floats of mixed widths read through a narrower element type: whatever the
    // iterator / repeated accessor yields as Ok must be one of the items a narrower accessor may
    // accept - never a number made of a wider item's payload bytes
    guarded_block(rep, "mixed-width sequences", |rep| {
        let nseq: u64 = if a.thorough() { 2_000_000 } else { 200_000 };
        let mut n = 0u64;
        for i in 0..nseq {
            if !a.mine(i) {
                continue;
            }
            check_mixed_seq(rep, a.seed, i);
            n += 1;
        }
        rep.evals(n);
        rep.count_n("mixed-width float sequences", n);
    });
    rep.sample(J::obj().with("pattern", J::s("f16:0001")).with("expect", J::s("f16()/f32() = 2^-24 exactly (bits 33800000), f64() bits 3e70000000000000")));
    rep.sample(J::obj().with("pattern", J::s("f32:477fefff")).with("expect", J::s("Encoder::f16 rounds 65519.996 to 7bff; 477ff000 (65520) to 7c00 (inf)")));
    rep.sample(J::obj().with("pattern", J::s("f32:7f800001")).with("expect", J::s("signalling NaN: identical bits through f32 encode/decode; NaN through f64()/f16")));
}

pub fn replay(a: &Args, rep: &mut Report) {
    if a.replay[0] == "seq" {
        rep.eval();
        return check_mixed_seq(rep, a.seed, a.replay[1].parse().unwrap());
    }
    let bits = u64::from_str_radix(&a.replay[1], 16).unwrap();
    rep.eval();
    match a.replay[0].as_str() {
        "f16" => check_half(rep, bits as u16),
        "f32" => check_f32(rep, bits as u32, true),
        _ => check_f64(rep, bits),
    }
}
