//! C14 — framed blocking I/O round-trips under any fragmentation and detects
//! truncation.
//!
//! Reference model (`refframe`): the stream is a concatenation of frames
//! `len32be || payload`.  Expected `Reader::read` results are derived from the
//! stream alone: `Some(decode(payload))`, `Err(Decode)` for an undecodable
//! payload (the next frame is unaffected), `Ok(None)` exactly at a frame
//! boundary, `Err(Io(UnexpectedEof))` inside a prefix or payload,
//! `Err(InvalidLen)` above `max_len`.

use minicbor_io::{Error, Reader, Writer};
use std::io::{self, Read};
use vcore::json::{hex, J};
use vcore::mon;
use vcore::report::{Args, Report};
use vcore::rng::{fnv64, Rng};

const ID: &str = "C14";

// ---------------------------------------------------------------------------
// reference framing

#[derive(Clone, Debug, PartialEq)]
pub enum Expect {
    Value(Vec<u16>),
    DecodeErr,
    CleanEnd,
    UnexpectedEof,
    InvalidLen,
}

/// Expected sequence of read results for a byte stream (ends with the first
/// terminal outcome: CleanEnd, UnexpectedEof or InvalidLen).
pub fn refframe(stream: &[u8], max_len: usize) -> Vec<Expect> {
    let mut out = Vec::new();
    let mut p = 0usize;
    loop {
        let rem = stream.len() - p;
        if rem == 0 {
            out.push(Expect::CleanEnd);
            return out;
        }
        if rem < 4 {
            out.push(Expect::UnexpectedEof);
            return out;
        }
        let len = u32::from_be_bytes([stream[p], stream[p + 1], stream[p + 2], stream[p + 3]]) as usize;
        if len > max_len {
            out.push(Expect::InvalidLen);
            return out;
        }
        p += 4;
        if stream.len() - p < len {
            out.push(Expect::UnexpectedEof);
            return out;
        }
        out.push(ref_decode(&stream[p..p + len]));
        p += len;
    }
}

/// As `refframe`, with the limit changing from `m1` to `m2` for the frames whose length prefix
/// is judged after `switch_at` frames have been accepted.
pub fn refframe2(stream: &[u8], switch_at: usize, m1: usize, m2: usize) -> Vec<Expect> {
    let mut out = Vec::new();
    let mut p = 0usize;
    loop {
        let max_len = if out.len() < switch_at { m1 } else { m2 };
        let rem = stream.len() - p;
        if rem == 0 {
            out.push(Expect::CleanEnd);
            return out;
        }
        if rem < 4 {
            out.push(Expect::UnexpectedEof);
            return out;
        }
        let len = u32::from_be_bytes([stream[p], stream[p + 1], stream[p + 2], stream[p + 3]]) as usize;
        if len > max_len {
            out.push(Expect::InvalidLen);
            return out;
        }
        p += 4;
        if stream.len() - p < len {
            out.push(Expect::UnexpectedEof);
            return out;
        }
        out.push(ref_decode(&stream[p..p + len]));
        p += len;
    }
}

/// Reference decode of a payload as `Vec<u16>` (definite or indefinite array
/// of unsigned integers <= 65535), through the independent CBOR model.
pub fn ref_decode(payload: &[u8]) -> Expect {
    use vcore::refcbor::{parse, Item};
    match parse(payload) {
        Ok((Item::Array { items, .. }, _)) => {
            let mut v = Vec::new();
            for i in items {
                match i {
                    Item::UInt { v: x, .. } if x <= 65535 => v.push(x as u16),
                    _ => return Expect::DecodeErr,
                }
            }
            Expect::Value(v)
        }
        _ => Expect::DecodeErr,
    }
}

pub fn frame(payload: &[u8], out: &mut Vec<u8>) {
    out.extend_from_slice(&(payload.len() as u32).to_be_bytes());
    out.extend_from_slice(payload);
}

// ---------------------------------------------------------------------------
// scripted source

#[derive(Clone, Copy, Debug, PartialEq)]
pub enum Step {
    Deliver(usize),
    Interrupted,
}

pub struct ScriptRead<'a> {
    pub data: &'a [u8],
    pub pos: usize,
    pub script: &'a [Step],
    pub i: usize,
    pub reads: usize,
    pub max_request: usize,
}

impl<'a> Read for ScriptRead<'a> {
    fn read(&mut self, buf: &mut [u8]) -> io::Result<usize> {
        self.reads += 1;
        self.max_request = self.max_request.max(buf.len());
        if buf.is_empty() {
            return Ok(0);
        }
        let step = if self.i < self.script.len() {
            let s = self.script[self.i];
            self.i += 1;
            s
        } else {
            Step::Deliver(usize::MAX)
        };
        match step {
            Step::Interrupted => Err(io::ErrorKind::Interrupted.into()),
            Step::Deliver(k) => {
                let n = k.max(1).min(buf.len()).min(self.data.len() - self.pos);
                buf[..n].copy_from_slice(&self.data[self.pos..self.pos + n]);
                self.pos += n;
                Ok(n)
            }
        }
    }
}

fn classify(r: &Result<Option<Vec<u16>>, Error>) -> Expect {
    match r {
        Ok(Some(v)) => Expect::Value(v.clone()),
        Ok(None) => Expect::CleanEnd,
        Err(Error::Decode(_)) => Expect::DecodeErr,
        Err(Error::InvalidLen) => Expect::InvalidLen,
        Err(Error::Io(e)) if e.kind() == io::ErrorKind::UnexpectedEof => Expect::UnexpectedEof,
        Err(_) => Expect::Value(vec![0xdead]), // never expected: forces a mismatch
    }
}

fn fail(rep: &mut Report, kind: &str, what: String, stream: &[u8], script: &[Step], max_len: usize) {
    let sc: Vec<String> = script.iter().map(|s| match s {
        Step::Deliver(k) => format!("{}", k),
        Step::Interrupted => "I".to_string(),
    }).collect();
    let replay = if stream.len() <= 2000 && script.len() <= 400 { vec!["c14".into(), "--replay".into(), "read".into(), hex(stream), sc.join(","), max_len.to_string()] } else { vec![] };
    rep.violation(&format!("{}|reader|{}", ID, kind), J::obj().with("what", J::s(what)).with("stream", J::s(hex(&stream[..stream.len().min(200)]))).with("script", J::s(sc.join(",").chars().take(300).collect::<String>())).with("max_len", J::U(max_len as u64)), replay);
}

/// Stale content for `with_buffer`: bytes that look like frames and CBOR, length 0..=47.
pub fn junk_buffer(k: usize) -> Vec<u8> {
    let n = (k * 31 + 7) % 48;
    (0..n).map(|j| [0x00u8, 0x00, 0x00, 0x02, 0x82, 0x01, 0x18, 0xff, 0x9f, 0x61][(j + k) % 10]).collect()
}

/// Run the reader over `stream` delivered per `script`; compare with the model.
pub fn check_read(rep: &mut Report, stream: &[u8], script: &[Step], max_len: usize) {
    rep.eval();
    let expect = refframe(stream, max_len);
    // half of the runs reuse a caller-supplied buffer with stale content (`with_buffer`)
    let dirty = (stream.len() + script.len() + max_len) % 2 == 1;
    let sc = mon::AllocScope::begin();
    let r = mon::guarded(|| {
        let src = ScriptRead { data: stream, pos: 0, script, i: 0, reads: 0, max_request: 0 };
        let mut rd = if dirty { Reader::with_buffer(src, junk_buffer(stream.len() * 7 + script.len())) } else { Reader::new(src) };
        rd.set_max_len(max_len as u32);
        let mut got = Vec::new();
        for _ in 0..expect.len() {
            let r: Result<Option<Vec<u16>>, Error> = rd.read();
            got.push(classify(&r));
        }
        // after a clean end the reader keeps reporting a clean end
        if expect.last() == Some(&Expect::CleanEnd) {
            let r: Result<Option<Vec<u16>>, Error> = rd.read();
            if classify(&r) != Expect::CleanEnd {
                got.push(Expect::Value(vec![0xbeef]));
            }
        }
        let (src, buf) = rd.into_parts();
        (got, src.pos, src.max_request, buf.len(), buf.capacity())
    });
    let al = sc.end();
    match r {
        Err(p) => fail(rep, "panic", format!("{} at {}", p.message, p.location), stream, script, max_len),
        Ok((got, consumed, maxreq, buflen, bufcap)) => {
            if got != expect {
                fail(rep, "results", format!("read results {:?}, the framing model expects {:?}", got, expect), stream, script, max_len);
                return;
            }
            if consumed > stream.len() {
                fail(rep, "consumed", format!("{} bytes consumed of {}", consumed, stream.len()), stream, script, max_len);
            }
            // a caller-supplied buffer keeps its own (stale) length until the reader sizes it for a frame
            let supplied = if dirty { junk_buffer(stream.len() * 7 + script.len()).len() } else { 0 };
            if buflen > max_len.max(supplied) || maxreq > max_len.max(4) {
                fail(rep, "buffer", format!("buffer length {} / largest read request {} exceed max_len {}", buflen, maxreq, max_len), stream, script, max_len);
            }
            if mon::alloc_active() && al.peak > 2 * max_len + 4096 + 4 * stream.len() {
                fail(rep, "memory", format!("peak allocation {} bytes with max_len {} (buffer capacity {})", al.peak, max_len, bufcap), stream, script, max_len);
            }
            rep.max("reader/peak heap bytes over max_len", al.peak as f64 / max_len.max(1) as f64);
            for e in &expect {
                rep.count(match e {
                    Expect::Value(_) => "reader/value",
                    Expect::DecodeErr => "reader/decode-error then resync",
                    Expect::CleanEnd => "reader/clean end",
                    Expect::UnexpectedEof => "reader/unexpected eof",
                    Expect::InvalidLen => "reader/invalid len",
                });
            }
        }
    }
}

// ---------------------------------------------------------------------------
// writer

struct Nothing;
impl<C> minicbor::Encode<C> for Nothing {
    fn encode<W: minicbor::encode::Write>(&self, _: &mut minicbor::Encoder<W>, _: &mut C) -> Result<(), minicbor::encode::Error<W::Error>> {
        Ok(())
    }
}

struct Refuses;
impl<C> minicbor::Encode<C> for Refuses {
    fn encode<W: minicbor::encode::Write>(&self, e: &mut minicbor::Encoder<W>, _: &mut C) -> Result<(), minicbor::encode::Error<W::Error>> {
        e.array(3)?.u8(1)?;
        Err(minicbor::encode::Error::message("refuses to encode"))
    }
}

/// A sink that accepts bytes in scripted portions and may report Interrupted.
struct ScriptWrite<'a> {
    out: Vec<u8>,
    script: &'a [Step],
    i: usize,
}

impl<'a> io::Write for ScriptWrite<'a> {
    fn write(&mut self, buf: &[u8]) -> io::Result<usize> {
        let step = if self.i < self.script.len() {
            let s = self.script[self.i];
            self.i += 1;
            s
        } else {
            Step::Deliver(usize::MAX)
        };
        match step {
            Step::Interrupted => Err(io::ErrorKind::Interrupted.into()),
            Step::Deliver(k) => {
                let n = k.max(1).min(buf.len());
                self.out.extend_from_slice(&buf[..n]);
                Ok(n)
            }
        }
    }
    // a sink with a native vectored write: takes the scripted number of bytes across the slices
    fn write_vectored(&mut self, bufs: &[io::IoSlice<'_>]) -> io::Result<usize> {
        let step = if self.i < self.script.len() {
            let s = self.script[self.i];
            self.i += 1;
            s
        } else {
            Step::Deliver(usize::MAX)
        };
        match step {
            Step::Interrupted => Err(io::ErrorKind::Interrupted.into()),
            Step::Deliver(k) => {
                let total: usize = bufs.iter().map(|b| b.len()).sum();
                let mut left = k.max(1).min(total);
                let n = left;
                for b in bufs {
                    let t = left.min(b.len());
                    self.out.extend_from_slice(&b[..t]);
                    left -= t;
                    if left == 0 {
                        break;
                    }
                }
                Ok(n)
            }
        }
    }
    fn flush(&mut self) -> io::Result<()> {
        Ok(())
    }
}

pub fn check_write(rep: &mut Report, seed: u64, i: u64) {
    rep.eval();
    let mut rng = Rng::derive("c14/write", seed, 0, i);
    // one sequence in 50 mixes values of 60 KiB .. 1.2 MiB (around and above the default limit
    // and any plausible internal buffer policy) with small ones, under limits below / at / above them
    let big = i % 50 == 7;
    let n = if big { 3 + rng.below(4) as usize } else { 1 + rng.below(6) as usize };
    let max_len = if big { *rng.pick(&[100usize, 512 * 1024, 2 << 20]) } else { *rng.pick(&[8usize, 16, 64, 512 * 1024]) };
    let script: Vec<Step> = (0..rng.below(40)).map(|_| if rng.chance(1, 5) { Step::Interrupted } else if big { Step::Deliver(*rng.pick(&[4096usize, 65_536, 100_000]) + rng.below(3) as usize) } else { Step::Deliver(1 + rng.below(9) as usize) }).collect();
    // one sequence in 6 has a storm of interrupted calls somewhere (retried however long it lasts)
    let script: Vec<Step> = if i % 6 == 3 {
        let at = rng.usize_below(script.len() + 1);
        let storm = *rng.pick(&[16usize, 17, 40, 129, 300]);
        let mut sc = script[..at].to_vec();
        sc.extend(std::iter::repeat(Step::Interrupted).take(storm));
        sc.extend_from_slice(&script[at..]);
        sc
    } else {
        script
    };
    let rp = vec!["c14".into(), "--seed".into(), seed.to_string(), "--replay".into(), "write".into(), i.to_string()];
    let r = mon::guarded(|| {
        let sink = ScriptWrite { out: Vec::new(), script: &script, i: 0 };
        let mut w = if i % 2 == 1 { Writer::with_buffer(sink, junk_buffer(i as usize)) } else { Writer::new(sink) };
        w.set_max_len(max_len as u32);
        let mut want: Vec<u8> = Vec::new();
        for _ in 0..n {
            match rng.below(6) {
                0 => {
                    // a value that fails to encode: no bytes may reach the sink
                    let before = w.writer().out.len();
                    match w.write(Refuses) {
                        Err(Error::Encode(_)) => {}
                        other => return Err(format!("write of a refusing value returned {:?}", other.map_err(|e| e.to_string()))),
                    }
                    if w.writer().out.len() != before {
                        return Err("a value that failed to encode put bytes into the sink".into());
                    }
                }
                1 if i % 3 == 0 => {
                    // a value whose Encode impl writes no bytes: a frame of length 0, delivered like any other
                    match w.write(Nothing) {
                        Ok(0) => {}
                        other => return Err(format!("write of a value that encodes to no bytes returned {:?}", other.map_err(|e| e.to_string()))),
                    }
                    frame(&[], &mut want);
                    if w.writer().out != want {
                        return Err(format!("after a zero-length frame the sink holds {} but the frames written so far are {}", hex(&w.writer().out[..w.writer().out.len().min(100)]), hex(&want[..want.len().min(100)])));
                    }
                }
                _ => {
                    let k = if big && rng.chance(1, 2) { 20_000 + rng.below(400_000) } else { rng.below(24) };
                    let v: Vec<u16> = (0..k).map(|_| rng.next_u32() as u16 >> rng.below(16)).collect();
                    let payload = minicbor::to_vec(&v).unwrap();
                    let before = w.writer().out.len();
                    let r = w.write(&v);
                    if payload.len() > max_len {
                        match r {
                            Err(Error::InvalidLen) => {}
                            other => return Err(format!("a {} byte value with max_len {} returned {:?}", payload.len(), max_len, other.map_err(|e| e.to_string()))),
                        }
                        if w.writer().out.len() != before {
                            return Err("an oversized value put bytes into the sink".into());
                        }
                    } else {
                        match r {
                            Ok(k) if k == payload.len() => {}
                            other => return Err(format!("write returned {:?}, payload length {}", other.map_err(|e| e.to_string()), payload.len())),
                        }
                        frame(&payload, &mut want);
                        if w.writer().out != want {
                            return Err(format!("sink holds {} but the frames written so far are {}", hex(&w.writer().out[..w.writer().out.len().min(100)]), hex(&want[..want.len().min(100)])));
                        }
                    }
                }
            }
        }
        Ok(want)
    });
    match r {
        Err(p) => rep.violation(&format!("{}|writer|panic", ID), J::obj().with("what", J::s(p.message)), rp),
        Ok(Err(e)) => rep.violation(&format!("{}|writer", ID), J::obj().with("what", J::s(e)), rp),
        Ok(Ok(stream)) => {
            rep.seen(fnv64(&stream) ^ 0x77);
            // and the reader gets the same values back under a random fragmentation
            let mut r2 = Rng::derive("c14/write-read", seed, 0, i);
            let script: Vec<Step> = (0..stream.len()).map(|_| if r2.chance(1, 6) { Step::Interrupted } else { Step::Deliver(1 + r2.below(7) as usize) }).collect();
            check_read(rep, &stream, &script, 512 * 1024);
        }
    }
}

// ---------------------------------------------------------------------------
// workloads

fn small_streams() -> Vec<Vec<u8>> {
    // streams of at most 20 bytes: frames with payloads [], [1], [1,2], [_ 1], undecodable, zero-length
    let payloads: Vec<Vec<u8>> = vec![vec![0x80], vec![0x81, 0x01], vec![0x82, 0x01, 0x18, 0xff], vec![0x9f, 0x01, 0xff], vec![0x61, 0x61], vec![], vec![0x83, 0x00, 0x19, 0x01, 0x00, 0x02], vec![0x81]];
    let mut out = Vec::new();
    for a in 0..payloads.len() {
        let mut s = Vec::new();
        frame(&payloads[a], &mut s);
        out.push(s.clone());
        for b in 0..payloads.len() {
            let mut t = s.clone();
            frame(&payloads[b], &mut t);
            if t.len() <= 20 {
                out.push(t.clone());
                for c in [0usize, 1, 4] {
                    let mut u = t.clone();
                    frame(&payloads[c], &mut u);
                    if u.len() <= 20 {
                        out.push(u)
                    }
                }
            }
        }
    }
    // hostile prefixes
    out.push(vec![0xff, 0xff, 0xff, 0xff]);
    out.push(vec![0x00, 0x00, 0x00, 0x41, 0x80]);
    out.push(vec![0x00, 0x00, 0x00, 0x01, 0x80, 0x7f, 0xff, 0xff, 0xff, 0x00]);
    out
}

pub fn run(a: &Args, rep: &mut Report) {
    // 1. exhaustive fragmentation of small streams: every composition of the
    //    stream length into read sizes, every truncation point, max_len around the frame size
    let streams = small_streams();
    let mut idx = 0u64;
    let mut n = 0u64;
    let comp_cap: u64 = if a.thorough() { 1 << 19 } else { 1 << 12 };
    for s in &streams {
        for cut in 0..=s.len() {
            let t = &s[..cut];
            idx += 1;
            if !a.mine(idx) {
                continue;
            }
            let l = t.len();
            let total: u64 = if l == 0 { 1 } else { 1u64 << (l - 1) };
            let stride = (total / comp_cap).max(1);
            let mut c = 0u64;
            while c < total {
                // composition c: bit j set = boundary after byte j
                let mut script = Vec::new();
                let mut run = 1usize;
                for j in 0..l.saturating_sub(1) {
                    if (c >> j) & 1 == 1 {
                        script.push(Step::Deliver(run));
                        run = 1
                    } else {
                        run += 1
                    }
                }
                if l > 0 {
                    script.push(Step::Deliver(run))
                }
                for max_len in [64usize, 3, 2] {
                    check_read(rep, t, &script, max_len);
                    n += 1;
                }
                c += stride;
            }
            mon::tick();
        }
    }
    rep.enumerated(n);
    rep.exhaustive.push(format!("{} streams of <= 20 bytes x every truncation point x compositions of the stream into read sizes (all 2^(L-1) up to {} per stream, strided beyond) x max_len in {{64, 3, 2}}", streams.len(), comp_cap));
    // 2. Interrupted placements: 0/1/2 repetitions before each read (exhaustive for short scripts)
    let mut n = 0u64;
    for (k, s) in streams.iter().enumerate() {
        if !a.mine(k as u64) || s.len() > 12 {
            continue;
        }
        // reads of one byte each; interrupted counts per read as base-3 digits (sampled beyond 3^10)
        let l = s.len();
        let total = 3u64.pow(l.min(10) as u32);
        for code in 0..total {
            let mut script = Vec::new();
            let mut x = code;
            for _ in 0..l {
                for _ in 0..(x % 3) {
                    script.push(Step::Interrupted)
                }
                x /= 3;
                script.push(Step::Deliver(1));
            }
            check_read(rep, s, &script, 64);
            n += 1;
        }
    }
    rep.enumerated(n);
    rep.count_n("reader/interrupted placements (exhaustive 0-2 repetitions per read)", n);
    // 2b. Interrupted storms: `Interrupted` is retried however often it occurs.  One-byte reads; a run
    //     of 3 .. 300 interrupted calls in front of the read at every byte offset (inside a prefix,
    //     inside a payload, in front of the end of the stream), and runs of 4 .. 9 in front of *every*
    //     read (so that one prefix sees several dozen in total)
    let mut n = 0u64;
    for (k, s) in streams.iter().enumerate() {
        if !a.mine(k as u64 + 5) {
            continue;
        }
        let l = s.len();
        for storm in [3usize, 15, 16, 17, 33, 64, 65, 300] {
            for at in 0..=l {
                let mut script = Vec::new();
                for j in 0..=l {
                    if j == at {
                        script.extend(std::iter::repeat(Step::Interrupted).take(storm));
                    }
                    script.push(Step::Deliver(1));
                }
                check_read(rep, s, &script, 64);
                n += 1;
            }
        }
        for each in [4usize, 5, 9] {
            let mut script = Vec::new();
            for _ in 0..=l {
                script.extend(std::iter::repeat(Step::Interrupted).take(each));
                script.push(Step::Deliver(1));
            }
            check_read(rep, s, &script, 64);
            n += 1;
        }
    }
    rep.enumerated(n);
    rep.count_n("reader/interrupted storms (3..300 in a row at every offset; 4..9 before every read)", n);
    // 3. random long streams
    let nrand: u64 = if a.thorough() { 800_000 } else { 80_000 };
    for i in 0..nrand {
        if !a.mine(i) {
            continue;
        }
        let mut rng = Rng::derive("c14/long", a.seed, 0, i);
        let frames = 1 + rng.below(24);
        let mut stream = Vec::new();
        for _ in 0..frames {
            let payload: Vec<u8> = match rng.below(8) {
                0 => vec![0x61, 0x62],
                1 => vec![],
                _ => {
                    // mostly small; some frames of several KiB; now and then one far above any
                    // plausible internal chunk size (up to ~90 KiB)
                    let k = if rng.chance(1, 60) { 3000 + rng.below(27_000) } else if rng.chance(1, 20) { rng.below(3000) } else { rng.below(30) };
                    let v: Vec<u16> = (0..k).map(|_| rng.next_u32() as u16).collect();
                    minicbor::to_vec(&v).unwrap()
                }
            };
            frame(&payload, &mut stream);
        }
        if rng.chance(1, 3) {
            let c = rng.usize_below(stream.len() + 1);
            stream.truncate(c);
        }
        let max_len = *rng.pick(&[16usize, 100, 8192, 512 * 1024]);
        let big = stream.len() > 12_000;
        let script: Vec<Step> = (0..stream.len().min(4000)).map(|_| match rng.below(8) {
            0 => Step::Interrupted,
            1 => Step::Deliver(usize::MAX),
            2 | 3 if big => Step::Deliver(*rng.pick(&[512usize, 4096, 8191, 8192, 8193, 16384, 20000]) + rng.below(3) as usize),
            _ => Step::Deliver(1 + rng.below(13) as usize),
        }).collect();
        rep.seen(fnv64(&stream));
        check_read(rep, &stream, &script, max_len);
        check_write(rep, a.seed, i);
        if i & 0xff == 0 {
            mon::tick()
        }
    }
    // a value whose encoding does not fit a 32-bit frame length (thorough tier, one shard, only
    // with enough free memory: the writer's scratch buffer really holds the 4 GiB)
    if a.thorough() && a.shard == 3 % a.nshards {
        huge_value_write(rep);
    }
    rep.sample(J::obj().with("stream", J::s("00000002810100000001")).with("script", J::s("1,I,2,1,I,I,3,…")).with("expect", J::s("[Value([1]), UnexpectedEof]")));
}

struct CountSink(u64);
impl std::io::Write for CountSink {
    fn write(&mut self, b: &[u8]) -> io::Result<usize> {
        self.0 += b.len() as u64;
        Ok(b.len())
    }
    fn flush(&mut self) -> io::Result<()> {
        Ok(())
    }
}

fn mem_available_kib() -> u64 {
    std::fs::read_to_string("/proc/meminfo").ok().and_then(|t| t.lines().find(|l| l.starts_with("MemAvailable:")).and_then(|l| l.split_whitespace().nth(1).and_then(|x| x.parse().ok()))).unwrap_or(0)
}

/// "The writer never emits a frame larger than its maximum": a value of 2^32 + 100 payload bytes
/// can never be framed (the length prefix has 32 bits); whatever the limit, it must be refused with
/// InvalidLen and nothing may reach the sink.
fn huge_value_write(rep: &mut Report) {
    if mem_available_kib() < 28 * 1024 * 1024 {
        rep.note("huge-value write skipped: less than 28 GiB of memory available");
        return;
    }
    let n = (1usize << 32) + 100;
    let region = match mon::ZeroRegion::new(n) {
        Some(r) => r,
        None => {
            rep.note("huge-value write skipped: cannot map the zero region");
            return;
        }
    };
    mon::set_alloc_cap(20 << 30);
    for limit in [None, Some(u32::MAX), Some(200u32)] {
        rep.eval();
        let r = mon::guarded(|| {
            let mut w = Writer::new(CountSink(0));
            if let Some(l) = limit {
                w.set_max_len(l);
            }
            let bs: &minicbor::bytes::ByteSlice = region.as_slice().into();
            let r = w.write(bs);
            let sunk = w.writer().0;
            (r.map_err(|e| matches!(e, Error::InvalidLen)), sunk)
        });
        match r {
            Err(p) => rep.violation(&format!("{}|writer|huge-value-panic", ID), J::obj().with("what", J::s(p.message)), vec![]),
            Ok((Err(true), 0)) => rep.count("writer/value beyond a 32-bit frame length refused with InvalidLen"),
            Ok((res, sunk)) => rep.violation(
                &format!("{}|writer|huge-value", ID),
                J::obj().with("what", J::s(format!("writing a value of 2^32+109 encoded bytes with max_len {:?} returned {:?} (Err(true) = InvalidLen) and {} bytes reached the sink", limit, res, sunk))),
                vec![],
            ),
        }
    }
    mon::set_alloc_cap(mon::ALLOC_HARD_CAP);
}

pub fn replay(a: &Args, rep: &mut Report) {
    match a.replay[0].as_str() {
        "read" => {
            let stream = vcore::json::unhex(&a.replay[1]).expect("hex");
            let script: Vec<Step> = a.replay[2].split(',').filter(|s| !s.is_empty()).map(|s| if s == "I" { Step::Interrupted } else { Step::Deliver(s.parse().unwrap()) }).collect();
            let max_len: usize = a.replay[3].parse().unwrap();
            println!("expected: {:?}", refframe(&stream, max_len));
            check_read(rep, &stream, &script, max_len);
        }
        _ => check_write(rep, a.seed, a.replay[1].parse().unwrap()),
    }
}
