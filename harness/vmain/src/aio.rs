//! Shared infrastructure for the async I/O checks: a choice oracle that
//! enumerates schedules depth-first by re-execution, a hand-written
//! single-threaded executor, and scripted `AsyncRead` / `AsyncWrite` objects
//! whose every `poll` outcome is a choice.

use futures_io::{AsyncRead, AsyncWrite};
use std::cell::RefCell;
use std::future::Future;
use std::io;
use std::pin::Pin;
use std::rc::Rc;
use std::task::{Context, Poll, RawWaker, RawWakerVTable, Waker};

/// Odometer over choice vectors.  A run consults `choose(n)` at each choice
/// point; `advance()` moves to the next unexplored vector (depth-first).
#[derive(Default)]
pub struct Chooser {
    path: Vec<(u8, u8)>,
    depth: usize,
    /// Optional PRNG for random walks (no enumeration).
    random: Option<vcore::rng::Rng>,
    /// Deviation bound: at most this many non-default (non-zero) choices per
    /// schedule; beyond it every choice point is forced to its default.
    max_dev: Option<u32>,
    dev_used: u32,
    /// Random walks only: probability (percent) of taking the default (first) choice.
    default_pct: u64,
}

impl Chooser {
    /// Random walk that mostly follows the base policy (default choice) and deviates now and then:
    /// reaches long runs of the same outcome (e.g. hundreds of one-byte transfers in one call).
    pub fn random_biased(rng: vcore::rng::Rng, default_pct: u64) -> Self {
        Chooser { path: Vec::new(), depth: 0, random: Some(rng), max_dev: None, dev_used: 0, default_pct }
    }
    pub fn exhaustive() -> Self {
        Chooser::default()
    }
    pub fn random(rng: vcore::rng::Rng) -> Self {
        Chooser { path: Vec::new(), depth: 0, random: Some(rng), max_dev: None, dev_used: 0, default_pct: 0 }
    }
    pub fn bounded(max_dev: u32) -> Self {
        Chooser { max_dev: Some(max_dev), ..Chooser::default() }
    }
    pub fn from_path(p: &[u8]) -> Self {
        Chooser { path: p.iter().map(|c| (*c, c + 1)).collect(), depth: 0, random: None, max_dev: None, dev_used: 0, default_pct: 0 }
    }
    pub fn begin_run(&mut self) {
        self.depth = 0;
        self.dev_used = 0;
        if self.random.is_some() {
            self.path.clear()
        }
    }
    pub fn choose(&mut self, n: u8) -> u8 {
        debug_assert!(n >= 1);
        if let Some(r) = &mut self.random {
            let c = if self.default_pct > 0 && r.below(100) < self.default_pct { 0 } else { r.below(n as u64) as u8 };
            self.path.push((c, n));
            self.depth += 1;
            return c;
        }
        if self.depth < self.path.len() {
            let c = self.path[self.depth].0.min(n - 1);
            self.depth += 1;
            if c != 0 {
                self.dev_used += 1
            }
            c
        } else {
            // a new choice point: once the deviation budget is spent it has only its default
            let arity = match self.max_dev {
                Some(m) if self.dev_used >= m => 1,
                _ => n,
            };
            self.path.push((0, arity));
            self.depth += 1;
            0
        }
    }
    /// Move to the next choice vector; false when the tree is exhausted.
    pub fn advance(&mut self) -> bool {
        self.path.truncate(self.depth);
        while let Some((c, n)) = self.path.pop() {
            if c + 1 < n {
                self.path.push((c + 1, n));
                return true;
            }
        }
        false
    }
    pub fn trace(&self) -> Vec<u8> {
        self.path[..self.depth.min(self.path.len())].iter().map(|(c, _)| *c).collect()
    }
    pub fn hash(&self) -> u64 {
        vcore::rng::fnv64(&self.trace())
    }
}

pub type Choices = Rc<RefCell<Chooser>>;

fn noop_raw() -> RawWaker {
    fn clone(_: *const ()) -> RawWaker {
        noop_raw()
    }
    fn noop(_: *const ()) {}
    static VT: RawWakerVTable = RawWakerVTable::new(clone, noop, noop, noop);
    RawWaker::new(std::ptr::null(), &VT)
}

pub fn noop_waker() -> Waker {
    unsafe { Waker::from_raw(noop_raw()) }
}

pub fn poll_once<F: Future + ?Sized>(f: Pin<&mut F>) -> Poll<F::Output> {
    let w = noop_waker();
    let mut cx = Context::from_waker(&w);
    f.poll(&mut cx)
}

/// Limits of the scheduler.
#[derive(Clone, Copy, Debug)]
pub struct Bounds {
    /// max. consecutive Pending answers
    pub pendings: u8,
    /// max. transient errors per run
    pub errors: u8,
    /// max. times the caller drops a pending future per run
    pub drops: u8,
    /// max. zero-length accepts per run (writer only)
    pub zeros: u8,
    /// default (first) delivery choice: 0 = everything requested, 1 = one byte
    pub base: u8,
}

/// Scripted source.
pub struct Src {
    pub data: Vec<u8>,
    pub pos: usize,
    pub ch: Choices,
    pub b: Bounds,
    pub consecutive_pending: u8,
    pub errors_injected: u8,
    pub polls: u64,
    /// once set the script only delivers (used for the bounded-progress check)
    pub calm: bool,
    pub max_request: usize,
    pub kind_salt: usize,
}

impl Src {
    pub fn new(data: Vec<u8>, ch: Choices, b: Bounds) -> Self {
        let kind_salt = data.len();
        Src { data, pos: 0, ch, b, consecutive_pending: 0, errors_injected: 0, polls: 0, calm: false, max_request: 0, kind_salt }
    }
}

impl AsyncRead for Src {
    fn poll_read(mut self: Pin<&mut Self>, _: &mut Context<'_>, buf: &mut [u8]) -> Poll<io::Result<usize>> {
        self.polls += 1;
        self.max_request = self.max_request.max(buf.len());
        let rem = self.data.len() - self.pos;
        if buf.is_empty() {
            return Poll::Ready(Ok(0));
        }
        // options: deliver 1, deliver 2, deliver all requested, Pending, transient error
        let mut opts: Vec<u8> = Vec::with_capacity(5);
        let want = buf.len().min(rem);
        if self.b.base == 1 && want > 1 && !self.calm {
            opts.push(1); // one byte first
            opts.push(0);
        } else {
            opts.push(0); // all requested (or end of stream when nothing is left)
            if !self.calm && want > 1 {
                opts.push(1)
            }
        }
        if !self.calm {
            if want > 2 {
                opts.push(2)
            }
            if self.consecutive_pending < self.b.pendings {
                opts.push(3)
            }
            if self.errors_injected < self.b.errors {
                opts.push(4)
            }
        }
        let pick = {
            let n = opts.len() as u8;
            let c = self.ch.borrow_mut().choose(n);
            opts[c as usize]
        };
        match pick {
            3 => {
                self.consecutive_pending += 1;
                Poll::Pending
            }
            4 => {
                self.consecutive_pending = 0;
                self.errors_injected += 1;
                // the *kind* of a transient error must not matter (it is the source's business):
                // rotate through kinds a reader could mistake for something else
                let kinds = [io::ErrorKind::Other, io::ErrorKind::UnexpectedEof, io::ErrorKind::TimedOut, io::ErrorKind::ConnectionReset, io::ErrorKind::WriteZero];
                let kind = kinds[(self.errors_injected as usize + self.kind_salt) % kinds.len()];
                Poll::Ready(Err(io::Error::new(kind, "transient")))
            }
            k => {
                self.consecutive_pending = 0;
                let n = match k {
                    0 => want,
                    1 => 1,
                    _ => 2,
                };
                let p = self.pos;
                buf[..n].copy_from_slice(&self.data[p..p + n]);
                self.pos += n;
                Poll::Ready(Ok(n))
            }
        }
    }

    fn poll_read_vectored(self: Pin<&mut Self>, cx: &mut Context<'_>, bufs: &mut [io::IoSliceMut<'_>]) -> Poll<io::Result<usize>> {
        self.vectored(cx, bufs)
    }
}

impl Src {
    /// Native vectored read (the default would only use the first slice): one decision for the
    /// total capacity, the bytes are spread across the slices.
    fn vectored(mut self: Pin<&mut Self>, cx: &mut Context<'_>, bufs: &mut [io::IoSliceMut<'_>]) -> Poll<io::Result<usize>> {
        let total: usize = bufs.iter().map(|b| b.len()).sum();
        let mut tmp = vec![0u8; total];
        match self.as_mut().poll_read(cx, &mut tmp) {
            Poll::Ready(Ok(n)) => {
                let mut off = 0;
                for b in bufs.iter_mut() {
                    if off >= n {
                        break;
                    }
                    let t = (n - off).min(b.len());
                    b[..t].copy_from_slice(&tmp[off..off + t]);
                    off += t;
                }
                Poll::Ready(Ok(n))
            }
            other => other,
        }
    }
}

/// Scripted sink.
pub struct Sink {
    pub out: Vec<u8>,
    pub ch: Choices,
    pub b: Bounds,
    pub consecutive_pending: u8,
    pub errors_injected: u8,
    pub zeros_injected: u8,
    pub polls: u64,
    pub calm: bool,
    pub kind_salt: usize,
    pub flushes: u64,
}

impl Sink {
    pub fn new(ch: Choices, b: Bounds) -> Self {
        Sink { out: Vec::new(), ch, b, consecutive_pending: 0, errors_injected: 0, zeros_injected: 0, polls: 0, calm: false, kind_salt: (b.drops as usize + b.pendings as usize), flushes: 0 }
    }
}

impl AsyncWrite for Sink {
    fn poll_write(mut self: Pin<&mut Self>, _: &mut Context<'_>, buf: &[u8]) -> Poll<io::Result<usize>> {
        self.polls += 1;
        if buf.is_empty() {
            return Poll::Ready(Ok(0));
        }
        let mut opts: Vec<u8> = Vec::with_capacity(6);
        if self.b.base == 1 && buf.len() > 1 && !self.calm {
            opts.push(1);
            opts.push(0);
        } else {
            opts.push(0); // accept everything offered
            if !self.calm && buf.len() > 1 {
                opts.push(1)
            }
        }
        if !self.calm {
            if buf.len() > 2 {
                opts.push(2)
            }
            if self.consecutive_pending < self.b.pendings {
                opts.push(3)
            }
            if self.errors_injected < self.b.errors {
                opts.push(4)
            }
            if self.zeros_injected < self.b.zeros {
                opts.push(5)
            }
        }
        let pick = {
            let n = opts.len() as u8;
            let c = self.ch.borrow_mut().choose(n);
            opts[c as usize]
        };
        match pick {
            3 => {
                self.consecutive_pending += 1;
                Poll::Pending
            }
            4 => {
                self.consecutive_pending = 0;
                self.errors_injected += 1;
                let kinds = [io::ErrorKind::Other, io::ErrorKind::WriteZero, io::ErrorKind::TimedOut, io::ErrorKind::BrokenPipe, io::ErrorKind::UnexpectedEof];
                let kind = kinds[(self.errors_injected as usize + self.kind_salt) % kinds.len()];
                Poll::Ready(Err(io::Error::new(kind, "transient")))
            }
            5 => {
                self.consecutive_pending = 0;
                self.zeros_injected += 1;
                Poll::Ready(Ok(0))
            }
            k => {
                self.consecutive_pending = 0;
                let n = match k {
                    0 => buf.len(),
                    1 => 1,
                    _ => 2,
                };
                self.out.extend_from_slice(&buf[..n]);
                Poll::Ready(Ok(n))
            }
        }
    }
    /// Native vectored write: one decision for everything that is offered.
    fn poll_write_vectored(self: Pin<&mut Self>, cx: &mut Context<'_>, bufs: &[io::IoSlice<'_>]) -> Poll<io::Result<usize>> {
        let mut tmp: Vec<u8> = Vec::new();
        for b in bufs {
            tmp.extend_from_slice(b)
        }
        self.poll_write(cx, &tmp)
    }

    /// A flush is a scripted event like a write: it succeeds, is Pending or fails transiently
    /// (within the same budgets).  `write` / `sync` of the library as it stands never flush, so
    /// these outcomes only matter to code that starts doing so.
    fn poll_flush(mut self: Pin<&mut Self>, _: &mut Context<'_>) -> Poll<io::Result<()>> {
        self.flushes += 1;
        let mut opts: Vec<u8> = vec![0];
        if !self.calm {
            if self.consecutive_pending < self.b.pendings {
                opts.push(3)
            }
            if self.errors_injected < self.b.errors {
                opts.push(4)
            }
        }
        let pick = {
            let n = opts.len() as u8;
            let c = if n > 1 { self.ch.borrow_mut().choose(n) } else { 0 };
            opts[c as usize]
        };
        match pick {
            3 => {
                self.consecutive_pending += 1;
                Poll::Pending
            }
            4 => {
                self.consecutive_pending = 0;
                self.errors_injected += 1;
                Poll::Ready(Err(io::Error::new(io::ErrorKind::Other, "transient")))
            }
            _ => {
                self.consecutive_pending = 0;
                Poll::Ready(Ok(()))
            }
        }
    }
    fn poll_close(self: Pin<&mut Self>, _: &mut Context<'_>) -> Poll<io::Result<()>> {
        Poll::Ready(Ok(()))
    }
}
