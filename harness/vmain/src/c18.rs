//! C18 — the serde bridge and the native traits interoperate on the shared
//! data model.  Differential check: each side is the other's oracle.

use crate::subj::Subject;
use minicbor::{Decode, Encode};
use serde::de::DeserializeOwned;
use serde::Serialize;
use std::any::type_name;
use std::collections::{BTreeMap, BTreeSet, VecDeque};
use std::num::*;
use vcore::gen;
use vcore::json::{hex, J};
use vcore::mon;
use vcore::refcbor;
use vcore::report::{Args, Report};
use vcore::rng::{fnv64, hash_mix, Rng};

const ID: &str = "C18";

fn viol(rep: &mut Report, ty: &str, kind: &str, what: String, bytes: &[u8], replay: &[String]) {
    rep.violation(&format!("{}|{}|{}", ID, kind, ty), J::obj().with("type", J::s(ty)).with("what", J::s(what)).with("bytes", J::s(hex(&bytes[..bytes.len().min(160)]))), replay.to_vec());
}

pub fn check_value<T>(ty: &str, v: &T, rep: &mut Report, rng: &mut Rng, replay: &[String])
where
    T: Subject + Encode<()> + for<'b> Decode<'b, ()> + Serialize + DeserializeOwned,
{
    rep.eval();
    let r = mon::guarded(|| (minicbor::to_vec(v).map_err(|e| e.to_string()), minicbor_serde::to_vec(v).map_err(|e| e.to_string())));
    let (nb, sb) = match r {
        Err(p) => return viol(rep, ty, "panic", p.message, &[], replay),
        Ok((Ok(a), Ok(b))) => (a, b),
        Ok((a, b)) => return viol(rep, ty, "encode-error", format!("native: {:?}, bridge: {:?}", a.map(|x| x.len()), b.map(|x| x.len())), &[], replay),
    };
    if nb != sb {
        return viol(rep, ty, "bytes-differ", format!("native Encode wrote {} but the bridge wrote {} for {}", hex(&nb[..nb.len().min(80)]), hex(&sb[..sb.len().min(80)]), v.show()), &nb, replay);
    }
    rep.seen(hash_mix(fnv64(ty.as_bytes()), fnv64(&nb)));
    let input: Box<[u8]> = nb.clone().into_boxed_slice();
    // bytes from either side decode through the other side to the same value
    let r = mon::guarded(|| {
        let a: Result<T, _> = minicbor::decode(&input);
        let b: Result<T, _> = minicbor_serde::from_slice(&input);
        (a.map_err(|e| e.to_string()), b.map_err(|e| e.to_string()))
    });
    match r {
        Err(p) => return viol(rep, ty, "panic", p.message, &nb, replay),
        Ok((Ok(a), Ok(b))) => {
            if !a.same(v) || !b.same(v) {
                return viol(rep, ty, "cross-decode", format!("original {} native-decoded {} bridge-decoded {}", v.show(), a.show(), b.show()), &nb, replay);
            }
        }
        Ok((a, b)) => return viol(rep, ty, "cross-decode", format!("decoding the common encoding of {}: native {:?}, bridge {:?}", v.show(), a.map(|x| x.show()), b.map(|x| x.show())), &nb, replay),
    }
    if rep.want_sample() && nb.len() > 4 && nb.len() < 40 {
        rep.sample(J::obj().with("type", J::s(ty)).with("value", J::s(v.show())).with("bytes", J::s(hex(&nb))));
    }
    // alternative encodings of the same item: the two sides never disagree on the value
    let (item, _) = match refcbor::parse(&nb) {
        Ok(x) => x,
        Err(_) => return,
    };
    for k in 0..3 {
        let alt = match k {
            0 => gen::widen(rng, &item),
            1 => gen::indefinite_containers(rng, &item, 60),
            _ => {
                let w = gen::widen(rng, &item);
                gen::indefinite_containers(rng, &w, 40)
            }
        };
        if alt == item {
            continue;
        }
        rep.eval();
        let ab: Box<[u8]> = alt.encode().into_boxed_slice();
        let r = mon::guarded(|| {
            let a: Result<T, _> = minicbor::decode(&ab);
            let b: Result<T, _> = minicbor_serde::from_slice(&ab);
            (a.ok(), b.ok())
        });
        match r {
            Err(p) => viol(rep, ty, "panic", p.message, &ab, replay),
            Ok((a, b)) => {
                let na = a.as_ref().map(|x| x.same(v));
                let sa = b.as_ref().map(|x| x.same(v));
                match (na, sa) {
                    (Some(false), _) => viol(rep, ty, "alt-native-wrong", format!("native decode of a re-framed encoding of {} returned the different value {}", v.show(), a.unwrap().show()), &ab, replay),
                    (_, Some(false)) => viol(rep, ty, "alt-bridge-wrong", format!("bridge decode of a re-framed encoding of {} returned the different value {}", v.show(), b.unwrap().show()), &ab, replay),
                    (Some(true), Some(true)) => rep.count("re-framed/both accept with the same value"),
                    (Some(true), None) => rep.count("re-framed/native accepts, bridge rejects"),
                    (None, Some(true)) => rep.count("re-framed/bridge accepts, native rejects"),
                    (None, None) => rep.count("re-framed/both reject"),
                }
            }
        }
    }
}

fn run_type<T>(a: &Args, rep: &mut Report, n: u64)
where
    T: Subject + Encode<()> + for<'b> Decode<'b, ()> + Serialize + DeserializeOwned,
{
    let ty = type_name::<T>();
    let label = format!("c18/{}", ty);
    for i in 0..n {
        if !a.mine(i) {
            continue;
        }
        let mut rng = Rng::derive(&label, a.seed, 0, i);
        let v = T::gen(&mut rng);
        let rp = vec!["c18".into(), "--seed".into(), a.seed.to_string(), "--replay".into(), ty.to_string(), i.to_string()];
        check_value::<T>(ty, &v, rep, &mut rng, &rp);
    }
    mon::tick();
}

#[macro_export]
macro_rules! for_each_shared {
    ($m:ident) => {
        $m!(u8); $m!(u16); $m!(u32); $m!(u64); $m!(i8); $m!(i16); $m!(i32); $m!(i64); $m!(usize); $m!(isize);
        $m!(bool); $m!(char); $m!(f32); $m!(f64); $m!(String); $m!(());
        $m!(Option<u8>); $m!(Option<String>); $m!(Option<Vec<u16>>); $m!(Option<(u8, bool)>);
        $m!(Vec<u8>); $m!(Vec<i64>); $m!(Vec<String>); $m!(Vec<Vec<u32>>); $m!(Vec<Option<u8>>); $m!(Vec<f64>);
        $m!(VecDeque<i32>); $m!(BTreeSet<u16>);
        $m!([u8; 0]); $m!([u16; 1]); $m!([i32; 3]); $m!([u8; 32]); $m!([String; 2]);
        $m!((u8,)); $m!((u8, String)); $m!((i64, bool, f32)); $m!((u8, i8, u16, i16, u32, i32, u64, i64, bool, char, f32, f64));
        $m!((u8, i8, u16, i16)); $m!((u8, i8, u16, i16, u32)); $m!((u8, i8, u16, i16, u32, i32)); $m!((u8, i8, u16, i16, u32, i32, u64)); $m!((u8, i8, u16, i16, u32, i32, u64, i64));
        $m!((u8, i8, u16, i16, u32, i32, u64, i64, bool)); $m!((u8, i8, u16, i16, u32, i32, u64, i64, bool, char)); $m!((u8, i8, u16, i16, u32, i32, u64, i64, bool, char, f32));
        $m!((u8, i8, u16, i16, u32, i32, u64, i64, bool, char, f32, f64, String)); $m!((u8, i8, u16, i16, u32, i32, u64, i64, bool, char, f32, f64, String, ()));
        $m!((u8, i8, u16, i16, u32, i32, u64, i64, bool, char, f32, f64, String, (), Option<u8>)); $m!((u8, i8, u16, i16, u32, i32, u64, i64, bool, char, f32, f64, String, (), Option<u8>, Vec<u8>));
        $m!(BTreeMap<u8, String>); $m!(BTreeMap<String, Vec<(u8, Option<i64>)>>); $m!(BTreeMap<i16, BTreeMap<u8, bool>>);
        $m!(Box<u32>); $m!(Wrapping<u16>); $m!(Wrapping<i64>);
        $m!(NonZeroU8); $m!(NonZeroU32); $m!(NonZeroU64); $m!(NonZeroI16); $m!(NonZeroI64);
        $m!(Vec<(String, Option<Vec<bool>>)>); $m!(Option<BTreeMap<u32, [i8; 2]>>);
    };
}

/// Borrowing members of the shared model (`&str` alone and inside Option / tuple / array / Vec):
/// both decoders on the common encoding, and on a chunked re-framing (either may reject).
fn borrowed_case(rep: &mut Report, seed: u64, i: u64) {
    let mut rng = Rng::derive("c18/borrowed", seed, 0, i);
    let lens = [0usize, 0, 1, 2, 23, 24, 255, 256];
    let (n1, n2) = (*rng.pick(&lens), *rng.pick(&lens));
    let s1 = gen::gen_string_len(&mut rng, n1);
    let s2 = gen::gen_string_len(&mut rng, n2);
    let rp = vec!["c18".into(), "--seed".into(), seed.to_string(), "--replay".into(), "borrowed".into(), i.to_string()];
    macro_rules! both {
        ($name:expr, $v:expr, $t:ty) => {{
            rep.eval();
            let v: $t = $v;
            let r = mon::guarded(|| {
                let nb = minicbor::to_vec(&v).map_err(|e| format!("native encode: {}", e))?;
                let sb = minicbor_serde::to_vec(&v).map_err(|e| format!("bridge encode: {}", e))?;
                if nb != sb {
                    return Err(format!("native wrote {} but the bridge wrote {}", hex(&nb[..nb.len().min(60)]), hex(&sb[..sb.len().min(60)])));
                }
                let a: Result<$t, _> = minicbor::decode(&nb);
                let b: Result<$t, _> = minicbor_serde::from_slice(&nb);
                match (a, b) {
                    (Ok(x), Ok(y)) if x == v && y == v => Ok(nb),
                    (x, y) => Err(format!("decoding the common encoding {}: native {:?}, bridge {:?}", hex(&nb[..nb.len().min(60)]), x.map_err(|e| e.to_string()), y.map_err(|e| e.to_string()))),
                }
            });
            match r {
                Err(p) => viol(rep, $name, "panic", p.message, &[], &rp),
                Ok(Err(e)) => viol(rep, $name, "cross-decode", e, &[], &rp),
                Ok(Ok(nb)) => {
                    rep.seen(hash_mix(fnv64($name.as_bytes()), fnv64(&nb)));
                    rep.count("borrowed shared types: both sides agree")
                }
            }
        }};
    }
    both!("&str", &s1[..], &str);
    both!("Option<&str>", if i % 3 == 0 { None } else { Some(&s1[..]) }, Option<&str>);
    both!("(&str, u8, &str)", (&s1[..], i as u8, &s2[..]), (&str, u8, &str));
    both!("[&str; 2]", [&s2[..], &s1[..]], [&str; 2]);
    both!("Vec<&str>", vec![&s1[..], &s2[..], ""], Vec<&str>);
    both!("BTreeMap<&str, &str>", [(&s1[..], &s2[..])].into_iter().collect(), BTreeMap<&str, &str>);
}

/// Sequences / maps of unknown length nested in each other: the native iterator adapters and the
/// bridge's `collect_seq` / `collect_map` must write the same indefinite items (each with its break).
struct UnsizedInner<'a>(&'a [u16]);
impl Serialize for UnsizedInner<'_> {
    fn serialize<S: serde::Serializer>(&self, s: S) -> Result<S::Ok, S::Error> {
        s.collect_seq(self.0.iter().filter(|_| true))
    }
}
struct UnsizedOuter<'a>(&'a [Vec<u16>]);
impl Serialize for UnsizedOuter<'_> {
    fn serialize<S: serde::Serializer>(&self, s: S) -> Result<S::Ok, S::Error> {
        s.collect_seq(self.0.iter().filter(|_| true).map(|v| UnsizedInner(v)))
    }
}
struct UnsizedMapOuter<'a>(&'a [Vec<u16>]);
impl Serialize for UnsizedMapOuter<'_> {
    fn serialize<S: serde::Serializer>(&self, s: S) -> Result<S::Ok, S::Error> {
        s.collect_map(self.0.iter().filter(|_| true).enumerate().map(|(k, v)| (k as u8, UnsizedInner(v))))
    }
}

fn unsized_case(rep: &mut Report, seed: u64, i: u64) {
    use minicbor::encode::{ArrayIter, MapIter};
    let mut rng = Rng::derive("c18/unsized", seed, 0, i);
    let v: Vec<Vec<u16>> = (0..rng.below(4)).map(|_| (0..rng.below(4)).map(|_| rng.next_u32() as u16).collect()).collect();
    let rp = vec!["c18".into(), "--seed".into(), seed.to_string(), "--replay".into(), "unsized".into(), i.to_string()];
    rep.eval();
    let r = mon::guarded(|| {
        let native_seq = minicbor::to_vec(ArrayIter::new(v.iter().filter(|_| true).map(|x| ArrayIter::new(x.iter().filter(|_| true))))).map_err(|e| e.to_string())?;
        let bridge_seq = minicbor_serde::to_vec(UnsizedOuter(&v)).map_err(|e| e.to_string())?;
        if native_seq != bridge_seq {
            return Err(format!("nested unknown-length sequences: native {} vs bridge {}", hex(&native_seq[..native_seq.len().min(60)]), hex(&bridge_seq[..bridge_seq.len().min(60)])));
        }
        let native_map = minicbor::to_vec(MapIter::new(v.iter().filter(|_| true).enumerate().map(|(k, x)| (k as u8, ArrayIter::new(x.iter().filter(|_| true)))))).map_err(|e| e.to_string())?;
        let bridge_map = minicbor_serde::to_vec(UnsizedMapOuter(&v)).map_err(|e| e.to_string())?;
        if native_map != bridge_map {
            return Err(format!("unknown-length map of unknown-length sequences: native {} vs bridge {}", hex(&native_map[..native_map.len().min(60)]), hex(&bridge_map[..bridge_map.len().min(60)])));
        }
        // both decoders read the common bytes back to the same value
        let a: Vec<Vec<u16>> = minicbor::decode(&native_seq).map_err(|e| format!("native decode: {}", e))?;
        let b: Vec<Vec<u16>> = minicbor_serde::from_slice(&bridge_seq).map_err(|e| format!("bridge decode: {}", e))?;
        if a != v || b != v {
            return Err("decoded value differs".to_string());
        }
        Ok(native_seq)
    });
    match r {
        Err(p) => viol(rep, "unknown-length nesting", "panic", p.message, &[], &rp),
        Ok(Err(e)) => viol(rep, "unknown-length nesting", "bytes-differ", e, &[], &rp),
        Ok(Ok(b)) => {
            rep.seen(hash_mix(99, fnv64(&b)));
            rep.count("nested unknown-length containers: native and bridge agree")
        }
    }
}

pub fn run(a: &Args, rep: &mut Report) {
    let n: u64 = if a.thorough() { 600_000 } else { 80_000 };
    for i in 0..n / 8 {
        if a.mine(i) {
            unsized_case(rep, a.seed, i)
        }
    }
    for i in 0..n / 8 {
        if a.mine(i) {
            borrowed_case(rep, a.seed, i)
        }
    }
    macro_rules! m {
        ($t:ty) => {
            run_type::<$t>(a, rep, n)
        };
    }
    for_each_shared!(m);
}

pub fn replay(a: &Args, rep: &mut Report) {
    let want = a.replay[0].as_str();
    let i: u64 = a.replay[1].parse().unwrap();
    if want == "borrowed" {
        return borrowed_case(rep, a.seed, i);
    }
    if want == "unsized" {
        return unsized_case(rep, a.seed, i);
    }
    macro_rules! m {
        ($t:ty) => {
            if type_name::<$t>() == want {
                let mut rng = Rng::derive(&format!("c18/{}", want), a.seed, 0, i);
                let v = <$t as Subject>::gen(&mut rng);
                println!("replaying {} value {}", want, v.show());
                check_value::<$t>(want, &v, rep, &mut rng, &[]);
            }
        };
    }
    for_each_shared!(m);
}
