//! Shared corpora of well-formed items and hostile inputs used by the
//! decoding-side checks (C02, C04, C06, C11, C19).

use vcore::gen::{self, TreeCfg};
use vcore::refcbor::Item;
use vcore::report::Args;
use vcore::rng::Rng;

/// Visit every exhaustively enumerated small tree that belongs to this shard.
/// Returns the number of trees visited (whole space = all shards together).
pub fn small_trees(a: &Args, max_nodes: usize, rich_upto: usize, f: &mut dyn FnMut(&Item)) -> u64 {
    // Rich alphabet (all head widths, floats, simple values) for small trees,
    // the compact alphabet for the larger ones.
    let mut idx = 0u64;
    let mut n = 0u64;
    let rich = gen::enumerate_items(rich_upto.min(max_nodes), &gen::leaf_alphabet(true), &[0, 1, 8]);
    for items in rich.iter() {
        for it in items {
            idx += 1;
            if a.mine(idx) {
                f(it);
                n += 1;
            }
        }
    }
    if max_nodes > rich_upto {
        let plain = gen::enumerate_items(max_nodes, &gen::leaf_alphabet(false), &[0]);
        for (size, items) in plain.iter().enumerate() {
            if size <= rich_upto {
                continue;
            }
            for it in items {
                idx += 1;
                if a.mine(idx) {
                    f(it);
                    n += 1;
                }
            }
        }
    }
    n
}

/// Random well-formed tree number `i` (valid UTF-8 text).
pub fn random_tree(label: &str, seed: u64, i: u64, nonpreferred: bool) -> (Item, Rng) {
    let mut rng = Rng::derive(label, seed, 0, i);
    let depth = 1 + rng.below(8) as usize;
    let mut cfg = if nonpreferred { TreeCfg::any(depth) } else { TreeCfg::preferred(depth) };
    cfg.big_strings = rng.chance(1, 200);
    cfg.max_children = 1 + rng.below(6) as usize;
    let it = gen::gen_item(&mut rng, &cfg, 0);
    (it, rng)
}

/// Adversarial nesting families aimed at the counting <-> stack mode switch of
/// `skip` and at deep recursion: returns (name, encoding).
pub fn nesting_families(rng: &mut Rng, deep: usize) -> Vec<(String, Vec<u8>)> {
    let mut v: Vec<(String, Vec<u8>)> = Vec::new();
    // chains of nested indefinite arrays / maps
    for (name, open) in [("9f-chain", 0x9fu8), ("bf-chain", 0xbf)] {
        for depth in [1usize, 2, 3, 17, 100, deep] {
            let mut b = Vec::new();
            for _ in 0..depth {
                b.push(open);
                if open == 0xbf {
                    b.push(0x00) // key
                }
            }
            b.push(0x01);
            for _ in 0..depth {
                b.push(0xff)
            }
            v.push((format!("{}x{}", name, depth), b));
        }
    }
    // every depth 0..=48 of open indefinite containers around a definite container that holds an
    // indefinite one (the shape at which skip changes its bookkeeping), closed properly
    for depth in 0..=48usize {
        for (open, key) in [(0x9fu8, false), (0xbf, true)] {
            let mut b = Vec::new();
            for _ in 0..depth {
                b.push(open);
                if key {
                    b.push(0x00)
                }
            }
            b.extend_from_slice(&[0x83, 0x9f, 0x01, 0xff, 0x02, 0xbf, 0x03, 0x9f, 0xff, 0xff]);
            for _ in 0..depth {
                b.push(0xff)
            }
            v.push((format!("depth-{} {:02x} around definite-of-indefinite", depth, open), b));
        }
    }
    // far beyond any plausible internal cap (2^16): indefinite containers around a definite one
    // that holds an indefinite one, and a pure chain
    if deep >= 3000 {
        for depth in [65_537usize, 70_000] {
            let mut b = vec![0x9f; depth];
            b.extend_from_slice(&[0x83, 0x9f, 0x01, 0xff, 0x02, 0x03]);
            b.extend(std::iter::repeat(0xff).take(depth));
            v.push((format!("depth-{} 9f around definite-of-indefinite", depth), b));
        }
    }
    // alternating definite / indefinite nesting
    for depth in [2usize, 3, 4, 9, 64, deep.min(2000)] {
        for start_indef in [false, true] {
            let mut b = Vec::new();
            let mut closers = Vec::new();
            for d in 0..depth {
                let indef = (d % 2 == 0) == start_indef;
                if indef {
                    b.push(0x9f);
                    b.push(0x00); // a sibling before the nested container
                    closers.push(Some(0xffu8));
                } else {
                    b.push(0x82);
                    b.push(0x01);
                    closers.push(None);
                }
            }
            b.push(0x02);
            for c in closers.iter().rev() {
                if let Some(x) = c {
                    b.push(*x)
                }
            }
            v.push((format!("alt-nest x{} indef-first={}", depth, start_indef), b));
        }
    }
    // definite containers holding several indefinite ones and trailing scalars
    for k in [1usize, 2, 5, 23, 24, 300] {
        let mut items = Vec::new();
        for j in 0..k {
            items.push(match j % 4 {
                0 => Item::array_indef(vec![Item::uint(1), Item::array_indef(vec![])]),
                1 => Item::map_indef(vec![(Item::uint(0), Item::array(vec![Item::map_indef(vec![])]))]),
                2 => Item::uint(j as u64),
                _ => Item::TextIndef(vec![(0, b"ab".to_vec())]),
            });
        }
        v.push((format!("definite-of-indefinite x{}", k), Item::array(items).encode()));
    }
    // tag chains before containers
    for k in [1usize, 5, 100, deep.min(5000)] {
        let mut it = Item::array_indef(vec![Item::uint(0), Item::map(vec![(Item::uint(1), Item::array_indef(vec![]))])]);
        for j in 0..k {
            it = Item::tag(j as u64 % 300, it);
        }
        v.push((format!("tag-chain x{}", k), it.encode()));
    }
    // maps with 2^k entries
    for k in [0u32, 1, 4, 5, 8, 12] {
        let n = 1usize << k;
        let items: Vec<(Item, Item)> = (0..n).map(|j| (Item::uint(j as u64), if j % 3 == 0 { Item::array_indef(vec![]) } else { Item::null() })).collect();
        v.push((format!("map 2^{}", k), Item::map(items).encode()));
    }
    // random deep mixtures
    for j in 0..6 {
        let cfg = TreeCfg { max_depth: 12, max_children: 3, indef_pct: 50, ..TreeCfg::any(12) };
        let it = gen::gen_item(rng, &cfg, 0);
        v.push((format!("random-deep {}", j), it.encode()));
    }
    v
}

/// All byte strings of length <= n, visiting only those of this shard
/// (sharded on the first byte so that every shard sees every length).
pub fn all_short_strings(a: &Args, n: usize, f: &mut dyn FnMut(&[u8])) -> u64 {
    let mut count = 0u64;
    if a.shard == 0 {
        f(&[]);
        count += 1;
    }
    let mut buf = [0u8; 4];
    for len in 1..=n {
        let total: u64 = 1u64 << (8 * len);
        for x in 0..total {
            let first = (x >> (8 * (len - 1))) as u8;
            if !a.mine(first as u64) {
                continue;
            }
            for k in 0..len {
                buf[k] = (x >> (8 * (len - 1 - k))) as u8;
            }
            f(&buf[..len]);
            count += 1;
        }
    }
    count
}
