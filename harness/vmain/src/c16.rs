//! C16 — `AsyncWriter` delivers whole frames in order under short writes and
//! cancel+sync.
//!
//! Same explorer as C15.  The scripted sink answers each `poll_write` with
//! {accept 1 / 2 / all, Pending, transient error, accept 0}; the caller follows
//! exactly the documented contract: keep polling, or drop the pending `write`
//! and then drive `sync` (itself droppable and re-issued) to completion before
//! the next `write`; after an error from `write`/`sync` it also syncs to
//! completion.  Online monitor: the sink's bytes are always a prefix of, and at
//! quiescence equal to, the concatenation of the frames of all values written.

use crate::aio::{poll_once, Bounds, Choices, Chooser, Sink};
use crate::c14::frame;
use minicbor_io::{AsyncWriter, Error};
use std::cell::RefCell;
use std::collections::HashSet;
use std::io;
use std::rc::Rc;
use std::task::Poll;
use vcore::json::{hex, J};
use vcore::mon;
use vcore::report::{Args, Report};
use vcore::rng::Rng;

const ID: &str = "C16";

#[derive(Clone, Debug)]
pub enum Val {
    Data(Vec<u16>),
    Refuses,
    /// Encodes as an array of k zeros where k grows by one with every `encode` call (interior
    /// state, like the built-in Cell / atomic impls or a stateful `write_with` context).
    Counting(Rc<std::cell::Cell<u8>>),
    /// An `Encode` impl that writes no bytes at all: a frame of length 0 (`00 00 00 00`), which must
    /// be delivered like every other frame.
    Nothing,
}

struct Nothing;
impl<C> minicbor::Encode<C> for Nothing {
    fn encode<W: minicbor::encode::Write>(&self, _: &mut minicbor::Encoder<W>, _: &mut C) -> Result<(), minicbor::encode::Error<W::Error>> {
        Ok(())
    }
}

struct Counting(Rc<std::cell::Cell<u8>>);
impl<C> minicbor::Encode<C> for Counting {
    fn encode<W: minicbor::encode::Write>(&self, e: &mut minicbor::Encoder<W>, _: &mut C) -> Result<(), minicbor::encode::Error<W::Error>> {
        let k = self.0.get();
        self.0.set((k + 1) % 20);
        e.array(k as u64)?;
        for _ in 0..k {
            e.u8(0)?;
        }
        Ok(())
    }
}

fn counting_payload(k: u8) -> Vec<u8> {
    let mut v = vec![0x80 + k];
    v.extend(std::iter::repeat(0u8).take(k as usize));
    v
}

struct Refuses;
impl<C> minicbor::Encode<C> for Refuses {
    fn encode<W: minicbor::encode::Write>(&self, e: &mut minicbor::Encoder<W>, _: &mut C) -> Result<(), minicbor::encode::Error<W::Error>> {
        e.array(2)?.u8(7)?;
        Err(minicbor::encode::Error::message("refuses to encode"))
    }
}

pub struct Stats {
    pub polls: u64,
    pub drops: u64,
    pub errors: u64,
    pub states: Vec<(u8, usize, usize)>,
}

enum Step {
    Done(Result<usize, Error>),
    Dropped,
}

/// Execute one schedule.
pub fn run_schedule(values: &[Val], ch: &Choices, b: Bounds, max_len: usize) -> Result<Stats, String> {
    run_schedule_relimit(values, ch, b, max_len, None)
}

/// `relimit = Some((q, m2))`: before the q-th cancel/error recovery (`sync`) the caller calls
/// `set_max_len(m2)`.  Documented meaning: values written afterwards are judged against m2; the
/// frame that is being delivered is unaffected.
pub fn run_schedule_relimit(values: &[Val], ch: &Choices, b: Bounds, max_len: usize, relimit: Option<(u32, usize)>) -> Result<Stats, String> {
    let mut cur_max = max_len;
    let mut recoveries = 0u32;
    // the writer reuses a caller-supplied buffer with stale content (`new` is `with_buffer` of an
    // empty one; the junk length varies with the values, 0 included)
    let mut w = AsyncWriter::with_buffer(Sink::new(ch.clone(), b), crate::c14::junk_buffer(values.len() * 5 + max_len));
    w.set_max_len(max_len as u32);
    let mut want: Vec<u8> = Vec::new(); // all frames committed so far
    let mut done_bytes = 0usize; // bytes of frames completed before the current one
    let mut stats = Stats { polls: 0, drops: 0, errors: 0, states: Vec::new() };
    let mut drops = 0u8;
    let total_len: usize = values.iter().map(|v| if let Val::Data(d) = v { 8 + 3 * d.len() } else { 0 }).sum();
    let poll_budget: u64 = 64 + (total_len as u64 + 8 * values.len() as u64 + 8) * (b.pendings as u64 + 2) * 4;
    let mut seen_errors = 0u64;

    // a value whose encoding depends on how often it was encoded: the frame may legitimately be any
    // of a few self-consistent candidates; (length of `want` before the frame, alternative frames)
    let mut alts: Option<(usize, Vec<Vec<u8>>)> = None;
    macro_rules! prefix_check {
        ($where:expr) => {{
            {
                let out = &w.writer().out;
                if out.len() > want.len() || out[..] != want[..out.len()] {
                    if let Some((base, cands)) = alts.take() {
                        for c in cands {
                            let mut w2 = want[..base].to_vec();
                            w2.extend_from_slice(&c);
                            if out.len() <= w2.len() && out[..] == w2[..out.len()] {
                                want = w2;
                                break;
                            }
                        }
                    }
                }
            }
            let out = &w.writer().out;
            if out.len() > want.len() || out[..] != want[..out.len()] {
                return Err(format!("{}: the sink holds {} which is not a prefix of the frames written so far {}", $where, hex(&out[..out.len().min(80)]), hex(&want[..want.len().min(80)])));
            }
        }};
    }
    #[allow(unused_macros)]
    macro_rules! state_check {
        ($where:expr) => {{
            // looking at the sink through the mutable accessor (without touching it) is not an
            // event of the protocol
            {
                let k: &mut Sink = w.writer_mut();
                let _ = k.out.len();
            }
            #[cfg(have_io_hook)]
            {
                let (tag, off, buflen, _) = w.verif_state();
                stats.states.push((tag, off, buflen));
                if tag == 1 {
                    if off > buflen {
                        return Err(format!("{}: state WriteFrom({}) beyond the buffer length {}", $where, off, buflen));
                    }
                    if w.writer().out.len() != done_bytes + off {
                        return Err(format!("{}: the sink holds {} bytes but {} completed + offset {} are accounted for", $where, w.writer().out.len(), done_bytes, off));
                    }
                } else if w.writer().out.len() != want.len() {
                    return Err(format!("{}: writer idle but the sink holds {} of {} bytes", $where, w.writer().out.len(), want.len()));
                }
            }
        }};
    }

    for v in values {
        // ---- write(v) -------------------------------------------------------
        let payload: Option<Vec<u8>> = match v {
            Val::Data(d) => Some(minicbor::to_vec(d).unwrap()),
            Val::Refuses => None,
            Val::Counting(c) => Some(counting_payload(c.get())),
            Val::Nothing => Some(Vec::new()),
        };
        if let Val::Counting(c) = v {
            let k0 = c.get();
            let mut cands = Vec::new();
            for j in 1..3u8 {
                let mut f = Vec::new();
                frame(&counting_payload((k0 + j) % 20), &mut f);
                cands.push(f);
            }
            alts = Some((want.len(), cands));
        } else {
            alts = None;
        }
        let committed = matches!(&payload, Some(p) if p.len() <= cur_max);
        let before_sink = w.writer().out.len();
        let before_want = want.len();
        let mut zero_pending = w.writer().zeros_injected;
        let step = {
            let mut fut: std::pin::Pin<Box<dyn std::future::Future<Output = Result<usize, Error>> + '_>> = match v {
                Val::Data(d) => Box::pin(w.write(d.clone())),
                Val::Refuses => Box::pin(w.write(Refuses)),
                Val::Counting(c) => Box::pin(w.write(Counting(c.clone()))),
                Val::Nothing => Box::pin(w.write(Nothing)),
            };
            let mut first = true;
            loop {
                stats.polls += 1;
                if stats.polls > poll_budget {
                    return Err(format!("no progress: {} polls", stats.polls));
                }
                let p = poll_once(fut.as_mut());
                if first {
                    first = false;
                    if committed {
                        frame(payload.as_ref().unwrap(), &mut want);
                    }
                }
                match p {
                    Poll::Ready(r) => break Step::Done(r),
                    Poll::Pending => {
                        if drops < b.drops && ch.borrow_mut().choose(2) == 1 {
                            drops += 1;
                            stats.drops += 1;
                            break Step::Dropped;
                        }
                    }
                }
            }
        };
        prefix_check!("after write");
        let mut need_sync = false;
        match step {
            Step::Dropped => need_sync = true,
            Step::Done(Ok(n)) => {
                if !committed {
                    return Err(format!("write of a value that must be refused returned Ok({})", n));
                }
                let framed = if let Val::Counting(_) = v { want.len() - before_want - 4 } else { payload.as_ref().unwrap().len() };
                if n != framed {
                    return Err(format!("write returned {} but the payload in the frame has {} bytes", n, framed));
                }
                if w.writer().out != want {
                    return Err(format!("write completed but the sink holds {} of {} bytes", w.writer().out.len(), want.len()));
                }
            }
            Step::Done(Err(e)) => match (&e, v) {
                (Error::Encode(_), Val::Refuses) => {
                    if w.writer().out.len() != before_sink {
                        return Err("a value that failed to encode put bytes into the sink".into());
                    }
                }
                (Error::InvalidLen, Val::Data(_) | Val::Counting(_) | Val::Nothing) if !committed => {
                    if w.writer().out.len() != before_sink {
                        return Err("an oversized value put bytes into the sink".into());
                    }
                }
                (Error::Io(ioe), _) if committed && ioe.to_string() == "transient" => {
                    seen_errors += 1;
                    stats.errors += 1;
                    need_sync = true
                }
                (Error::Io(ioe), _) if committed && ioe.kind() == io::ErrorKind::WriteZero => {
                    if w.writer().zeros_injected == zero_pending {
                        return Err("WriteZero reported although the sink never accepted zero bytes".into());
                    }
                    zero_pending = w.writer().zeros_injected;
                    need_sync = true
                }
                _ => return Err(format!("write returned the unexpected error {}", e)),
            },
        }
        state_check!("after write");
        // ---- sync to completion --------------------------------------------
        if need_sync {
            recoveries += 1;
            if let Some((q, m2)) = relimit {
                if q == recoveries {
                    w.set_max_len(m2 as u32);
                    cur_max = m2;
                }
            }
        }
        while need_sync {
            let step = {
                let mut fut = Box::pin(w.sync());
                loop {
                    stats.polls += 1;
                    if stats.polls > poll_budget {
                        return Err(format!("no progress: {} polls", stats.polls));
                    }
                    match poll_once(fut.as_mut()) {
                        Poll::Ready(r) => break Some(r),
                        Poll::Pending => {
                            if drops < b.drops && ch.borrow_mut().choose(2) == 1 {
                                drops += 1;
                                stats.drops += 1;
                                break None;
                            }
                        }
                    }
                }
            };
            prefix_check!("during sync");
            match step {
                None => {}
                Some(Ok(())) => {
                    if w.writer().out != want {
                        return Err(format!("sync completed but the sink holds {} of {} bytes", w.writer().out.len(), want.len()));
                    }
                    need_sync = false
                }
                Some(Err(Error::Io(ioe))) if ioe.to_string() == "transient" => {
                    seen_errors += 1;
                    stats.errors += 1;
                }
                Some(Err(Error::Io(ioe))) if ioe.kind() == io::ErrorKind::WriteZero => {
                    if w.writer().zeros_injected == zero_pending {
                        return Err("WriteZero reported although the sink never accepted zero bytes".into());
                    }
                    zero_pending = w.writer().zeros_injected;
                }
                Some(Err(e)) => return Err(format!("sync returned the unexpected error {}", e)),
            }
            state_check!("during sync");
        }
        if w.writer().zeros_injected != zero_pending {
            return Err("the sink accepted zero bytes but no WriteZero error was reported".into());
        }
        done_bytes = want.len();
        // ---- sync on an idle writer touches nothing ---------------------------
        let polls_before = w.writer().polls;
        {
            let mut fut = Box::pin(w.sync());
            match poll_once(fut.as_mut()) {
                Poll::Ready(Ok(())) => {}
                other => return Err(format!("sync on an idle writer returned {:?}", other.map(|r| r.map_err(|e| e.to_string())))),
            }
        }
        if w.writer().polls != polls_before || w.writer().out.len() != want.len() {
            return Err("sync on an idle writer touched the sink".into());
        }
    }
    if seen_errors != w.writer().errors_injected as u64 {
        return Err(format!("{} transient errors injected, {} reported", w.writer().errors_injected, seen_errors));
    }
    if w.writer().out != want {
        return Err("final sink content differs from the concatenation of all frames".into());
    }
    Ok(stats)
}

fn vals_repr(v: &[Val]) -> String {
    v.iter()
        .map(|x| match x {
            Val::Data(d) => format!("{}", d.iter().map(|n| n.to_string()).collect::<Vec<_>>().join(".")),
            Val::Refuses => "R".to_string(),
            Val::Counting(c) => format!("C{}", c.get()),
            Val::Nothing => "N".to_string(),
        })
        .collect::<Vec<_>>()
        .join(";")
}

fn vals_parse(s: &str) -> Vec<Val> {
    s.split(';')
        .map(|x| if x == "R" { Val::Refuses } else if x == "N" { Val::Nothing } else if let Some(k) = x.strip_prefix('C') { Val::Counting(Rc::new(std::cell::Cell::new(k.parse().unwrap_or(0)))) } else { Val::Data(x.split('.').filter(|t| !t.is_empty()).map(|t| t.parse().unwrap()).collect()) })
        .collect()
}

fn classify(msg: &str) -> &'static str {
    if msg.starts_with("no progress") {
        "no-progress"
    } else if msg.contains("not a prefix") || msg.contains("sink holds") || msg.contains("final sink") {
        "sink-bytes"
    } else if msg.contains("idle") {
        "idle-sync"
    } else if msg.contains("WriteZero") || msg.contains("zero bytes") {
        "write-zero"
    } else if msg.contains("state WriteFrom") || msg.contains("accounted") {
        "state-invariant"
    } else if msg.contains("refused") || msg.contains("failed to encode") || msg.contains("oversized") {
        "refused-value"
    } else {
        "results"
    }
}

fn fail(rep: &mut Report, what: String, values: &[Val], trace: &[u8], b: Bounds, max_len: usize) {
    let tr: Vec<String> = trace.iter().map(|c| c.to_string()).collect();
    let replay = if trace.len() <= 3000 { vec!["c16".into(), "--replay".into(), vals_repr(values), tr.join(","), format!("{},{},{},{},{}", b.pendings, b.errors, b.drops, b.zeros, b.base), max_len.to_string()] } else { vec![] };
    rep.violation(&format!("{}|{}", ID, classify(&what)), J::obj().with("what", J::s(what)).with("values", J::s(vals_repr(values).chars().take(200).collect::<String>())).with("schedule", J::s(tr.join("").chars().take(300).collect::<String>())).with("bounds", J::s(format!("{:?}", b))), replay);
}

pub fn explore(rep: &mut Report, values: &[Val], b: Bounds, max_len: usize, cap: u64, dev: Option<u32>, states: &mut HashSet<(u8, usize, usize)>) -> (u64, bool) {
    let ch: Choices = Rc::new(RefCell::new(match dev { Some(k) => Chooser::bounded(k), None => Chooser::exhaustive() }));
    let mut n = 0u64;
    let mut bad = 0;
    loop {
        ch.borrow_mut().begin_run();
        let r = mon::guarded(|| run_schedule(values, &ch, b, max_len));
        n += 1;
        match r {
            Err(p) => {
                let t = ch.borrow().trace();
                fail(rep, format!("panic: {} at {}", p.message, p.location), values, &t, b, max_len);
                bad += 1
            }
            Ok(Err(e)) => {
                let t = ch.borrow().trace();
                fail(rep, e, values, &t, b, max_len);
                bad += 1
            }
            Ok(Ok(st)) => {
                rep.max("max polls in one schedule", st.polls as f64);
                for s in st.states {
                    states.insert(s);
                }
                rep.count_n("cancellations exercised", st.drops);
                rep.count_n("transient errors exercised", st.errors);
            }
        }
        if bad > 20 {
            return (n, false);
        }
        if n & 0x3fff == 0 {
            mon::tick()
        }
        if !ch.borrow_mut().advance() {
            return (n, true);
        }
        if n >= cap {
            return (n, false);
        }
    }
}

fn value_sets(three: bool) -> Vec<Vec<Val>> {
    let singles = vec![Val::Data(vec![]), Val::Data(vec![5]), Val::Data(vec![300, 1]), Val::Refuses, Val::Nothing];
    let mut out = Vec::new();
    for a in &singles {
        out.push(vec![a.clone()]);
        for b in &singles {
            out.push(vec![a.clone(), b.clone()]);
            if three {
                out.push(vec![a.clone(), b.clone(), Val::Data(vec![1])]);
            }
        }
    }
    out
}

fn walk(rep: &mut Report, seed: u64, i: u64, states: &mut HashSet<(u8, usize, usize)>) {
    let mut rng = Rng::derive("c16/walk", seed, 0, i);
    let n = 1 + rng.below(if i % 40 == 0 { 48 } else { 6 });
    // one walk in 64 writes frames of 70..400 KiB (far beyond any internal chunk / buffer size)
    let big = i % 64 == 7;
    let n = if big { 1 + rng.below(3) } else { n };
    let max_len = if big { 1 << 20 } else { *rng.pick(&[6usize, 40, 8192]) };
    let values: Vec<Val> = (0..n)
        .map(|_| {
            if big && rng.chance(2, 3) {
                let k = 30_000 + rng.below(120_000);
                let mut x = rng.next_u32();
                Val::Data((0..k).map(|_| { x = x.wrapping_mul(1664525).wrapping_add(1013904223); (x >> 16) as u16 }).collect())
            } else if rng.chance(1, 8) {
                Val::Refuses
            } else if rng.chance(1, 12) {
                Val::Nothing
            } else if max_len >= 40 && rng.chance(1, 6) {
                Val::Counting(Rc::new(std::cell::Cell::new(rng.below(18) as u8)))
            } else {
                let k = if i % 5 == 2 { 40 + rng.below(400) } else if rng.chance(1, 25) { rng.below(1500) } else { rng.below(10) };
                Val::Data((0..k).map(|_| rng.next_u32() as u16).collect())
            }
        })
        .collect();
    // "trickle" walks: the sink takes one byte at a time by default and the walk mostly follows that
    // policy, so a single write / sync call makes hundreds of partial transfers (with the odd
    // Pending, error and cancellation in between)
    let trickle = i % 5 == 2;
    let rb = Bounds { pendings: 3, errors: 2, drops: 8, zeros: 2, base: if trickle { 1 } else { 0 } };
    let rng2 = Rng::derive("c16/choices", seed, 1, i);
    let ch: Choices = Rc::new(RefCell::new(if trickle { Chooser::random_biased(rng2, 97) } else { Chooser::random(rng2) }));
    ch.borrow_mut().begin_run();
    rep.eval();
    let rp = vec!["c16".into(), "--seed".into(), seed.to_string(), "--replay".into(), "walk".into(), i.to_string()];
    // one walk in three changes the limit once, right before a cancel / error recovery
    let relimit = if i % 3 == 1 { Some((1 + rng.below(3) as u32, *rng.pick(&[0usize, 1, 6, 40, 8192]))) } else { None };
    match mon::guarded(|| run_schedule_relimit(&values, &ch, rb, max_len, relimit)) {
        Err(p) => rep.violation(&format!("{}|panic", ID), J::obj().with("what", J::s(p.message)), rp),
        Ok(Err(e)) => rep.violation(&format!("{}|{}", ID, classify(&e)), J::obj().with("what", J::s(e)).with("values", J::U(values.len() as u64)), rp),
        Ok(Ok(st)) => {
            rep.seen(ch.borrow().hash());
            for s in st.states {
                if states.len() < 100_000 {
                    states.insert(s);
                }
            }
        }
    }
}

pub fn run(a: &Args, rep: &mut Report) {
    let mut states: HashSet<(u8, usize, usize)> = HashSet::new();
    let (b, cap) = if a.thorough() { (Bounds { pendings: 2, errors: 1, drops: 3, zeros: 1, base: 0 }, 10_000_000u64) } else { (Bounds { pendings: 1, errors: 1, drops: 2, zeros: 1, base: 0 }, 3_000_000u64) };
    let mut total = 0u64;
    let mut all = true;
    let mut all_bounded = true;
    let kdev = if a.thorough() { 7 } else { 5 };
    for (k, vs) in value_sets(true).iter().enumerate() {
        if !a.mine(k as u64) {
            continue;
        }
        mon::set_case(vals_repr(vs).as_bytes());
        for max_len in [64usize, 2] {
            if vs.len() == 1 {
                let (n, ex) = explore(rep, vs, b, max_len, cap, None, &mut states);
                total += n;
                all &= ex;
                rep.max("schedules of one value sequence (exhaustive)", n as f64);
            } else {
                for base in [0u8, 1] {
                    let (n, ex) = explore(rep, vs, Bounds { base, ..b }, max_len, cap, Some(kdev), &mut states);
                    total += n;
                    all_bounded &= ex;
                    rep.max("schedules of one value sequence (deviation-bounded)", n as f64);
                }
            }
        }
    }
    rep.evals(total);
    rep.enumerated(total);
    rep.count_n("schedules/systematic exploration", total);
    if all {
        rep.exhaustive.push(format!("all schedules (accept 1/2/all, <= {} consecutive Pending, <= {} transient error, <= {} zero accept, <= {} drop then sync) of single-value writes (incl. a value that fails to encode and one above max_len)", b.pendings, b.errors, b.zeros, b.drops));
    } else {
        rep.note(format!("exhaustive schedule tree of some single-value writes capped at {} schedules", cap));
    }
    if all_bounded {
        rep.exhaustive.push(format!("all schedules with <= {} deviations from the base policies 'accept everything' and 'one byte at a time' for all value sequences of length {}", kdev, "2 and 3"));
    }
    let nrand: u64 = if a.thorough() { 600_000 } else { 30_000 };
    for i in 0..nrand {
        if !a.mine(i) {
            continue;
        }
        walk(rep, a.seed, i, &mut states);
        if i & 0xff == 0 {
            mon::tick()
        }
    }
    rep.count_n("distinct writer states (state tag, offset, buffer length) observed at quiescent points", states.len() as u64);
    rep.sample(J::obj().with("values", J::s("[5]; [300, 1]")).with("schedule", J::s("choice vector: sink 0=accept all, 1=one byte, 2=two bytes, 3=Pending, 4=transient error, 5=accept zero; caller after Pending: 0=poll again, 1=drop the future, then sync")).with("monitor", J::s("sink bytes are a prefix of 00000002 8105 00000005 82 19012c 01 at every step and equal at quiescence")));
}

pub fn replay(a: &Args, rep: &mut Report) {
    if a.replay[0] == "walk" {
        let mut states = HashSet::new();
        walk(rep, a.seed, a.replay[1].parse().unwrap(), &mut states);
        return;
    }
    let values = vals_parse(&a.replay[0]);
    let path: Vec<u8> = a.replay[1].split(',').filter(|s| !s.is_empty()).map(|s| s.parse().unwrap()).collect();
    let bb: Vec<u8> = a.replay[2].split(',').map(|s| s.parse().unwrap()).collect();
    let b = Bounds { pendings: bb[0], errors: bb[1], drops: bb[2], zeros: bb[3], base: bb[4] };
    let max_len: usize = a.replay[3].parse().unwrap();
    let ch: Choices = Rc::new(RefCell::new(Chooser::from_path(&path)));
    ch.borrow_mut().begin_run();
    rep.eval();
    match mon::guarded(|| run_schedule(&values, &ch, b, max_len)) {
        Err(p) => fail(rep, format!("panic: {}", p.message), &values, &path, b, max_len),
        Ok(Err(e)) => fail(rep, e, &values, &path, b, max_len),
        Ok(Ok(st)) => println!("schedule replayed without violation ({} polls)", st.polls),
    }
}
