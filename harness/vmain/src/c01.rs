//! C01 — value round-trip of the built-in codec types.
//!
//! Monitor: for a generated value `v` of type `T`, `to_vec(&v)` must succeed
//! (unless the encoder is documented to refuse `v`), decoding the produced
//! bytes as `T` must succeed, give a value equal to `v` under the property's
//! equality, and leave the decoder exactly at the end of the bytes.

use crate::subj::Subject;
use minicbor::data::{Int, Tag, Token};
use minicbor::{Decode, Decoder, Encode};
use std::any::type_name;
use vcore::json::{hex, J};
use vcore::mon;
use vcore::refnum;
use vcore::report::{Args, Report};
use vcore::rng::{fnv64, hash_mix, Rng};

const ID: &str = "C01";

fn viol(rep: &mut Report, sig: &str, ty: &str, what: &str, value: String, bytes: &[u8], replay: Vec<String>) {
    rep.violation(
        &format!("{}|{}|{}", ID, ty, sig),
        J::obj().with("type", J::s(ty)).with("what", J::s(what)).with("value", J::s(value)).with("encoded", J::s(hex(&bytes[..bytes.len().min(256)]))),
        replay,
    );
}

/// The round-trip monitor for one value.
pub fn check_value<T>(ty: &str, v: &T, rep: &mut Report, replay: &dyn Fn() -> Vec<String>)
where
    T: Subject + Encode<()> + for<'b> Decode<'b, ()>,
{
    rep.eval();
    let enc = mon::guarded(|| minicbor::to_vec(v));
    let bytes = match enc {
        Err(p) => {
            viol(rep, "encode-panic", ty, &format!("encode panicked: {} at {}", p.message, p.location), v.show(), &[], replay());
            return;
        }
        Ok(Err(e)) => {
            if v.refused() {
                rep.count("refused-by-encoder");
            } else {
                viol(rep, "encode-error", ty, &format!("encode failed: {}", e), v.show(), &[], replay());
            }
            return;
        }
        Ok(Ok(b)) => b,
    };
    if v.refused() {
        // not demanded by the property, only recorded
        rep.count("refusable-value-encoded");
    }
    let input: Box<[u8]> = bytes.clone().into_boxed_slice();
    let dec = mon::guarded(|| {
        let mut d = Decoder::new(&input);
        let r: Result<T, _> = d.decode();
        (r, d.position())
    });
    match dec {
        Err(p) => viol(rep, "decode-panic", ty, &format!("decode panicked: {} at {}", p.message, p.location), v.show(), &bytes, replay()),
        Ok((Err(e), _)) => viol(rep, "decode-error", ty, &format!("decoding own encoding failed: {}", e), v.show(), &bytes, replay()),
        Ok((Ok(w), pos)) => {
            if !v.same(&w) {
                viol(rep, "value-differs", ty, &format!("decoded {} != original", w.show()), v.show(), &bytes, replay());
            } else if pos != bytes.len() {
                viol(rep, "position", ty, &format!("position {} != encoded length {}", pos, bytes.len()), v.show(), &bytes, replay());
            } else {
                // the free functions are the same codec: decode / decode_with / encode / encode_with /
                // to_vec_with must agree with the Decoder / to_vec path
                let api = mon::guarded(|| {
                    let a: Result<T, _> = minicbor::decode(&input);
                    let b: Result<T, _> = minicbor::decode_with(&input, &mut ());
                    let mut e1 = Vec::new();
                    let r1 = minicbor::encode(v, &mut e1).is_ok();
                    let mut e2 = Vec::new();
                    let r2 = minicbor::encode_with(v, &mut e2, &mut ()).is_ok();
                    let e3 = minicbor::to_vec_with(v, &mut ()).ok();
                    let mut d = Decoder::new(&input);
                    let c: Result<T, _> = d.decode_with(&mut ());
                    (a.map_err(|e| e.to_string()), b.map_err(|e| e.to_string()), r1 && e1 == bytes, r2 && e2 == bytes, e3.as_deref() == Some(&bytes[..]), c.map_err(|e| e.to_string()))
                });
                match api {
                    Err(p) => viol(rep, "api-panic", ty, &format!("a free function panicked: {} at {}", p.message, p.location), v.show(), &bytes, replay()),
                    Ok((a, b, e1, e2, e3, c)) => {
                        let ok = |r: &Result<T, String>| matches!(r, Ok(w) if v.same(w));
                        if !ok(&a) || !ok(&b) || !ok(&c) {
                            viol(rep, "api-decode", ty, &format!("minicbor::decode -> {:?}, decode_with -> {:?}, Decoder::decode_with -> {:?} on the value's own encoding", a.map(|w| w.show()), b.map(|w| w.show()), c.map(|w| w.show())), v.show(), &bytes, replay());
                        } else if !(e1 && e2 && e3) {
                            viol(rep, "api-encode", ty, &format!("encode / encode_with / to_vec_with agree with to_vec: {} / {} / {}", e1, e2, e3), v.show(), &bytes, replay());
                        }
                    }
                }
                rep.seen(hash_mix(fnv64(ty.as_bytes()), fnv64(&bytes)));
                if rep.want_sample() && bytes.len() > 2 {
                    rep.sample(J::obj().with("type", J::s(ty)).with("value", J::s(v.show())).with("encoded", J::s(hex(&bytes[..bytes.len().min(64)]))));
                }
            }
        }
    }
}

fn run_type<T>(a: &Args, rep: &mut Report, n: u64)
where
    T: Subject + Encode<()> + for<'b> Decode<'b, ()>,
{
    let ty = type_name::<T>();
    let label = format!("c01/{}", ty);
    let before = rep.evaluations;
    for i in 0..n {
        if !a.mine(i) {
            continue;
        }
        let mut rng = Rng::derive(&label, a.seed, 0, i);
        let v = T::gen(&mut rng);
        check_value::<T>(ty, &v, rep, &|| vec!["c01".into(), "--seed".into(), a.seed.to_string(), "--replay".into(), "rand".into(), ty.to_string(), i.to_string()]);
    }
    let done = rep.evaluations - before;
    rep.count_n(&format!("type/{}", ty), done);
    mon::tick();
}

fn replay_type<T>(a: &Args, rep: &mut Report, i: u64)
where
    T: Subject + Encode<()> + for<'b> Decode<'b, ()>,
{
    let ty = type_name::<T>();
    let label = format!("c01/{}", ty);
    let mut rng = Rng::derive(&label, a.seed, 0, i);
    let v = T::gen(&mut rng);
    println!("replaying {} case {}: value {}", ty, i, v.show());
    check_value::<T>(ty, &v, rep, &|| vec![]);
}

fn exhaustive<T>(rep: &mut Report, a: &Args, name: &str, total: u64, f: impl Fn(u64) -> Option<T>)
where
    T: Subject + Encode<()> + for<'b> Decode<'b, ()>,
{
    let ty = type_name::<T>();
    let mut n = 0u64;
    // contiguous blocks per shard keep this cache friendly
    let lo = total / a.nshards * a.shard;
    let hi = if a.shard + 1 == a.nshards { total } else { total / a.nshards * (a.shard + 1) };
    for x in lo..hi {
        if x & 0xfffff == 0 {
            mon::tick()
        }
        if let Some(v) = f(x) {
            // lightweight inline version of the monitor (no panic guard per value;
            // a panic is caught by the block guard below)
            let bytes = match minicbor::to_vec(&v) {
                Ok(b) => b,
                Err(e) => {
                    viol(rep, "encode-error", ty, &format!("encode failed: {}", e), v.show(), &[], vec!["c01".into(), "--replay".into(), "exh".into(), name.into(), x.to_string()]);
                    continue;
                }
            };
            let mut d = Decoder::new(&bytes);
            match d.decode::<T>() {
                Ok(w) if v.same(&w) && d.position() == bytes.len() => {}
                Ok(w) => viol(rep, "value-or-position", ty, &format!("decoded {} at {} (len {})", w.show(), d.position(), bytes.len()), v.show(), &bytes, vec!["c01".into(), "--replay".into(), "exh".into(), name.into(), x.to_string()]),
                Err(e) => viol(rep, "decode-error", ty, &format!("{}", e), v.show(), &bytes, vec!["c01".into(), "--replay".into(), "exh".into(), name.into(), x.to_string()]),
            }
            n += 1;
        }
    }
    rep.evals(n);
    rep.enumerated(n);
    rep.count_n(&format!("exhaustive/{}", name), n);
    if a.nshards == 1 || true {
        let tag = format!("all {} values ({})", name, total);
        if !rep.exhaustive.contains(&tag) {
            rep.exhaustive.push(tag)
        }
    }
}

fn run_exhaustive(a: &Args, rep: &mut Report, only: Option<(&str, u64)>) {
    macro_rules! ex {
        ($name:expr, $total:expr, $f:expr) => {
            match only {
                Some((n, x)) if n == $name => {
                    let one = Args { shard: 0, nshards: 1, ..a.clone() };
                    let f = $f;
                    exhaustive(rep, &one, $name, 1, move |_| f(x));
                }
                Some(_) => {}
                None => {
                    let r = mon::guarded(|| exhaustive(rep, a, $name, $total, $f));
                    if let Err(p) = r {
                        rep.violation(&format!("{}|{}|panic", ID, $name), J::obj().with("what", J::s(format!("panic in exhaustive sweep: {} at {}", p.message, p.location))), vec![]);
                    }
                }
            }
        };
    }
    ex!("u8", 256, |x| Some(x as u8));
    ex!("i8", 256, |x| Some(x as u8 as i8));
    ex!("u16", 65536, |x| Some(x as u16));
    ex!("i16", 65536, |x| Some(x as u16 as i16));
    ex!("bool", 2, |x| Some(x == 1));
    ex!("char", 0x11_0000, |x| char::from_u32(x as u32));
    ex!("NonZeroU16", 65536, |x| std::num::NonZeroU16::new(x as u16));
    ex!("NonZeroI8", 256, |x| std::num::NonZeroI8::new(x as u8 as i8));
    ex!("Wrapping<i16>", 65536, |x| Some(std::num::Wrapping(x as u16 as i16)));
    ex!("Option<u8>", 257, |x| Some(if x == 256 { None } else { Some(x as u8) }));
    ex!("Tagged<7,u8>", 256, |x| Some(minicbor::data::Tagged::<7, u8>::new(x as u8)));
    if a.thorough() || only.is_some() {
        ex!("u32", 1u64 << 32, |x| Some(x as u32));
        ex!("i32", 1u64 << 32, |x| Some(x as u32 as i32));
        ex!("f32", 1u64 << 32, |x| Some(f32::from_bits(x as u32)));
    }
}

// ---------------------------------------------------------------------------
// borrowed types and tokens

fn tok_int(t: &Token) -> Option<i128> {
    Some(match t {
        Token::U8(n) => *n as i128,
        Token::U16(n) => *n as i128,
        Token::U32(n) => *n as i128,
        Token::U64(n) => *n as i128,
        Token::I8(n) => *n as i128,
        Token::I16(n) => *n as i128,
        Token::I32(n) => *n as i128,
        Token::I64(n) => *n as i128,
        Token::Int(n) => i128::from(*n),
        _ => return None,
    })
}

fn tok_simple(t: &Token) -> Option<u8> {
    Some(match t {
        Token::Bool(false) => 20,
        Token::Bool(true) => 21,
        Token::Null => 22,
        Token::Undefined => 23,
        Token::Simple(n) => *n,
        _ => return None,
    })
}

/// Token equivalence of the property: integer tokens by numeric value,
/// Simple(20..=23) == Bool/Null/Undefined (RFC data-model identity), floats
/// bitwise (a signalling half NaN only has to stay a NaN).
pub fn tok_equiv(a: &Token, b: &Token) -> bool {
    if let (Some(x), Some(y)) = (tok_int(a), tok_int(b)) {
        return x == y;
    }
    if let (Some(x), Some(y)) = (tok_simple(a), tok_simple(b)) {
        return x == y;
    }
    match (a, b) {
        (Token::F16(x), Token::F16(y)) => x.to_bits() == y.to_bits() || (x.is_nan() && y.is_nan()),
        (Token::F32(x), Token::F32(y)) => x.to_bits() == y.to_bits(),
        (Token::F64(x), Token::F64(y)) => x.to_bits() == y.to_bits(),
        (Token::Bytes(x), Token::Bytes(y)) => x == y,
        (Token::String(x), Token::String(y)) => x == y,
        (Token::Array(x), Token::Array(y)) => x == y,
        (Token::Map(x), Token::Map(y)) => x == y,
        (Token::Tag(x), Token::Tag(y)) => x == y,
        (Token::Break, Token::Break) => true,
        (Token::BeginBytes, Token::BeginBytes) => true,
        (Token::BeginString, Token::BeginString) => true,
        (Token::BeginArray, Token::BeginArray) => true,
        (Token::BeginMap, Token::BeginMap) => true,
        _ => false,
    }
}

pub struct Arena {
    pub strs: Vec<String>,
    pub bytes: Vec<Vec<u8>>,
}

impl Arena {
    pub fn new(rng: &mut Rng, n: usize) -> Arena {
        Arena { strs: (0..n).map(|_| String::gen(rng)).collect(), bytes: (0..n).map(|_| vcore::gen::gen_bytes(rng, false)).collect() }
    }
}

pub fn gen_token<'a>(rng: &mut Rng, arena: &'a Arena) -> Token<'a> {
    match rng.below(26) {
        0 => Token::Bool(rng.bool()),
        1 => Token::U8(u8::gen(rng)),
        2 => Token::U16(u16::gen(rng)),
        3 => Token::U32(u32::gen(rng)),
        4 => Token::U64(u64::gen(rng)),
        5 => Token::I8(i8::gen(rng)),
        6 => Token::I16(i16::gen(rng)),
        7 => Token::I32(i32::gen(rng)),
        8 => Token::I64(i64::gen(rng)),
        9 => Token::Int(Int::gen(rng)),
        10 => Token::F16(f32::from_bits(refnum::f16_bits_to_f32_bits(rng.next_u32() as u16))),
        11 => Token::F32(f32::gen(rng)),
        12 => Token::F64(f64::gen(rng)),
        13 => Token::Bytes(&arena.bytes[rng.usize_below(arena.bytes.len())]),
        14 => Token::String(&arena.strs[rng.usize_below(arena.strs.len())]),
        15 => Token::Array(vcore::gen::gen_u64(rng)),
        16 => Token::Map(vcore::gen::gen_u64(rng)),
        17 => Token::Tag(Tag::new(vcore::gen::gen_u64(rng))),
        18 => Token::Simple(rng.below(256) as u8),
        19 => Token::Break,
        20 => Token::Null,
        21 => Token::Undefined,
        22 => Token::BeginBytes,
        23 => Token::BeginString,
        24 => Token::BeginArray,
        _ => Token::BeginMap,
    }
}

fn check_token(t: &Token, rep: &mut Report, replay: Vec<String>) {
    rep.eval();
    let ty = "Token";
    let r = mon::guarded(|| {
        let bytes = minicbor::to_vec(t).map_err(|e| format!("encode failed: {}", e))?;
        let mut d = Decoder::new(&bytes);
        let u: Token = d.decode().map_err(|e| format!("decoding own encoding {} failed: {}", hex(&bytes), e))?;
        if !tok_equiv(t, &u) {
            return Err(format!("decoded {:?} from {} is not equivalent", u, hex(&bytes[..bytes.len().min(64)])));
        }
        if d.position() != bytes.len() {
            return Err(format!("position {} != length {}", d.position(), bytes.len()));
        }
        Ok(bytes)
    });
    match r {
        Err(p) => viol(rep, "panic", ty, &format!("{} at {}", p.message, p.location), format!("{:?}", t), &[], replay),
        Ok(Err(e)) => viol(rep, "roundtrip", ty, &e, format!("{:?}", t), &[], replay),
        Ok(Ok(b)) => rep.seen(hash_mix(fnv64(b"Token"), fnv64(&b))),
    }
}

fn run_borrowed(a: &Args, rep: &mut Report, n: u64) {
    use minicbor::bytes::ByteSlice;
    use std::ffi::{CStr, CString};
    use std::path::Path;
    for i in 0..n {
        if !a.mine(i) {
            continue;
        }
        let mut rng = Rng::derive("c01/borrowed", a.seed, 0, i);
        let rp = |k: &str| vec!["c01".into(), "--seed".into(), a.seed.to_string(), "--replay".into(), "borrowed".into(), k.to_string(), i.to_string()];
        // &str
        let s = String::gen(&mut rng);
        rep.eval();
        let r = mon::guarded(|| {
            let b = minicbor::to_vec(s.as_str()).map_err(|e| e.to_string())?;
            let mut d = Decoder::new(&b);
            let t: &str = d.decode().map_err(|e| e.to_string())?;
            if t != s || d.position() != b.len() {
                return Err("value or position differs".to_string());
            }
            if !mon::within(&b, t.as_ptr(), t.len()) {
                return Err("&str does not point into the input".to_string());
            }
            Ok(b)
        });
        match r {
            Ok(Ok(b)) => rep.seen(hash_mix(1, fnv64(&b))),
            Ok(Err(e)) => viol(rep, "roundtrip", "&str", &e, s.show(), &[], rp("str")),
            Err(p) => viol(rep, "panic", "&str", &p.message, s.show(), &[], rp("str")),
        }
        // &ByteSlice
        let v = vcore::gen::gen_bytes(&mut rng, false);
        rep.eval();
        let r = mon::guarded(|| {
            let bs: &ByteSlice = v.as_slice().into();
            let b = minicbor::to_vec(bs).map_err(|e| e.to_string())?;
            let mut d = Decoder::new(&b);
            let t: &ByteSlice = d.decode().map_err(|e| e.to_string())?;
            if **t != *v.as_slice() || d.position() != b.len() {
                return Err("value or position differs".to_string());
            }
            if !mon::within(&b, t.as_ptr(), t.len()) {
                return Err("&ByteSlice does not point into the input".to_string());
            }
            Ok(b)
        });
        match r {
            Ok(Ok(b)) => rep.seen(hash_mix(2, fnv64(&b))),
            Ok(Err(e)) => viol(rep, "roundtrip", "&ByteSlice", &e, format!("bytes[{}]", v.len()), &[], rp("byteslice")),
            Err(p) => viol(rep, "panic", "&ByteSlice", &p.message, format!("bytes[{}]", v.len()), &[], rp("byteslice")),
        }
        // &CStr
        let c = CString::gen(&mut rng);
        rep.eval();
        let r = mon::guarded(|| {
            let b = minicbor::to_vec(c.as_c_str()).map_err(|e| e.to_string())?;
            let mut d = Decoder::new(&b);
            let t: &CStr = d.decode().map_err(|e| e.to_string())?;
            if t != c.as_c_str() || d.position() != b.len() {
                return Err("value or position differs".to_string());
            }
            Ok(b)
        });
        match r {
            Ok(Ok(b)) => rep.seen(hash_mix(3, fnv64(&b))),
            Ok(Err(e)) => viol(rep, "roundtrip", "&CStr", &e, c.show(), &[], rp("cstr")),
            Err(p) => viol(rep, "panic", "&CStr", &p.message, c.show(), &[], rp("cstr")),
        }
        // &Path
        let p0 = std::path::PathBuf::from(String::gen(&mut rng));
        rep.eval();
        let r = mon::guarded(|| {
            let b = minicbor::to_vec(p0.as_path()).map_err(|e| e.to_string())?;
            let mut d = Decoder::new(&b);
            let t: &Path = d.decode().map_err(|e| e.to_string())?;
            if t != p0.as_path() || d.position() != b.len() {
                return Err("value or position differs".to_string());
            }
            Ok(b)
        });
        match r {
            Ok(Ok(b)) => rep.seen(hash_mix(4, fnv64(&b))),
            Ok(Err(e)) => viol(rep, "roundtrip", "&Path", &e, p0.show(), &[], rp("path")),
            Err(p) => viol(rep, "panic", "&Path", &p.message, p0.show(), &[], rp("path")),
        }
        // Token
        let arena = Arena::new(&mut rng, 4);
        let mut prev = Token::Undefined;
        for _ in 0..8 {
            let t = gen_token(&mut rng, &arena);
            check_token(&t, rep, rp("token"));
            check_token_composites(&t, &prev, rep, rp("token"));
            prev = t;
        }
    }
    rep.count_n("type/&str,&ByteSlice,&CStr,&Path", 4 * n / a.nshards.max(1));
    rep.count_n("type/Token", 8 * n / a.nshards.max(1));
}

/// Tokens inside the generic containers (Option, tuple, Vec, Result, array): the container impls
/// must not reinterpret what the token's own encoding says (e.g. `undefined` is not "absent").
/// `Option<Token>` holding `Token::Null` is the documented Option-in-Option exclusion.
fn check_token_composites(t: &Token, u: &Token, rep: &mut Report, replay: Vec<String>) {
    rep.eval();
    let r = mon::guarded(|| {
        macro_rules! rt {
            ($name:expr, $v:expr, $ty:ty, $eq:expr) => {{
                let v = $v;
                let bytes = minicbor::to_vec(&v).map_err(|e| format!("{}: encode failed: {}", $name, e))?;
                let mut d = Decoder::new(&bytes);
                let w: $ty = d.decode().map_err(|e| format!("{}: decoding own encoding {} failed: {}", $name, hex(&bytes[..bytes.len().min(64)]), e))?;
                let eq: fn(&$ty, &$ty) -> bool = $eq;
                if !eq(&v, &w) {
                    return Err(format!("{}: decoded {:?} from {}", $name, w, hex(&bytes[..bytes.len().min(64)])));
                }
                if d.position() != bytes.len() {
                    return Err(format!("{}: position {} != length {}", $name, d.position(), bytes.len()));
                }
            }};
        }
        // tokens that are not complete items (break, container and tag heads, indefinite starts)
        // are values of the type like any other: the property has no exclusion for them
        {
            if !matches!(t, Token::Null) && !matches!(t, Token::Simple(22)) {
                rt!("Option<Token>", Some(t.clone()), Option<Token>, |a, b| match (a, b) { (Some(x), Some(y)) => tok_equiv(x, y), (None, None) => true, _ => false });
            }
            rt!("(Token, u8, Token)", (t.clone(), 7u8, u.clone()), (Token, u8, Token), |a, b| tok_equiv(&a.0, &b.0) && a.1 == b.1 && tok_equiv(&a.2, &b.2));
            rt!("Vec<Token>", vec![t.clone(), u.clone()], Vec<Token>, |a, b| a.len() == b.len() && a.iter().zip(b.iter()).all(|(x, y)| tok_equiv(x, y)));
            rt!("[Token; 2]", [u.clone(), t.clone()], [Token; 2], |a, b| tok_equiv(&a[0], &b[0]) && tok_equiv(&a[1], &b[1]));
            rt!("Result<Token, Token>", Ok::<Token, Token>(t.clone()), Result<Token, Token>, |a, b| match (a, b) { (Ok(x), Ok(y)) | (Err(x), Err(y)) => tok_equiv(x, y), _ => false });
            rt!("Result<Token, Token>", Err::<Token, Token>(u.clone()), Result<Token, Token>, |a, b| match (a, b) { (Ok(x), Ok(y)) | (Err(x), Err(y)) => tok_equiv(x, y), _ => false });
        }
        Ok::<(), String>(())
    });
    match r {
        Err(p) => viol(rep, "panic", "Token in container", &format!("{} at {}", p.message, p.location), format!("{:?} / {:?}", t, u), &[], replay),
        Ok(Err(e)) => viol(rep, "roundtrip", "Token in container", &e, format!("{:?} / {:?}", t, u), &[], replay),
        Ok(Ok(())) => rep.count("tokens inside Option / tuple / Vec / array / Result"),
    }
}

fn run_token_exhaustive(a: &Args, rep: &mut Report) {
    if a.shard != 0 {
        return;
    }
    // all 256 simple values and all 65536 half patterns as tokens
    for n in 0..=255u8 {
        check_token(&Token::Simple(n), rep, vec!["c01".into(), "--replay".into(), "token-simple".into(), n.to_string()]);
    }
    for h in 0..=0xffffu16 {
        let t = Token::F16(f32::from_bits(refnum::f16_bits_to_f32_bits(h)));
        check_token(&t, rep, vec!["c01".into(), "--replay".into(), "token-f16".into(), h.to_string()]);
    }
    rep.enumerated(256 + 65536);
    rep.exhaustive.push("Token::Simple(0..=255), Token::F16(all 65536 half patterns)".into());
}

pub fn run(a: &Args, rep: &mut Report) {
    let n: u64 = if a.thorough() { 3_000_000 } else { 200_000 };
    macro_rules! m {
        ($t:ty) => {
            run_type::<$t>(a, rep, n)
        };
    }
    for_each_subject!(m);
    run_borrowed(a, rep, n);
    run_token_exhaustive(a, rep);
    run_exhaustive(a, rep, None);
    rep.note("rule: a case is non-trivial when the value was encoded, decoded and compared; distinct by hash of (type, encoded bytes); enumerated sub-domains are distinct by construction");
}

pub fn replay(a: &Args, rep: &mut Report) {
    let r = &a.replay;
    match r[0].as_str() {
        "rand" => {
            let want = r[1].as_str();
            let i: u64 = r[2].parse().unwrap();
            let mut found = false;
            macro_rules! m {
                ($t:ty) => {
                    if type_name::<$t>() == want {
                        found = true;
                        replay_type::<$t>(a, rep, i)
                    }
                };
            }
            for_each_subject!(m);
            if !found {
                eprintln!("unknown type {}", want);
            }
        }
        "exh" => {
            let x: u64 = r[2].parse().unwrap();
            run_exhaustive(a, rep, Some((r[1].as_str(), x)));
        }
        "borrowed" => {
            let i: u64 = r[2].parse().unwrap();
            let one = Args { shard: i, nshards: i + 1, ..a.clone() };
            // run exactly case i
            let mut a1 = one.clone();
            a1.shard = 0;
            a1.nshards = 1;
            let mut tmp = Report::new("c01", &a.tier, a.seed, 0, 1);
            // run_borrowed iterates 0..n; emulate with a filter on i
            let a2 = Args { shard: i % (i + 1), nshards: i + 1, ..a.clone() };
            run_borrowed(&a2, &mut tmp, i + 1);
            for (k, v) in tmp.violations {
                for e in v.examples {
                    rep.violation(&k, e, vec![]);
                }
            }
            rep.evaluations += tmp.evaluations;
        }
        "token-simple" => check_token(&Token::Simple(r[1].parse().unwrap()), rep, vec![]),
        "token-f16" => {
            let h: u16 = r[1].parse().unwrap();
            check_token(&Token::F16(f32::from_bits(refnum::f16_bits_to_f32_bits(h))), rep, vec![])
        }
        other => eprintln!("unknown replay kind {}", other),
    }
}
