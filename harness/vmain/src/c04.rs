//! C04 — typed decoding agrees with the RFC 8949 data model on every
//! well-formed encoding.
//!
//! The oracle is a *model* of each accessor / target type over reference
//! items (`model(ty, item)`), written from the documentation: it yields the
//! expected value, `Err` (shape does not match) or `Any` where the statement
//! is silent.  The monitor runs the real accessor / typed decode on
//! `encoding ++ suffix`, compares value, final position and the provenance of
//! borrowed results, and then replays every strict prefix against each target
//! that accepted the full encoding: it must fail with the end-of-input class.

use crate::corpus;
use minicbor::bytes::{ByteArray, ByteSlice, ByteVec};
use minicbor::data::{Int, Tagged, Type};
use minicbor::decode::Error;
use minicbor::{Decode, Decoder};
use std::borrow::Cow;
use std::collections::{BTreeMap, BTreeSet, BinaryHeap, HashMap, HashSet, LinkedList, VecDeque};
use std::ops::Range;
use std::time::Duration;
use vcore::json::{hex, J};
use vcore::mon;
use vcore::refcbor::{self, head_len, Item};
use vcore::refnum;
use vcore::report::{Args, Report};
use vcore::rng::{fnv64, Rng};

const ID: &str = "C04";

/// Dynamic value both the model and the real decode are mapped into.
#[derive(Clone, Debug, PartialEq, Eq, PartialOrd, Ord)]
pub enum V {
    I(i128),
    B(bool),
    U,
    F32(u32),
    F64(u64),
    C(char),
    Bytes(Vec<u8>),
    Str(String),
    Seq(Vec<V>),
    NoneV,
    SomeV(Box<V>),
    Len(Option<u64>),
    Ty(&'static str),
}

#[derive(Clone, Debug)]
pub enum Exp {
    Val(V),
    /// A float that only has to be some NaN.
    NaN,
    Err,
    /// The statement is silent: an error or the given value, never another value.
    Any(Option<V>),
}

#[derive(Clone, Debug)]
pub enum Ty {
    U8,
    U16,
    U32,
    U64,
    I8,
    I16,
    I32,
    I64,
    Int,
    Bool,
    Char,
    F32,
    F64,
    Str,
    Bytes,
    Unit,
    Opt(Box<Ty>),
    Seq(Box<Ty>),
    Set(Box<Ty>),
    Arr(Box<Ty>, usize),
    Tup(Vec<Ty>),
    Map(Box<Ty>, Box<Ty>),
    Tagged(u64, Box<Ty>),
    ByteArr(usize),
    /// C string: a definite byte string whose only NUL is its last byte; the value is the rest
    CStr,
    Res(Box<Ty>, Box<Ty>),
    /// `core::ops::Bound<T>`: definite [0, T] = Included, [1, T] = Excluded, [2, any item] = Unbounded
    Bound(Box<Ty>),
    Range(Box<Ty>),
    Duration,
    // accessor-only pseudo types
    AccF16,
    AccNull,
    AccUndefined,
    AccSimple,
    AccTag,
    AccArrayHead,
    AccMapHead,
    AccBytesIter,
    AccStrIter,
    AccDatatype,
}

fn bx(t: Ty) -> Box<Ty> {
    Box::new(t)
}

fn int_in(it: &Item, lo: i128, hi: i128) -> Exp {
    match it.int_value() {
        Some(v) if v >= lo && v <= hi => Exp::Val(V::I(v)),
        _ => Exp::Err,
    }
}

fn all_vals(xs: Vec<Exp>) -> Result<Vec<V>, Exp> {
    let mut out = Vec::new();
    let mut soft = false;
    for x in xs {
        match x {
            Exp::Val(v) => out.push(v),
            Exp::Err => return Err(Exp::Err),
            Exp::NaN | Exp::Any(_) => soft = true,
        }
    }
    if soft {
        Err(Exp::Any(None))
    } else {
        Ok(out)
    }
}

/// Expected result of decoding `it` as `ty`.
pub fn model(ty: &Ty, it: &Item) -> Exp {
    match ty {
        Ty::U8 => int_in(it, 0, u8::MAX as i128),
        Ty::U16 => int_in(it, 0, u16::MAX as i128),
        Ty::U32 => int_in(it, 0, u32::MAX as i128),
        Ty::U64 => int_in(it, 0, u64::MAX as i128),
        Ty::I8 => int_in(it, i8::MIN as i128, i8::MAX as i128),
        Ty::I16 => int_in(it, i16::MIN as i128, i16::MAX as i128),
        Ty::I32 => int_in(it, i32::MIN as i128, i32::MAX as i128),
        Ty::I64 => int_in(it, i64::MIN as i128, i64::MAX as i128),
        Ty::Int => int_in(it, -(1i128 << 64), (1i128 << 64) - 1),
        Ty::Bool => match it {
            Item::Simple { w: 0, v: 20 } => Exp::Val(V::B(false)),
            Item::Simple { w: 0, v: 21 } => Exp::Val(V::B(true)),
            _ => Exp::Err,
        },
        Ty::Char => match it {
            Item::UInt { v, .. } if *v <= u32::MAX as u64 => match char::from_u32(*v as u32) {
                Some(c) => Exp::Val(V::C(c)),
                None => Exp::Err,
            },
            _ => Exp::Err,
        },
        Ty::AccF16 => match it {
            Item::F16(h) if refnum::is_nan16(*h) => Exp::NaN,
            Item::F16(h) => Exp::Val(V::F32(refnum::f16_bits_to_f32_bits(*h))),
            _ => Exp::Err,
        },
        Ty::F32 => match it {
            Item::F16(h) if refnum::is_nan16(*h) => Exp::NaN,
            Item::F16(h) => Exp::Val(V::F32(refnum::f16_bits_to_f32_bits(*h))),
            Item::F32(b) => Exp::Val(V::F32(*b)),
            _ => Exp::Err,
        },
        Ty::F64 => match it {
            Item::F16(h) if refnum::is_nan16(*h) => Exp::NaN,
            Item::F16(h) => Exp::Val(V::F64(refnum::f16_bits_to_f64_bits(*h))),
            Item::F32(b) if refnum::is_nan32(*b) => Exp::NaN,
            Item::F32(b) => Exp::Val(V::F64(refnum::f32_bits_to_f64_bits(*b))),
            Item::F64(b) => Exp::Val(V::F64(*b)),
            _ => Exp::Err,
        },
        Ty::Str => match it {
            Item::Text { v, .. } => match std::str::from_utf8(v) {
                Ok(s) => Exp::Val(V::Str(s.to_string())),
                Err(_) => Exp::Err,
            },
            _ => Exp::Err,
        },
        Ty::Bytes => match it {
            Item::Bytes { v, .. } => Exp::Val(V::Bytes(v.clone())),
            _ => Exp::Err,
        },
        Ty::CStr => match it {
            Item::Bytes { v, .. } if v.last() == Some(&0) && !v[..v.len() - 1].contains(&0) => Exp::Val(V::Bytes(v[..v.len() - 1].to_vec())),
            _ => Exp::Err,
        },
        Ty::ByteArr(n) => match it {
            Item::Bytes { v, .. } if v.len() == *n => Exp::Val(V::Bytes(v.clone())),
            _ => Exp::Err,
        },
        Ty::Unit => match it {
            Item::Array { w: Some(_), items } if items.is_empty() => Exp::Val(V::U),
            Item::Array { w: None, items } if items.is_empty() => Exp::Any(Some(V::U)),
            _ => Exp::Err,
        },
        Ty::Opt(t) => {
            if it.is_null() {
                Exp::Val(V::NoneV)
            } else {
                match model(t, it) {
                    Exp::Val(v) => Exp::Val(V::SomeV(Box::new(v))),
                    Exp::Any(v) => Exp::Any(v.map(|v| V::SomeV(Box::new(v)))),
                    Exp::NaN => Exp::Any(None),
                    Exp::Err => Exp::Err,
                }
            }
        }
        Ty::Seq(t) | Ty::Set(t) => match it {
            Item::Array { items, .. } => match all_vals(items.iter().map(|x| model(t, x)).collect()) {
                Ok(mut vs) => {
                    if let Ty::Set(_) = ty {
                        vs.sort();
                        vs.dedup();
                    }
                    Exp::Val(V::Seq(vs))
                }
                Err(e) => e,
            },
            _ => Exp::Err,
        },
        Ty::Arr(t, n) => match it {
            Item::Array { items, .. } if items.len() == *n => match all_vals(items.iter().map(|x| model(t, x)).collect()) {
                Ok(vs) => Exp::Val(V::Seq(vs)),
                Err(e) => e,
            },
            // a failing element may be reported before or instead of the length error: any error
            _ => Exp::Err,
        },
        Ty::Tup(ts) => match it {
            Item::Array { w, items } if items.len() == ts.len() => match all_vals(items.iter().zip(ts.iter()).map(|(x, t)| model(t, x)).collect()) {
                Ok(vs) => {
                    if w.is_some() {
                        Exp::Val(V::Seq(vs))
                    } else {
                        Exp::Any(Some(V::Seq(vs)))
                    }
                }
                Err(e) => e,
            },
            _ => Exp::Err,
        },
        Ty::Map(k, v) => match it {
            Item::Map { items, .. } => {
                let ks = all_vals(items.iter().map(|(x, _)| model(k, x)).collect());
                let vs = all_vals(items.iter().map(|(_, x)| model(v, x)).collect());
                match (ks, vs) {
                    (Ok(ks), Ok(vs)) => {
                        let mut m: BTreeMap<V, V> = BTreeMap::new();
                        for (a, b) in ks.into_iter().zip(vs) {
                            m.insert(a, b);
                        }
                        Exp::Val(V::Seq(m.into_iter().map(|(a, b)| V::Seq(vec![a, b])).collect()))
                    }
                    (Err(Exp::Err), _) | (_, Err(Exp::Err)) => Exp::Err,
                    _ => Exp::Any(None),
                }
            }
            _ => Exp::Err,
        },
        Ty::Tagged(n, t) => match it {
            Item::Tag { v, inner, .. } if v == n => model(t, inner),
            _ => Exp::Err,
        },
        Ty::Res(t, e) => match it {
            Item::Array { w: Some(_), items } if items.len() == 2 => match &items[0] {
                Item::UInt { v: 0, .. } => match model(t, &items[1]) {
                    Exp::Val(v) => Exp::Val(V::Seq(vec![V::I(0), v])),
                    Exp::Err => Exp::Err,
                    _ => Exp::Any(None),
                },
                Item::UInt { v: 1, .. } => match model(e, &items[1]) {
                    Exp::Val(v) => Exp::Val(V::Seq(vec![V::I(1), v])),
                    Exp::Err => Exp::Err,
                    _ => Exp::Any(None),
                },
                _ => Exp::Err,
            },
            _ => Exp::Err,
        },
        Ty::Bound(t) => match it {
            Item::Array { w: Some(_), items } if items.len() == 2 => match &items[0] {
                Item::UInt { v, .. } if *v < 2 => match model(t, &items[1]) {
                    Exp::Val(x) => Exp::Val(V::Seq(vec![V::I(*v as i128), x])),
                    Exp::Err => Exp::Err,
                    _ => Exp::Any(None),
                },
                // the payload of `Unbounded` is skipped, whatever single item it is
                Item::UInt { v: 2, .. } => Exp::Val(V::Seq(vec![V::I(2)])),
                _ => Exp::Err,
            },
            _ => Exp::Err,
        },
        Ty::Range(t) => match it {
            Item::Array { items, .. } if items.len() >= 2 => match all_vals(vec![model(t, &items[0]), model(t, &items[1])]) {
                Ok(vs) => Exp::Val(V::Seq(vs)),
                Err(e) => e,
            },
            _ => Exp::Err,
        },
        Ty::Duration => match it {
            Item::Array { items, .. } if items.len() >= 2 => match (int_in(&items[0], 0, u64::MAX as i128), int_in(&items[1], 0, u32::MAX as i128)) {
                (Exp::Val(V::I(s)), Exp::Val(V::I(n))) => {
                    let secs = s + n / 1_000_000_000;
                    if secs > u64::MAX as i128 {
                        Exp::Err
                    } else {
                        Exp::Val(V::Seq(vec![V::I(secs), V::I(n % 1_000_000_000)]))
                    }
                }
                _ => Exp::Err,
            },
            _ => Exp::Err,
        },
        Ty::AccNull => {
            if it.is_null() {
                Exp::Val(V::U)
            } else {
                Exp::Err
            }
        }
        Ty::AccUndefined => match it {
            Item::Simple { w: 0, v: 23 } => Exp::Val(V::U),
            _ => Exp::Err,
        },
        Ty::AccSimple => match it {
            Item::Simple { w: 0, v } if *v < 20 => Exp::Val(V::I(*v as i128)),
            Item::Simple { w: 0, v } => Exp::Any(Some(V::I(*v as i128))),
            Item::Simple { w: 1, v } if *v >= 32 => Exp::Val(V::I(*v as i128)),
            _ => Exp::Err,
        },
        Ty::AccTag => match it {
            Item::Tag { v, .. } => Exp::Val(V::I(*v as i128)),
            _ => Exp::Err,
        },
        Ty::AccArrayHead => match it {
            Item::Array { w, items } => Exp::Val(V::Len(w.map(|_| items.len() as u64))),
            _ => Exp::Err,
        },
        Ty::AccMapHead => match it {
            Item::Map { w, items } => Exp::Val(V::Len(w.map(|_| items.len() as u64))),
            _ => Exp::Err,
        },
        Ty::AccBytesIter => match it {
            Item::Bytes { v, .. } => Exp::Val(V::Seq(if v.is_empty() { vec![] } else { vec![V::Bytes(v.clone())] })),
            Item::BytesIndef(c) => Exp::Val(V::Seq(c.iter().map(|(_, d)| V::Bytes(d.clone())).collect())),
            _ => Exp::Err,
        },
        Ty::AccStrIter => match it {
            Item::Text { v, .. } => match std::str::from_utf8(v) {
                Ok(s) => Exp::Val(V::Seq(if v.is_empty() { vec![] } else { vec![V::Str(s.to_string())] })),
                Err(_) => Exp::Err,
            },
            Item::TextIndef(c) => {
                let mut out = Vec::new();
                for (_, d) in c {
                    match std::str::from_utf8(d) {
                        Ok(s) => out.push(V::Str(s.to_string())),
                        Err(_) => return Exp::Err,
                    }
                }
                Exp::Val(V::Seq(out))
            }
            _ => Exp::Err,
        },
        Ty::AccDatatype => Exp::Val(V::Ty(match it {
            Item::UInt { .. } | Item::NInt { .. } => "int",
            Item::Bytes { .. } => "bytes",
            Item::BytesIndef(_) => "bytes-indef",
            Item::Text { .. } => "string",
            Item::TextIndef(_) => "string-indef",
            Item::Array { w: Some(_), .. } => "array",
            Item::Array { w: None, .. } => "array-indef",
            Item::Map { w: Some(_), .. } => "map",
            Item::Map { w: None, .. } => "map-indef",
            Item::Tag { .. } => "tag",
            Item::Simple { w: 0, v: 20 | 21 } => "bool",
            Item::Simple { w: 0, v: 22 } => "null",
            Item::Simple { w: 0, v: 23 } => "undefined",
            Item::Simple { .. } => "simple",
            Item::F16(_) => "f16",
            Item::F32(_) => "f32",
            Item::F64(_) => "f64",
        })),
    }
}

/// How many bytes of the encoding the target consumes on success.
fn consumed(ty: &Ty, it: &Item, elen: usize) -> usize {
    match (ty, it) {
        (Ty::AccTag, Item::Tag { w, .. }) => head_len(*w),
        (Ty::AccArrayHead, Item::Array { w, .. }) | (Ty::AccMapHead, Item::Map { w, .. }) => w.map(head_len).unwrap_or(1),
        (Ty::AccDatatype, _) => 0,
        _ => elen,
    }
}

// ---------------------------------------------------------------------------
// mapping real results into V

pub trait ToV {
    fn to_v(&self) -> V;
}
macro_rules! tov_int { ($($t:ty)*) => {$( impl ToV for $t { fn to_v(&self) -> V { V::I(*self as i128) } } )*} }
tov_int!(u8 u16 u32 u64 i8 i16 i32 i64 usize);
impl ToV for Int {
    fn to_v(&self) -> V {
        V::I(i128::from(*self))
    }
}
impl ToV for bool {
    fn to_v(&self) -> V {
        V::B(*self)
    }
}
impl ToV for char {
    fn to_v(&self) -> V {
        V::C(*self)
    }
}
impl ToV for f32 {
    fn to_v(&self) -> V {
        V::F32(self.to_bits())
    }
}
impl ToV for f64 {
    fn to_v(&self) -> V {
        V::F64(self.to_bits())
    }
}
impl ToV for () {
    fn to_v(&self) -> V {
        V::U
    }
}
impl ToV for String {
    fn to_v(&self) -> V {
        V::Str(self.clone())
    }
}
impl ToV for &str {
    fn to_v(&self) -> V {
        V::Str(self.to_string())
    }
}
impl ToV for Box<str> {
    fn to_v(&self) -> V {
        V::Str(self.to_string())
    }
}
impl ToV for Cow<'_, str> {
    fn to_v(&self) -> V {
        V::Str(self.to_string())
    }
}
impl ToV for std::path::PathBuf {
    fn to_v(&self) -> V {
        V::Str(self.to_str().unwrap_or("<non-utf8>").to_string())
    }
}
impl ToV for ByteVec {
    fn to_v(&self) -> V {
        V::Bytes(self.to_vec())
    }
}
impl ToV for &ByteSlice {
    fn to_v(&self) -> V {
        V::Bytes(self.to_vec())
    }
}
impl ToV for &[u8] {
    fn to_v(&self) -> V {
        V::Bytes(self.to_vec())
    }
}
impl ToV for &std::ffi::CStr {
    fn to_v(&self) -> V {
        V::Bytes(self.to_bytes().to_vec())
    }
}
impl ToV for std::ffi::CString {
    fn to_v(&self) -> V {
        V::Bytes(self.as_bytes().to_vec())
    }
}
impl<const N: usize> ToV for ByteArray<N> {
    fn to_v(&self) -> V {
        V::Bytes(self.to_vec())
    }
}
impl<T: ToV> ToV for Option<T> {
    fn to_v(&self) -> V {
        match self {
            None => V::NoneV,
            Some(x) => V::SomeV(Box::new(x.to_v())),
        }
    }
}
impl<T: ToV> ToV for Box<T> {
    fn to_v(&self) -> V {
        (**self).to_v()
    }
}
impl<T: ToV> ToV for Vec<T> {
    fn to_v(&self) -> V {
        V::Seq(self.iter().map(|x| x.to_v()).collect())
    }
}
impl<T: ToV> ToV for VecDeque<T> {
    fn to_v(&self) -> V {
        V::Seq(self.iter().map(|x| x.to_v()).collect())
    }
}
impl<T: ToV> ToV for LinkedList<T> {
    fn to_v(&self) -> V {
        V::Seq(self.iter().map(|x| x.to_v()).collect())
    }
}
impl<T: ToV, const N: usize> ToV for [T; N] {
    fn to_v(&self) -> V {
        V::Seq(self.iter().map(|x| x.to_v()).collect())
    }
}
fn sorted(mut v: Vec<V>) -> V {
    v.sort();
    V::Seq(v)
}
impl<T: ToV> ToV for BTreeSet<T> {
    fn to_v(&self) -> V {
        sorted(self.iter().map(|x| x.to_v()).collect())
    }
}
impl<T: ToV> ToV for HashSet<T> {
    fn to_v(&self) -> V {
        sorted(self.iter().map(|x| x.to_v()).collect())
    }
}
impl<T: ToV + Ord> ToV for BinaryHeap<T> {
    fn to_v(&self) -> V {
        sorted(self.iter().map(|x| x.to_v()).collect())
    }
}
impl<K: ToV, W: ToV> ToV for BTreeMap<K, W> {
    fn to_v(&self) -> V {
        sorted(self.iter().map(|(k, v)| V::Seq(vec![k.to_v(), v.to_v()])).collect())
    }
}
impl<K: ToV, W: ToV> ToV for HashMap<K, W> {
    fn to_v(&self) -> V {
        sorted(self.iter().map(|(k, v)| V::Seq(vec![k.to_v(), v.to_v()])).collect())
    }
}
impl<A: ToV> ToV for (A,) {
    fn to_v(&self) -> V {
        V::Seq(vec![self.0.to_v()])
    }
}
impl<A: ToV, B: ToV> ToV for (A, B) {
    fn to_v(&self) -> V {
        V::Seq(vec![self.0.to_v(), self.1.to_v()])
    }
}
impl<A: ToV, B: ToV, C: ToV> ToV for (A, B, C) {
    fn to_v(&self) -> V {
        V::Seq(vec![self.0.to_v(), self.1.to_v(), self.2.to_v()])
    }
}
impl<const N: u64, T: ToV> ToV for Tagged<N, T> {
    fn to_v(&self) -> V {
        self.value().to_v()
    }
}
impl<T: ToV, E: ToV> ToV for Result<T, E> {
    fn to_v(&self) -> V {
        match self {
            Ok(x) => V::Seq(vec![V::I(0), x.to_v()]),
            Err(x) => V::Seq(vec![V::I(1), x.to_v()]),
        }
    }
}
impl<T: ToV> ToV for std::ops::Bound<T> {
    fn to_v(&self) -> V {
        match self {
            std::ops::Bound::Included(x) => V::Seq(vec![V::I(0), x.to_v()]),
            std::ops::Bound::Excluded(x) => V::Seq(vec![V::I(1), x.to_v()]),
            std::ops::Bound::Unbounded => V::Seq(vec![V::I(2)]),
        }
    }
}
impl<T: ToV> ToV for Range<T> {
    fn to_v(&self) -> V {
        V::Seq(vec![self.start.to_v(), self.end.to_v()])
    }
}
impl ToV for Duration {
    fn to_v(&self) -> V {
        V::Seq(vec![V::I(self.as_secs() as i128), V::I(self.subsec_nanos() as i128)])
    }
}

#[derive(Debug, Clone, Copy, PartialEq, Eq)]
pub enum EClass {
    EndOfInput,
    Other,
}

fn eclass(e: &Error) -> EClass {
    if e.is_end_of_input() {
        EClass::EndOfInput
    } else {
        EClass::Other
    }
}

pub struct Obs {
    pub r: Result<V, (EClass, String)>,
    pub pos: usize,
    /// Borrowed results point into the input.
    pub prov_ok: bool,
}

type Real = fn(&[u8]) -> Obs;

fn obs<T: ToV>(r: Result<T, Error>, pos: usize) -> Obs {
    Obs { r: r.map(|x| x.to_v()).map_err(|e| (eclass(&e), e.to_string())), pos, prov_ok: true }
}

fn typed<T>(b: &[u8]) -> Obs
where
    T: for<'x> Decode<'x, ()> + ToV,
{
    let mut d = Decoder::new(b);
    let r: Result<T, _> = d.decode();
    obs(r, d.position())
}

fn type_label(t: Type) -> &'static str {
    match t {
        Type::Bool => "bool",
        Type::Null => "null",
        Type::Undefined => "undefined",
        Type::U8 | Type::U16 | Type::U32 | Type::U64 | Type::I8 | Type::I16 | Type::I32 | Type::I64 | Type::Int => "int",
        Type::F16 => "f16",
        Type::F32 => "f32",
        Type::F64 => "f64",
        Type::Simple => "simple",
        Type::Bytes => "bytes",
        Type::BytesIndef => "bytes-indef",
        Type::String => "string",
        Type::StringIndef => "string-indef",
        Type::Array => "array",
        Type::ArrayIndef => "array-indef",
        Type::Map => "map",
        Type::MapIndef => "map-indef",
        Type::Tag => "tag",
        Type::Break => "break",
        Type::Unknown(_) => "unknown",
    }
}

pub struct Target {
    pub name: &'static str,
    pub ty: Ty,
    pub real: Real,
}

macro_rules! acc {
    ($name:expr, $ty:expr, |$d:ident| $e:expr) => {
        Target {
            name: $name,
            ty: $ty,
            real: |b: &[u8]| {
                let mut $d = Decoder::new(b);
                let r = $e;
                let pos = $d.position();
                obs(r, pos)
            },
        }
    };
}

macro_rules! tgt {
    ($t:ty, $ty:expr) => {
        Target { name: concat!("decode::<", stringify!($t), ">"), ty: $ty, real: typed::<$t> }
    };
}

pub fn targets() -> Vec<Target> {
    use Ty::*;
    let mut v = vec![
        acc!("bool()", Bool, |d| d.bool()),
        acc!("u8()", U8, |d| d.u8()),
        acc!("u16()", U16, |d| d.u16()),
        acc!("u32()", U32, |d| d.u32()),
        acc!("u64()", U64, |d| d.u64()),
        acc!("i8()", I8, |d| d.i8()),
        acc!("i16()", I16, |d| d.i16()),
        acc!("i32()", I32, |d| d.i32()),
        acc!("i64()", I64, |d| d.i64()),
        acc!("int()", Int, |d| d.int()),
        acc!("f16()", AccF16, |d| d.f16()),
        acc!("f32()", F32, |d| d.f32()),
        acc!("f64()", F64, |d| d.f64()),
        acc!("char()", Char, |d| d.char()),
        acc!("null()", AccNull, |d| d.null()),
        acc!("undefined()", AccUndefined, |d| d.undefined()),
        acc!("simple()", AccSimple, |d| d.simple()),
        acc!("tag()", AccTag, |d| d.tag().map(|t| t.as_u64())),
        Target {
            name: "array()",
            ty: AccArrayHead,
            real: |b| {
                let mut d = Decoder::new(b);
                let r = d.array();
                Obs { r: r.map(V::Len).map_err(|e| (eclass(&e), e.to_string())), pos: d.position(), prov_ok: true }
            },
        },
        Target {
            name: "map()",
            ty: AccMapHead,
            real: |b| {
                let mut d = Decoder::new(b);
                let r = d.map();
                Obs { r: r.map(V::Len).map_err(|e| (eclass(&e), e.to_string())), pos: d.position(), prov_ok: true }
            },
        },
        Target {
            name: "datatype()",
            ty: AccDatatype,
            real: |b| {
                let d = Decoder::new(b);
                let r = d.datatype();
                Obs { r: r.map(|t| V::Ty(type_label(t))).map_err(|e| (eclass(&e), e.to_string())), pos: d.position(), prov_ok: true }
            },
        },
        Target {
            name: "bytes()",
            ty: Bytes,
            real: |b| {
                let mut d = Decoder::new(b);
                let r = d.bytes();
                let prov = r.as_ref().map(|s| mon::within(b, s.as_ptr(), s.len())).unwrap_or(true);
                let mut o = obs(r, d.position());
                o.prov_ok = prov;
                o
            },
        },
        Target {
            name: "str()",
            ty: Str,
            real: |b| {
                let mut d = Decoder::new(b);
                let r = d.str();
                let prov = r.as_ref().map(|s| mon::within(b, s.as_ptr(), s.len())).unwrap_or(true);
                let mut o = obs(r, d.position());
                o.prov_ok = prov;
                o
            },
        },
        Target {
            name: "bytes_iter()",
            ty: AccBytesIter,
            real: |b| {
                let mut d = Decoder::new(b);
                let mut prov = true;
                let r = (|| {
                    let mut out = Vec::new();
                    for c in d.bytes_iter()? {
                        let c = c?;
                        prov &= mon::within(b, c.as_ptr(), c.len());
                        out.push(V::Bytes(c.to_vec()))
                    }
                    Ok(V::Seq(out))
                })();
                Obs { r: r.map_err(|e: Error| (eclass(&e), e.to_string())), pos: d.position(), prov_ok: prov }
            },
        },
        Target {
            name: "str_iter()",
            ty: AccStrIter,
            real: |b| {
                let mut d = Decoder::new(b);
                let mut prov = true;
                let r = (|| {
                    let mut out = Vec::new();
                    for c in d.str_iter()? {
                        let c = c?;
                        prov &= mon::within(b, c.as_ptr(), c.len());
                        out.push(V::Str(c.to_string()))
                    }
                    Ok(V::Seq(out))
                })();
                Obs { r: r.map_err(|e: Error| (eclass(&e), e.to_string())), pos: d.position(), prov_ok: prov }
            },
        },
        Target {
            name: "array_iter::<u64>()",
            ty: Seq(bx(U64)),
            real: |b| {
                let mut d = Decoder::new(b);
                let r = (|| {
                    let mut out = Vec::new();
                    for x in d.array_iter::<u64>()? {
                        out.push(V::I(x? as i128))
                    }
                    Ok(V::Seq(out))
                })();
                Obs { r: r.map_err(|e: Error| (eclass(&e), e.to_string())), pos: d.position(), prov_ok: true }
            },
        },
        Target {
            name: "map_iter::<u64,&str>()",
            ty: Map(bx(U64), bx(Str)),
            real: |b| {
                let mut d = Decoder::new(b);
                let mut prov = true;
                let r = (|| {
                    let mut m: BTreeMap<V, V> = BTreeMap::new();
                    for x in d.map_iter::<u64, &str>()? {
                        let (k, s) = x?;
                        prov &= mon::within(b, s.as_ptr(), s.len());
                        m.insert(V::I(k as i128), V::Str(s.to_string()));
                    }
                    Ok(V::Seq(m.into_iter().map(|(a, b)| V::Seq(vec![a, b])).collect()))
                })();
                Obs { r: r.map_err(|e: Error| (eclass(&e), e.to_string())), pos: d.position(), prov_ok: prov }
            },
        },
        Target {
            name: "probe().u64()",
            ty: U64,
            real: |b| {
                let mut d = Decoder::new(b);
                let before = d.position();
                let r = d.probe().u64();
                if d.position() != before {
                    panic!("probe moved the decoder from {} to {}", before, d.position());
                }
                // decoding continues as if probe was never called
                let r2 = d.u64();
                match (r, r2) {
                    (Ok(a), Ok(b2)) if a == b2 => obs::<u64>(Ok(a), d.position()),
                    (Err(_), Err(e)) => obs::<u64>(Err(e), d.position()),
                    _ => panic!("probe and direct decode disagree"),
                }
            },
        },
        Target {
            name: "decode::<&str>",
            ty: Str,
            real: |b| {
                let mut d = Decoder::new(b);
                let r: Result<&str, _> = d.decode();
                let prov = r.as_ref().map(|s| mon::within(b, s.as_ptr(), s.len())).unwrap_or(true);
                let mut o = obs(r, d.position());
                o.prov_ok = prov;
                o
            },
        },
        Target {
            name: "decode::<&ByteSlice>",
            ty: Bytes,
            real: |b| {
                let mut d = Decoder::new(b);
                let r: Result<&ByteSlice, _> = d.decode();
                let prov = r.as_ref().map(|s| mon::within(b, s.as_ptr(), s.len())).unwrap_or(true);
                let mut o = obs(r, d.position());
                o.prov_ok = prov;
                o
            },
        },
        Target {
            name: "decode::<&CStr>",
            ty: CStr,
            real: |b| {
                let mut d = Decoder::new(b);
                let r: Result<&std::ffi::CStr, _> = d.decode();
                let prov = r.as_ref().map(|s| mon::within(b, s.to_bytes_with_nul().as_ptr(), s.to_bytes_with_nul().len())).unwrap_or(true);
                let mut o = obs(r, d.position());
                o.prov_ok = prov;
                o
            },
        },
        Target {
            name: "decode::<HashMap<u64,&str>>",
            ty: Map(bx(U64), bx(Str)),
            real: |b| {
                let mut d = Decoder::new(b);
                let r: Result<HashMap<u64, &str>, _> = d.decode();
                let prov = r.as_ref().map(|m| m.values().all(|s| mon::within(b, s.as_ptr(), s.len()))).unwrap_or(true);
                let mut o = obs(r, d.position());
                o.prov_ok = prov;
                o
            },
        },
    ];
    v.extend(vec![
        tgt!(std::ffi::CString, CStr),
        tgt!(u8, U8),
        tgt!(u64, U64),
        tgt!(i16, I16),
        tgt!(i64, I64),
        tgt!(usize, U64),
        tgt!(minicbor::data::Int, Int),
        tgt!(bool, Bool),
        tgt!(char, Char),
        tgt!(f32, F32),
        tgt!(f64, F64),
        tgt!((), Unit),
        tgt!(String, Str),
        tgt!(Box<str>, Str),
        tgt!(Cow<'static, str>, Str),
        tgt!(std::path::PathBuf, Str),
        tgt!(ByteVec, Bytes),
        tgt!(ByteArray<0>, ByteArr(0)),
        tgt!(ByteArray<1>, ByteArr(1)),
        tgt!(ByteArray<2>, ByteArr(2)),
        tgt!(Option<u64>, Opt(bx(U64))),
        tgt!(Option<String>, Opt(bx(Str))),
        tgt!(Option<bool>, Opt(bx(Bool))),
        tgt!(Option<Vec<u8>>, Opt(bx(Seq(bx(U8))))),
        tgt!(Box<i32>, I32),
        tgt!(Vec<u64>, Seq(bx(U64))),
        tgt!(Vec<u8>, Seq(bx(U8))),
        tgt!(Vec<i8>, Seq(bx(I8))),
        tgt!(Vec<String>, Seq(bx(Str))),
        tgt!(Vec<Option<u8>>, Seq(bx(Opt(bx(U8))))),
        tgt!(Vec<Vec<u64>>, Seq(bx(Seq(bx(U64))))),
        tgt!(VecDeque<u64>, Seq(bx(U64))),
        tgt!(LinkedList<u64>, Seq(bx(U64))),
        tgt!(BTreeSet<u64>, Set(bx(U64))),
        tgt!(HashSet<u64>, Set(bx(U64))),
        tgt!(BinaryHeap<u64>, Seq(bx(U64))),
        tgt!([u64; 0], Arr(bx(U64), 0)),
        tgt!([u64; 1], Arr(bx(U64), 1)),
        tgt!([u64; 2], Arr(bx(U64), 2)),
        tgt!([u16; 3], Arr(bx(U16), 3)),
        tgt!([String; 2], Arr(bx(Str), 2)),
        tgt!((u64,), Tup(vec![U64])),
        tgt!((u64, u64), Tup(vec![U64, U64])),
        tgt!((u8, String), Tup(vec![U8, Str])),
        tgt!((u64, bool, i64), Tup(vec![U64, Bool, I64])),
        tgt!(BTreeMap<u64, String>, Map(bx(U64), bx(Str))),
        tgt!(BTreeMap<u64, u64>, Map(bx(U64), bx(U64))),
        tgt!(BTreeMap<String, Vec<u64>>, Map(bx(Str), bx(Seq(bx(U64))))),
        tgt!(HashMap<u64, bool>, Map(bx(U64), bx(Bool))),
        tgt!(minicbor::data::Tagged<2, u64>, Ty::Tagged(2, bx(U64))),
        tgt!(minicbor::data::Tagged<24, String>, Ty::Tagged(24, bx(Str))),
        tgt!(minicbor::data::Tagged<2, Vec<u64>>, Ty::Tagged(2, bx(Seq(bx(U64))))),
        tgt!(Result<u64, String>, Res(bx(U64), bx(Str))),
        tgt!(std::ops::Bound<u64>, Ty::Bound(bx(U64))),
        tgt!(std::ops::Bound<String>, Ty::Bound(bx(Str))),
        tgt!(std::ops::Range<u64>, Ty::Range(bx(U64))),
        tgt!(std::ops::Range<Option<u8>>, Ty::Range(bx(Opt(bx(U8))))),
        tgt!(std::time::Duration, Ty::Duration),
    ]);
    v
}

// BinaryHeap<u64> yields a sorted vector in to_v; model it as a sorted Seq
fn normalise(ty_name: &str, e: Exp) -> Exp {
    if ty_name.contains("BinaryHeap") {
        if let Exp::Val(V::Seq(mut v)) = e {
            v.sort();
            return Exp::Val(V::Seq(v));
        }
    }
    e
}

fn fail(rep: &mut Report, sig: String, what: String, input: &[u8]) {
    fail_r(rep, sig, what, input, input)
}

/// `replay_input` is the complete encoding the case was derived from.
fn fail_r(rep: &mut Report, sig: String, what: String, input: &[u8], replay_input: &[u8]) {
    rep.violation(&format!("{}|{}", ID, sig), J::obj().with("what", J::s(what)).with("input", J::s(hex(&input[..input.len().min(300)]))), if replay_input.len() <= 2000 { vec!["c04".into(), "--replay".into(), hex(replay_input)] } else { vec![] });
}

pub struct Ctx {
    pub targets: Vec<Target>,
}

/// Run every target against `enc ++ suffix` and the accepted ones against
/// every strict prefix.
pub fn check_item(cx: &Ctx, rep: &mut Report, it: &Item, enc: &[u8], rng: &mut Rng) {
    let elen = enc.len();
    let suffixes: [&[u8]; 2] = [&[], &[0xff]];
    let suf = suffixes[(rng.next_u64() & 1) as usize];
    let mut input = enc.to_vec();
    input.extend_from_slice(suf);
    let input: Box<[u8]> = input.into_boxed_slice();
    let prefix_cuts: Vec<usize> = if elen <= 48 { (0..elen).collect() } else { (0..12).map(|_| rng.usize_below(elen)).chain(elen - 4..elen).collect() };
    for t in &cx.targets {
        rep.eval();
        let exp = normalise(t.name, model(&t.ty, it));
        let r = mon::guarded(|| (t.real)(&input));
        let o = match r {
            Ok(o) => o,
            Err(p) => {
                fail(rep, format!("{}|panic", t.name), format!("{} panicked: {} at {}", t.name, p.message, p.location), &input);
                continue;
            }
        };
        let want_pos = consumed(&t.ty, it, elen);
        let mut accepted = false;
        match (&exp, &o.r) {
            (Exp::Val(v), Ok(w)) => {
                if v != w {
                    fail(rep, format!("{}|wrong-value", t.name), format!("{} returned {:?}, the data model says {:?}", t.name, w, v), &input);
                } else if o.pos != want_pos {
                    fail(rep, format!("{}|position", t.name), format!("{} left the position at {}, expected {}", t.name, o.pos, want_pos), &input);
                } else if !o.prov_ok {
                    fail(rep, format!("{}|provenance", t.name), format!("{} returned a borrowed slice outside the input", t.name), &input);
                } else {
                    accepted = true;
                    rep.count("matching accessor/type returned the data-model value");
                }
            }
            (Exp::Val(v), Err((_, msg))) => fail(rep, format!("{}|rejects-matching", t.name), format!("{} failed with '{}' on an item it must accept as {:?}", t.name, msg, v), &input),
            (Exp::NaN, Ok(V::F32(b))) if refnum::is_nan32(*b) && o.pos == want_pos => accepted = true,
            (Exp::NaN, Ok(V::F64(b))) if refnum::is_nan64(*b) && o.pos == want_pos => accepted = true,
            (Exp::NaN, other) => fail(rep, format!("{}|nan", t.name), format!("{} returned {:?} for a NaN (position {})", t.name, other, o.pos), &input),
            (Exp::Err, Ok(w)) => fail(rep, format!("{}|accepts-mismatch", t.name), format!("{} returned {:?} for an item of class {} that does not match", t.name, w, it.class()), &input),
            (Exp::Err, Err(_)) => rep.count("non-matching accessor/type returned an error"),
            (Exp::Any(Some(v)), Ok(w)) if v == w => rep.count("undocumented case: accepted with the model value"),
            (Exp::Any(None), Ok(_)) => rep.count("undocumented case: accepted"),
            (Exp::Any(Some(v)), Ok(w)) => fail(rep, format!("{}|wrong-value", t.name), format!("{} returned {:?}; only an error or {:?} is acceptable", t.name, w, v), &input),
            (Exp::Any(_), Err(_)) => rep.count("undocumented case: rejected"),
        }
        if o.pos != usize::MAX && o.pos > input.len() {
            fail(rep, format!("{}|position-beyond-input", t.name), format!("position {} > input length {}", o.pos, input.len()), &input);
        }
        // strict prefixes of an accepted value encoding
        if accepted && want_pos == elen && elen > 0 {
            for cut in &prefix_cuts {
                rep.eval();
                let p: Box<[u8]> = enc[..*cut].to_vec().into_boxed_slice();
                match mon::guarded(|| (t.real)(&p)) {
                    Err(pn) => fail_r(rep, format!("{}|panic", t.name), format!("{} panicked on a strict prefix: {}", t.name, pn.message), &p, enc),
                    Ok(o) => match o.r {
                        Ok(w) => fail_r(rep, format!("{}|prefix-accepted", t.name), format!("{} returned {:?} on a strict prefix ({} of {} bytes)", t.name, w, cut, elen), &p, enc),
                        Err((EClass::EndOfInput, _)) => rep.count("strict prefix -> end-of-input"),
                        Err((EClass::Other, msg)) => fail_r(rep, format!("{}|prefix-error-class", t.name), format!("{} failed on a strict prefix ({} of {} bytes) with '{}' instead of the end-of-input class", t.name, cut, elen, msg), &p, enc),
                    },
                }
            }
        }
    }
    rep.count(&format!("item/{}", it.class()));
}

/// Typed generator: items shaped so that the composite targets match often.
pub fn shaped_item(rng: &mut Rng) -> Item {
    use vcore::gen::{gen_u64, widen};
    let uint = |rng: &mut Rng| Item::uint(if rng.bool() { rng.below(300) } else { gen_u64(rng) });
    let text = |rng: &mut Rng| Item::text(&vcore::gen::gen_string(rng, false));
    let it = match rng.below(16) {
        0 | 1 => {
            let n = rng.below(5) as usize;
            Item::array((0..n).map(|_| uint(rng)).collect())
        }
        2 => {
            let n = rng.below(4) as usize;
            Item::array((0..n).map(|_| text(rng)).collect())
        }
        3 | 4 => {
            let n = rng.below(4) as usize;
            Item::map((0..n).map(|_| (uint(rng), if rng.chance(4, 5) { text(rng) } else { uint(rng) })).collect())
        }
        5 => Item::tag(*rng.pick(&[2u64, 24, 3]), if rng.bool() { uint(rng) } else { text(rng) }),
        6 if rng.bool() => Item::array(vec![Item::uint(rng.below(3)), if rng.bool() { uint(rng) } else { text(rng) }]),
        6 => {
            // two-element "enum" arrays whose payload is a container of its own (Result, Bound::Unbounded)
            let n = rng.below(4) as usize;
            let payload = match rng.below(4) {
                0 => Item::array((0..n).map(|_| uint(rng)).collect()),
                1 => Item::map((0..n).map(|_| (uint(rng), text(rng))).collect()),
                2 => Item::tag(24, Item::array(vec![text(rng)])),
                _ => Item::array(vec![Item::array((0..n).map(|_| uint(rng)).collect()), text(rng)]),
            };
            Item::array(vec![Item::uint(rng.below(4)), payload])
        }
        7 => Item::array(vec![uint(rng), Item::uint(*rng.pick(&[0u64, 1, 999_999_999, 1_000_000_000, 4_294_967_295, 4_294_967_296]))]),
        8 => Item::array(vec![Item::uint(rng.below(256)), text(rng)]),
        9 => Item::array(vec![uint(rng), Item::bool(rng.bool()), Item::int(vcore::gen::gen_int(rng, 64, true))]),
        10 => Item::array((0..rng.below(4)).map(|_| if rng.chance(1, 3) { Item::null() } else { Item::uint(rng.below(256)) }).collect()),
        11 => Item::array((0..rng.below(3)).map(|_| Item::array((0..rng.below(3)).map(|_| uint(rng)).collect())).collect()),
        12 => Item::map((0..rng.below(3)).map(|_| (text(rng), Item::array((0..rng.below(3)).map(|_| uint(rng)).collect()))).collect()),
        13 if rng.bool() => Item::array(vec![if rng.bool() { Item::null() } else { uint(rng) }, if rng.bool() { Item::null() } else { Item::uint(rng.below(300)) }]),
        13 => { let n = rng.below(3) as usize; Item::bytes(&rng.bytes(n)) }
        _ => {
            // byte strings shaped like C strings: terminator present / missing / doubled, interior NULs
            let mut b: Vec<u8> = (0..rng.below(5)).map(|_| 0x61 + rng.below(26) as u8).collect();
            match rng.below(6) {
                0 => {}
                1 | 2 => b.push(0),
                3 => { b.push(0); b.push(0) }
                4 => { let k = rng.usize_below(b.len() + 1); b.insert(k, 0); b.push(0) }
                _ => { let k = rng.usize_below(b.len() + 1); b.insert(k, 0) }
            }
            Item::bytes(&b)
        }
    };
    let it = if rng.chance(1, 3) { vcore::gen::indefinite_containers(rng, &it, 60) } else { it };
    if rng.chance(1, 3) {
        widen(rng, &it)
    } else {
        it
    }
}

pub fn run(a: &Args, rep: &mut Report) {
    let cx = Ctx { targets: targets() };
    rep.note(format!("{} accessors / target types", cx.targets.len()));
    let mut rng = Rng::derive("c04", a.seed, a.shard, 0);
    // 1. exhaustive small trees (all head widths on the rich alphabet)
    let max_nodes = if a.thorough() { 4 } else { 3 };
    let n = corpus::small_trees(a, max_nodes, 3, &mut |it| {
        let enc = it.encode();
        check_item(&cx, rep, it, &enc, &mut rng);
        if it.node_count() >= 2 {
            crate::iterlaws::check_item(rep, it, &enc);
        }
    });
    rep.enumerated(n);
    rep.count_n("exhaustive/small trees", n);
    rep.exhaustive.push(format!("all item trees with <= {} nodes over the leaf alphabet x head-width assignments, every target, every strict prefix", max_nodes));
    mon::tick();
    // 2. random trees and shape-directed items
    let nrand: u64 = if a.thorough() { 6_000_000 } else { 800_000 };
    for i in 0..nrand {
        if !a.mine(i) {
            continue;
        }
        let (it, mut r) = if i % 2 == 0 {
            corpus::random_tree("c04/tree", a.seed, i, true)
        } else {
            let mut r = Rng::derive("c04/shaped", a.seed, 0, i);
            (shaped_item(&mut r), r)
        };
        let enc = it.encode();
        if enc.len() > 4096 {
            continue;
        }
        rep.seen(fnv64(&enc));
        check_item(&cx, rep, &it, &enc, &mut r);
        if i % 4 < 2 {
            crate::iterlaws::check_item(rep, &it, &enc);
        }
        if rep.want_sample() && enc.len() > 6 && enc.len() < 32 {
            rep.sample(J::obj().with("item", J::s(hex(&enc))).with("diag", J::s(refcbor::diag(&it))));
        }
        if i & 0xff == 0 {
            mon::tick()
        }
    }
}

pub fn replay(a: &Args, rep: &mut Report) {
    if a.replay[0] == "iterlaws" {
        let input = vcore::json::unhex(&a.replay[1]).expect("hex");
        rep.eval();
        return crate::iterlaws::check_bytes(rep, &input);
    }
    let input = vcore::json::unhex(&a.replay[0]).expect("hex");
    let cx = Ctx { targets: targets() };
    let mut rng = Rng::new(1);
    match refcbor::parse(&input) {
        Ok((it, n)) => {
            println!("replaying all targets on {} ({} bytes, item {} bytes)", refcbor::diag(&it), input.len(), n);
            check_item(&cx, rep, &it, &input[..n], &mut rng);
        }
        Err(e) => {
            println!("input {} is not a complete well-formed item ({:?}): treating it as a strict prefix", hex(&input), e);
            for t in &cx.targets {
                rep.eval();
                match mon::guarded(|| (t.real)(&input)) {
                    Ok(o) => println!("  {} -> {:?} at {}", t.name, o.r, o.pos),
                    Err(p) => fail(rep, format!("{}|panic", t.name), p.message, &input),
                }
            }
        }
    }
}
