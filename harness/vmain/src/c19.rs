//! C19 — diagnostic display is total, size-bounded and follows the
//! documented notation.

use crate::corpus;
use std::fmt::Write;
use vcore::gen;
use vcore::json::{hex, J};
use vcore::mon::{self, LimitedSink};
use vcore::refcbor::{self, Item};
use vcore::report::{Args, Report};
use vcore::rng::{fnv64, Rng};

const ID: &str = "C19";

fn out_limit(len: usize) -> usize {
    16 * len + 256
}

fn fail(rep: &mut Report, sig: &str, what: String, input: &[u8]) {
    rep.violation(&format!("{}|{}", ID, sig), J::obj().with("what", J::s(what)).with("input", J::s(hex(&input[..input.len().min(300)]))), if input.len() <= 4000 { vec!["c19".into(), "--replay".into(), hex(input)] } else { vec![] });
}

/// Totality, termination and the size bound on arbitrary bytes.  Returns the
/// rendering if `keep`.
pub fn check_total(rep: &mut Report, input: &[u8], keep: bool) -> Option<String> {
    rep.eval();
    let boxed: Box<[u8]> = input.to_vec().into_boxed_slice();
    let mut sink = LimitedSink::new(out_limit(boxed.len()), keep);
    mon::steps_reset(64 * boxed.len() as u64 + 4096);
    let sc = mon::AllocScope::begin();
    let st = mon::StackScope::begin(crate::c02::STACK_BUDGET);
    let r = mon::guarded(|| write!(sink, "{}", minicbor::display(&boxed)));
    rep.max("display/max stack depth below the call (bytes)", st.end() as f64);
    let al = sc.end();
    let steps = mon::steps_read();
    mon::steps_reset(0);
    match r {
        Err(p) => {
            fail(rep, if p.is_step_limit() { "display|does-not-terminate" } else if p.is_stack_limit() { "display|stack-depth" } else { "display|panic" }, format!("{} at {}", p.message, p.location), input);
            return None;
        }
        Ok(Err(_)) => {
            if sink.overflowed {
                fail(rep, "display|output-unbounded", format!("output exceeded {} bytes for {} input bytes", sink.limit, boxed.len()), input);
            } else {
                fail(rep, "display|fmt-error", "formatting failed although decoding problems are documented to be reported inline".into(), input);
            }
            return None;
        }
        Ok(Ok(())) => {}
    }
    rep.max("display/output bytes per input byte", sink.written as f64 / boxed.len().max(1) as f64);
    if mon::steps_available() {
        rep.max("display/steps per input byte", steps as f64 / boxed.len().max(1) as f64);
    }
    if mon::alloc_active() {
        rep.max("display/peak heap bytes per input byte", al.peak as f64 / boxed.len().max(1) as f64);
        if al.peak > 1024 * boxed.len() + 8192 {
            fail(rep, "display|memory", format!("peak allocation {} bytes for {} input bytes", al.peak, boxed.len()), input);
        }
    }
    if keep {
        Some(sink.buf)
    } else {
        None
    }
}

pub fn check_exact(rep: &mut Report, it: &Item) {
    let enc = it.encode();
    if let Some(got) = check_total(rep, &enc, true) {
        let want = refcbor::diag(it);
        if refcbor::diag_normalise(&got) != refcbor::diag_normalise(&want) {
            fail(rep, &format!("display|notation|{}", it.class()), format!("rendered {:?}, the documented notation gives {:?}", trunc(&got), trunc(&want)), &enc);
        } else {
            if enc.len() <= 24 {
                spec_law(rep, &enc, &got);
            }
            rep.count("exact rendering compared");
            if rep.want_sample() && enc.len() > 5 && enc.len() < 30 {
                rep.sample(J::obj().with("input", J::s(hex(&enc))).with("rendering", J::s(got)));
            }
        }
    }
}

/// The notation does not depend on the caller's format spec: with width / precision / fill / sign
/// flags the output is either unchanged or the whole rendering padded / truncated the way
/// `Formatter::pad` does it for a string (both are legitimate `Display` behaviour); per-token
/// padding, injected signs or truncated strings inside the notation are not.
fn spec_law(rep: &mut Report, enc: &[u8], plain: &str) {
    let pad = |prec: Option<usize>, width: usize, fill: char, align: u8| -> String {
        let t: String = match prec {
            Some(p) => plain.chars().take(p).collect(),
            None => plain.to_string(),
        };
        let n = t.chars().count();
        if n >= width {
            return t;
        }
        let k = width - n;
        let (l, r) = match align {
            0 => (0, k),
            1 => (k, 0),
            _ => (k / 2, k - k / 2),
        };
        format!("{}{}{}", std::iter::repeat(fill).take(l).collect::<String>(), t, std::iter::repeat(fill).take(r).collect::<String>())
    };
    let r = mon::guarded(|| {
        let d = || minicbor::display(enc);
        vec![
            ("{:8}", format!("{:8}", d()), pad(None, 8, ' ', 0)),
            ("{:>12}", format!("{:>12}", d()), pad(None, 12, ' ', 1)),
            ("{:+}", format!("{:+}", d()), plain.to_string()),
            ("{:.3}", format!("{:.3}", d()), pad(Some(3), 0, ' ', 0)),
            ("{:08}", format!("{:08}", d()), pad(None, 8, ' ', 0)),
            ("{:#}", format!("{:#}", d()), plain.to_string()),
            ("{:*^9.2}", format!("{:*^9.2}", d()), pad(Some(2), 9, '*', 2)),
            ("{:300}", format!("{:300}", d()), pad(None, 300, ' ', 0)),
        ]
    });
    rep.eval();
    match r {
        Err(p) => fail(rep, "display|format-spec-panic", format!("formatting with a width / precision panicked: {}", p.message), enc),
        Ok(rows) => {
            for (spec, got, padded) in rows {
                if got != plain && got != padded {
                    fail(rep, "display|format-spec", format!("with {} the rendering is {:?}; with {{}} it is {:?}", spec, trunc(&got), trunc(plain)), enc);
                    return;
                }
            }
            rep.count("rendering independent of the caller's format spec");
        }
    }
}

fn trunc(s: &str) -> String {
    if s.len() > 200 {
        format!("{}…", s.chars().take(200).collect::<String>())
    } else {
        s.to_string()
    }
}

fn check_invalid_text(rep: &mut Report, seed: u64, i: u64) {
    let mut rng = Rng::derive("c19/invalid-text", seed, 0, i);
    let n0 = rng.below(6) as usize;
    let mut bytes: Vec<u8> = vcore::gen::gen_string_len(&mut rng, n0).into_bytes();
    // make it invalid: truncated multi-byte character at the end, lone continuation byte,
    // overlong / out-of-range lead bytes
    match rng.below(6) {
        0 => bytes.push(0xc3),
        1 => bytes.extend_from_slice(&[0xe2, 0x82]),
        2 => bytes.extend_from_slice(&[0xf0, 0x9f, 0x98]),
        3 => { let k = rng.usize_below(bytes.len() + 1); bytes.insert(k, 0x80) }
        4 => { let k = rng.usize_below(bytes.len() + 1); bytes.insert(k, 0xff) }
        _ => bytes.extend_from_slice(&[0xc0, 0xaf]),
    }
    let bad = Item::Text { w: vcore::refcbor::min_width(bytes.len() as u64), v: bytes };
    // alone (last thing in the buffer), with a sibling after it, as a map value, behind a tag
    let it = match rng.below(6) {
        0 => bad,
        1 => Item::array(vec![Item::uint(1), bad]),
        2 => Item::array(vec![bad, Item::uint(2)]),
        3 => Item::map(vec![(Item::uint(0), bad)]),
        4 => Item::tag(rng.below(40), bad),
        _ => Item::array_indef(vec![Item::null(), bad]),
    };
    // half of the cases: long runs of multi-byte characters before the offending bytes
    let enc = if i % 2 == 0 { it.encode() } else { crate::c02::bad_text_item(&mut rng) };
    rep.seen(fnv64(&enc) ^ 0x5555);
    if let Some(out) = check_total(rep, &enc, true) {
        if !out.contains("!!!") {
            fail(rep, "display|invalid-text-not-reported", format!("a complete text item with invalid UTF-8 is rendered as {:?} without an inline error", out), &enc);
        } else {
            rep.count("invalid UTF-8 text reported inline");
        }
    }
}

pub fn run(a: &Args, rep: &mut Report) {
    // exact rendering: exhaustive small trees and random trees
    let max_nodes = if a.thorough() { 4 } else { 3 };
    let n = corpus::small_trees(a, max_nodes, 3, &mut |it| check_exact(rep, it));
    rep.enumerated(n);
    rep.exhaustive.push(format!("exact rendering of all item trees with <= {} nodes", max_nodes));
    let nrand: u64 = if a.thorough() { 6_000_000 } else { 300_000 };
    for i in 0..nrand {
        if !a.mine(i) {
            continue;
        }
        let (it, _) = corpus::random_tree("c19/tree", a.seed, i, true);
        rep.seen(fnv64(&it.encode()));
        check_exact(rep, &it);
        if i & 0x3ff == 0 {
            mon::tick()
        }
    }
    // dense containers: long runs of one-byte items whose rendering is many times longer than
    // their encoding (undefined, simple(n), null, false, -24, h'', ""), flat, as map pairs, nested
    // and behind tags: no output budget proportional to the input may cut them short
    {
        let leaves = [Item::Simple { w: 0, v: 23 }, Item::Simple { w: 0, v: 19 }, Item::Simple { w: 0, v: 0 }, Item::Simple { w: 0, v: 22 }, Item::Simple { w: 0, v: 20 }, Item::NInt { w: 0, v: 23 }, Item::Bytes { w: 0, v: vec![] }, Item::Text { w: 0, v: vec![] }, Item::Simple { w: 1, v: 255 }, Item::F16(0xfc00)];
        let counts: Vec<usize> = (0..=70).chain([100, 255, 256, 257, 1000, 5000]).collect();
        let mut k = 0u64;
        for (li, leaf) in leaves.iter().enumerate() {
            for &n in &counts {
                k += 1;
                if !a.mine(k) {
                    continue;
                }
                let other = &leaves[(li + 1) % leaves.len()];
                let run: Vec<Item> = (0..n).map(|_| leaf.clone()).collect();
                let mixed: Vec<Item> = (0..n).map(|j| if j % 2 == 0 { leaf.clone() } else { other.clone() }).collect();
                let pairs: Vec<(Item, Item)> = (0..n / 2).map(|_| (leaf.clone(), other.clone())).collect();
                let shapes = vec![
                    Item::Array { w: Some(if n < 24 { 0 } else if n < 256 { 1 } else { 2 }), items: run.clone() },
                    Item::Array { w: None, items: run.clone() },
                    Item::Array { w: None, items: mixed.clone() },
                    Item::Map { w: Some(if n / 2 < 24 { 0 } else if n / 2 < 256 { 1 } else { 2 }), items: pairs.clone() },
                    Item::Map { w: None, items: pairs.clone() },
                    Item::Tag { w: 2, v: 55799, inner: Box::new(Item::Array { w: Some(0), items: vec![Item::Array { w: None, items: run.clone() }, Item::Array { w: Some(if n < 24 { 0 } else if n < 256 { 1 } else { 2 }), items: mixed }] }) },
                ];
                for it in &shapes {
                    rep.seen(fnv64(&it.encode()));
                    check_exact(rep, it);
                }
                rep.count("dense containers of one-byte items rendered exactly");
            }
        }
    }
    // all halves, simple values (rendering of floats and simple(n))
    for h in (0..=0xffffu32).filter(|h| a.mine(*h as u64)) {
        if !vcore::refnum::is_nan16(h as u16) {
            check_exact(rep, &Item::F16(h as u16));
        }
    }
    // totality: all short strings
    let n = corpus::all_short_strings(a, if a.thorough() { 3 } else { 2 }, &mut |b| {
        check_total(rep, b, false);
    });
    rep.enumerated(n);
    rep.exhaustive.push(format!("totality and size bound on all byte strings of length <= {}", if a.thorough() { 3 } else { 2 }));
    // heads with extreme declared lengths, alone and nested
    if a.shard == 0 {
        let mut inputs: Vec<Vec<u8>> = Vec::new();
        gen::head_sweep(&mut |b| inputs.push(b.to_vec()));
        let n0 = inputs.len();
        for k in 0..n0 {
            for pre in [&[0x82u8][..], &[0x9f], &[0xa1, 0x00], &[0xbf, 0x61, 0x61], &[0xc0], &[0x9f, 0x82, 0x00], &[0x5f], &[0x7f]] {
                let mut v = pre.to_vec();
                v.extend_from_slice(&inputs[k]);
                inputs.push(v);
            }
        }
        for b in &inputs {
            check_total(rep, b, false);
        }
        rep.enumerated(inputs.len() as u64);
        for extra in [&[0x9b, 0xff, 0xff, 0xff, 0xff, 0xff, 0xff, 0xff, 0xff][..], &[0x9a, 0x00, 0x01, 0x86, 0xa0], &[0xbb, 0xff, 0xff, 0xff, 0xff, 0xff, 0xff, 0xff, 0xff], &[0xba, 0x7f, 0xff, 0xff, 0xff, 0x00], &[0x9b, 0, 0, 0, 1, 0, 0, 0, 0, 0x01, 0x02]] {
            check_total(rep, extra, false);
        }
        rep.sample(J::obj().with("input", J::s("9bffffffffffffffff")).with("expect", J::s("terminates with an inline error, output <= 16*len+256 bytes")));
    }
    // mutated / truncated valid items
    let nmut: u64 = if a.thorough() { 8_000_000 } else { 400_000 };
    for i in 0..nmut {
        if !a.mine(i) {
            continue;
        }
        let (it, mut rng) = corpus::random_tree("c19/mut", a.seed, i, true);
        let (other, _) = corpus::random_tree("c19/mut2", a.seed, i, true);
        let (m, _) = gen::mutate(&mut rng, &it.encode(), &other.encode());
        rep.seen(fnv64(&m) ^ 0xaaaa);
        check_total(rep, &m, false);
        if i & 0x3ff == 0 {
            mon::tick()
        }
    }
    // "decoding problems are reported inline": a complete item whose text is not valid UTF-8 (also
    // when the string ends in the middle of a multi-byte character, and when it is the last thing
    // in the buffer) must show up as an inline `!!!` error, not as silence
    let ninv: u64 = if a.thorough() { 400_000 } else { 40_000 };
    for i in 0..ninv {
        if a.mine(i) {
            check_invalid_text(rep, a.seed, i);
        }
    }
    // deep nesting
    let mut rng = Rng::derive("c19/nest", a.seed, a.shard, 0);
    for (k, (name, enc)) in corpus::nesting_families(&mut rng, 3000).iter().enumerate() {
        if a.mine(k as u64) {
            mon::set_case(name.as_bytes());
            check_total(rep, enc, false);
        }
    }
}

pub fn replay(a: &Args, rep: &mut Report) {
    let b = vcore::json::unhex(&a.replay[0]).expect("hex");
    match refcbor::parse(&b) {
        Ok((it, n)) if n == b.len() && it.text_valid() => {
            println!("well-formed item: {}", refcbor::diag(&it));
            check_exact(rep, &it)
        }
        _ => {
            let r = check_total(rep, &b, true);
            println!("rendering: {:?}", r.map(|s| trunc(&s)));
        }
    }
}
