//! C17 — the serde bridge round-trips the serde data model with the
//! documented representation.
//!
//! Oracle: the same `T: Serialize` is serialised a second time through the
//! independent `RefSerializer`, which builds the item the documentation
//! prescribes; the bridge's bytes must equal the reference encoding of that
//! item, and `from_slice` must return a value whose reference item is equal
//! (floats bitwise), leaving the decoder exactly at the end.

use crate::refser::{self, to_item};
use crate::subj::Subject;
use serde::de::DeserializeOwned;
use serde::{Deserialize, Serialize};
use std::collections::{BTreeMap, BTreeSet};
use vcore::gen;
use vcore::json::{hex, J};
use vcore::mon;
use vcore::refcbor::{self, Item};
use vcore::report::{Args, Report};
use vcore::rng::{fnv64, hash_mix, Rng};

const ID: &str = "C17";

pub trait SType: Serialize + DeserializeOwned {
    const NAME: &'static str;
    /// Unknown extra fields may be inserted into every struct map of the value.
    const EXTRAS: bool = true;
    fn gen(rng: &mut Rng) -> Self;
    /// Case class used in violation signatures (e.g. the enum variant).
    fn label(&self) -> String {
        String::new()
    }
}

fn g<T: Subject>(rng: &mut Rng) -> T {
    T::gen(rng)
}

// ---------------------------------------------------------------------------
// helper types driving specific Serializer/Deserializer methods

/// Byte buffer through serialize_bytes / deserialize_byte_buf.
#[derive(Debug, PartialEq, Clone)]
pub struct Bytes(pub Vec<u8>);
impl Serialize for Bytes {
    fn serialize<S: serde::Serializer>(&self, s: S) -> Result<S::Ok, S::Error> {
        s.serialize_bytes(&self.0)
    }
}
impl<'de> Deserialize<'de> for Bytes {
    fn deserialize<D: serde::Deserializer<'de>>(d: D) -> Result<Self, D::Error> {
        struct V;
        impl<'de> serde::de::Visitor<'de> for V {
            type Value = Bytes;
            fn expecting(&self, f: &mut std::fmt::Formatter) -> std::fmt::Result {
                f.write_str("bytes")
            }
            fn visit_bytes<E>(self, v: &[u8]) -> Result<Bytes, E> {
                Ok(Bytes(v.to_vec()))
            }
            fn visit_byte_buf<E>(self, v: Vec<u8>) -> Result<Bytes, E> {
                Ok(Bytes(v))
            }
        }
        d.deserialize_byte_buf(V)
    }
}

/// Sequence serialised without announcing its length (indefinite array).
#[derive(Debug, PartialEq, Clone)]
pub struct UnsizedSeq(pub Vec<u32>);
impl Serialize for UnsizedSeq {
    fn serialize<S: serde::Serializer>(&self, s: S) -> Result<S::Ok, S::Error> {
        use serde::ser::SerializeSeq;
        let mut q = s.serialize_seq(None)?;
        for x in &self.0 {
            q.serialize_element(x)?
        }
        q.end()
    }
}
impl<'de> Deserialize<'de> for UnsizedSeq {
    fn deserialize<D: serde::Deserializer<'de>>(d: D) -> Result<Self, D::Error> {
        Vec::<u32>::deserialize(d).map(UnsizedSeq)
    }
}

/// Map serialised without announcing its length (indefinite map).
#[derive(Debug, PartialEq, Clone)]
pub struct UnsizedMap(pub BTreeMap<String, i16>);
impl Serialize for UnsizedMap {
    fn serialize<S: serde::Serializer>(&self, s: S) -> Result<S::Ok, S::Error> {
        use serde::ser::SerializeMap;
        let mut q = s.serialize_map(None)?;
        for (k, v) in &self.0 {
            q.serialize_entry(k, v)?
        }
        q.end()
    }
}
impl<'de> Deserialize<'de> for UnsizedMap {
    fn deserialize<D: serde::Deserializer<'de>>(d: D) -> Result<Self, D::Error> {
        BTreeMap::<String, i16>::deserialize(d).map(UnsizedMap)
    }
}

// ---------------------------------------------------------------------------
// the type family

#[derive(Serialize, Deserialize, Debug)]
pub struct Ints {
    a: u8,
    b: i8,
    c: u16,
    d: i16,
    e: u32,
    f: i32,
    g: u64,
    h: i64,
}
#[derive(Serialize, Deserialize, Debug)]
pub struct Scalars {
    x: f32,
    y: f64,
    z: bool,
    c: char,
    u: (),
}
#[derive(Serialize, Deserialize, Debug)]
pub struct Texts {
    s: String,
    b: Bytes,
    v: Vec<u8>,
    o: Option<u32>,
    oo: Option<String>,
    ob: Option<Bytes>,
}
#[derive(Serialize, Deserialize, Debug)]
pub struct UnitStruct;
#[derive(Serialize, Deserialize, Debug)]
pub struct Newtype(u64);
#[derive(Serialize, Deserialize, Debug)]
pub struct TupleStruct(u8, String, bool, Option<i64>);
#[derive(Serialize, Deserialize, Debug)]
pub struct Nested {
    n: Newtype,
    t: TupleStruct,
    i: Ints,
    v: Vec<Newtype>,
    m: BTreeMap<String, TupleStruct>,
    b: Box<Texts>,
}
#[derive(Serialize, Deserialize, Debug)]
pub struct Seqs {
    v: Vec<u32>,
    u: UnsizedSeq,
    t: (u8, i16, String),
    a: [u16; 3],
    e: [u8; 0],
    s: BTreeSet<i32>,
    vv: Vec<Vec<bool>>,
    ov: Option<Vec<Option<u8>>>,
}
#[derive(Serialize, Deserialize, Debug)]
pub struct Maps {
    m: BTreeMap<String, u32>,
    k: BTreeMap<u8, Vec<bool>>,
    u: UnsizedMap,
    n: BTreeMap<i64, BTreeMap<String, f64>>,
}
#[derive(Serialize, Deserialize, Debug)]
pub enum Ext {
    Unit,
    Other,
    Newtype(u32),
    NewtypeS(String),
    Tuple(u8, String),
    Struct { a: bool, b: Vec<u8> },
    Nest(Box<Ext>),
    Opt(Option<u8>),
}
#[derive(Serialize, Deserialize, Debug)]
pub struct WithEnums {
    e: Ext,
    v: Vec<Ext>,
    o: Option<Ext>,
    m: BTreeMap<String, Ext>,
}
#[derive(Serialize, Deserialize, Debug)]
#[serde(tag = "t")]
pub enum IntTag {
    A { x: u8 },
    B { s: String, n: Option<i32> },
    C,
    D { v: Vec<u16>, m: BTreeMap<String, bool> },
    E(Ints),
}
#[derive(Serialize, Deserialize, Debug)]
#[serde(tag = "t", content = "c")]
pub enum AdjTag {
    A(u32),
    B { x: String },
    C,
    D(u8, u8),
    E(Vec<String>),
    F(Option<u8>),
}
#[derive(Serialize, Deserialize, Debug)]
#[serde(untagged)]
pub enum Untagged {
    Num(u64),
    Neg(i64),
    Text(String),
    Flag(bool),
    Pair(u8, bool),
    List(Vec<String>),
    Struct { a: u8, b: String },
    Other { z: Vec<u8> },
}
/// Floats of both widths behind `deserialize_any` (untagged, internally tagged, flattened): the
/// buffered value keeps its width and its bits (NaN payloads included).
#[derive(Serialize, Deserialize, Debug)]
#[serde(untagged)]
pub enum UntaggedFloats {
    Single { s: f32 },
    Double { d: f64 },
    Pair(f32, f64),
    Many { m: Vec<f32> },
    Bare32(f32),
}
#[derive(Serialize, Deserialize, Debug)]
#[serde(tag = "t")]
pub enum IntTagFloats {
    A { x: f32, y: f64 },
    B { v: Vec<f32>, o: Option<f32> },
}
#[derive(Serialize, Deserialize, Debug)]
pub struct FloatInner {
    f: f32,
    g: f64,
    o: Option<f32>,
}
#[derive(Serialize, Deserialize, Debug)]
pub struct FlatFloats {
    id: u8,
    #[serde(flatten)]
    inner: FloatInner,
}
#[derive(Serialize, Deserialize, Debug)]
pub struct FlatInner {
    b: String,
    c: bool,
    n: Option<u16>,
}
#[derive(Serialize, Deserialize, Debug)]
pub struct Flat {
    a: u8,
    #[serde(flatten)]
    inner: FlatInner,
    z: i32,
}
#[derive(Serialize, Deserialize, Debug)]
pub struct FlatMap {
    id: u32,
    #[serde(flatten)]
    rest: BTreeMap<String, u64>,
}
/// Map keys that are unit variants of an enum, behind serde's content buffering: the keys of a
/// flattened map reach the key type as buffered *identifiers*, those of an internally tagged
/// variant as buffered `deserialize_any` content.
#[derive(Serialize, Deserialize, Debug, PartialEq, Eq, PartialOrd, Ord, Clone, Copy)]
pub enum KeyKind {
    Alpha,
    Beta,
    #[serde(rename = "gamma-key-with-a-name-longer-than-23-bytes")]
    Gamma,
}
#[derive(Serialize, Deserialize, Debug)]
pub struct FlatEnumMap {
    id: u32,
    #[serde(flatten)]
    rest: BTreeMap<KeyKind, u64>,
}
#[derive(Serialize, Deserialize, Debug)]
#[serde(tag = "t")]
pub enum IntTagEnumKeys {
    M { m: BTreeMap<KeyKind, u8> },
    N,
}
#[derive(Serialize, Deserialize, Debug)]
pub struct Renamed {
    #[serde(rename = "x-y")]
    xy: u8,
    #[serde(default)]
    d: Vec<u8>,
    #[serde(rename = "")]
    empty: bool,
}
#[derive(Serialize, Deserialize, Debug)]
pub struct StdTypes {
    d: std::time::Duration,
    ip4: std::net::Ipv4Addr,
    ip: std::net::IpAddr,
    sa: std::net::SocketAddr,
    r: std::ops::Range<u32>,
    res: Result<u8, String>,
    nz: std::num::NonZeroU16,
    w: std::num::Wrapping<i8>,
}

/// Field and variant names on both sides of every head-width boundary (23/24, 31/32, 255/256
/// bytes), ASCII and multi-byte.
#[derive(Serialize, Deserialize, Debug)]
pub struct LongNames {
    #[serde(rename = "a")]
    n1: u8,
    #[serde(rename = "abcdefghijklmnopqrstuvw")]
    n23: u8,
    #[serde(rename = "abcdefghijklmnopqrstuvwx")]
    n24: u8,
    #[serde(rename = "abcdefghijklmnopqrstuvwxy")]
    n25: u8,
    #[serde(rename = "abcdefghijklmnopqrstuvwxyz01234")]
    n31: u8,
    #[serde(rename = "abcdefghijklmnopqrstuvwxyz012345")]
    n32: u8,
    #[serde(rename = "abcdefghijklmnopqrstuvwxyz0123456789_abcdefghijklmnopqrstuvwxyz0123456789_abcdefghijklmnopqrstuvwxyz0123456789_abcdefghijklmnopqrstuvwxyz0123456789_abcdefghijklmnopqrstuvwxyz0123456789_abcdefghijklmnopqrstuvwxyz0123456789_abcdefghijklmnopqrstuvwxyz0123456")]
    n255: u8,
    #[serde(rename = "abcdefghijklmnopqrstuvwxyz0123456789_abcdefghijklmnopqrstuvwxyz0123456789_abcdefghijklmnopqrstuvwxyz0123456789_abcdefghijklmnopqrstuvwxyz0123456789_abcdefghijklmnopqrstuvwxyz0123456789_abcdefghijklmnopqrstuvwxyz0123456789_abcdefghijklmnopqrstuvwxyz01234567")]
    n256: u8,
    #[serde(rename = "abcdefghijklmnopqrstuvwxyz0123456789_abcdefghijklmnopqrstuvwxyz0123456789_abcdefghijklmnopqrstuvwxyz0123456789_abcdefghijklmnopqrstuvwxyz0123456789_abcdefghijklmnopqrstuvwxyz0123456789_abcdefghijklmnopqrstuvwxyz0123456789_abcdefghijklmnopqrstuvwxyz0123456789_abcdefghijklmnopqrstuvwxyz0123456789_abcd")]
    n300: u8,
    #[serde(rename = "é€cdefghijklmnopqrstu")]
    u24: bool,
    #[serde(rename = "é€cdefghijklmnopqrstuvwx")]
    u27: bool,
    #[serde(rename = "é€cdefghijklmnopqrstuvwxyz01")]
    u31: bool,
}
#[derive(Serialize, Deserialize, Debug)]
pub enum LongVariants {
    #[serde(rename = "0")]
    V0,
    #[serde(rename = "3")]
    V1 { x: u8 },
    #[serde(rename = "abcdefghijklmnopqrstuv0")]
    V2,
    #[serde(rename = "abcdefghijklmnopqrstuv3")]
    V3 { x: u8 },
    #[serde(rename = "abcdefghijklmnopqrstuvw0")]
    V4,
    #[serde(rename = "abcdefghijklmnopqrstuvw1")]
    V5(u8),
    #[serde(rename = "abcdefghijklmnopqrstuvw2")]
    V6(u8, bool),
    #[serde(rename = "abcdefghijklmnopqrstuvw3")]
    V7 { x: u8 },
    #[serde(rename = "abcdefghijklmnopqrstuvwx0")]
    V8,
    #[serde(rename = "abcdefghijklmnopqrstuvwx1")]
    V9(u8),
    #[serde(rename = "abcdefghijklmnopqrstuvwx2")]
    V10(u8, bool),
    #[serde(rename = "abcdefghijklmnopqrstuvwx3")]
    V11 { x: u8 },
    #[serde(rename = "abcdefghijklmnopqrstuvwxyz0120")]
    V12,
    #[serde(rename = "abcdefghijklmnopqrstuvwxyz0121")]
    V13(u8),
    #[serde(rename = "abcdefghijklmnopqrstuvwxyz0122")]
    V14(u8, bool),
    #[serde(rename = "abcdefghijklmnopqrstuvwxyz0123")]
    V15 { x: u8 },
    #[serde(rename = "abcdefghijklmnopqrstuvwxyz01230")]
    V16,
    #[serde(rename = "abcdefghijklmnopqrstuvwxyz01231")]
    V17(u8),
    #[serde(rename = "abcdefghijklmnopqrstuvwxyz01232")]
    V18(u8, bool),
    #[serde(rename = "abcdefghijklmnopqrstuvwxyz01233")]
    V19 { x: u8 },
    #[serde(rename = "abcdefghijklmnopqrstuvwxyz012340")]
    V20,
    #[serde(rename = "abcdefghijklmnopqrstuvwxyz012343")]
    V21 { x: u8 },
    #[serde(rename = "abcdefghijklmnopqrstuvwxyz0123456789_abcdefghijklmnopqrstuvwxyz0123456789_abcdefghijklmnopqrstuvwxyz0123456789_abcdefghijklmnopqrstuvwxyz0123456789_abcdefghijklmnopqrstuvwxyz0123456789_abcdefghijklmnopqrstuvwxyz0123456789_abcdefghijklmnopqrstuvwxyz0123450")]
    V22,
    #[serde(rename = "abcdefghijklmnopqrstuvwxyz0123456789_abcdefghijklmnopqrstuvwxyz0123456789_abcdefghijklmnopqrstuvwxyz0123456789_abcdefghijklmnopqrstuvwxyz0123456789_abcdefghijklmnopqrstuvwxyz0123456789_abcdefghijklmnopqrstuvwxyz0123456789_abcdefghijklmnopqrstuvwxyz0123453")]
    V23 { x: u8 },
    #[serde(rename = "abcdefghijklmnopqrstuvwxyz0123456789_abcdefghijklmnopqrstuvwxyz0123456789_abcdefghijklmnopqrstuvwxyz0123456789_abcdefghijklmnopqrstuvwxyz0123456789_abcdefghijklmnopqrstuvwxyz0123456789_abcdefghijklmnopqrstuvwxyz0123456789_abcdefghijklmnopqrstuvwxyz01234560")]
    V24,
    #[serde(rename = "abcdefghijklmnopqrstuvwxyz0123456789_abcdefghijklmnopqrstuvwxyz0123456789_abcdefghijklmnopqrstuvwxyz0123456789_abcdefghijklmnopqrstuvwxyz0123456789_abcdefghijklmnopqrstuvwxyz0123456789_abcdefghijklmnopqrstuvwxyz0123456789_abcdefghijklmnopqrstuvwxyz01234563")]
    V25 { x: u8 },
}

// shapes that are known not to round-trip (one type per shape)
#[derive(Serialize, Deserialize, Debug)]
#[serde(untagged)]
pub enum KfUntaggedUnitVariant {
    N(u32),
    Unit,
}
#[derive(Serialize, Deserialize, Debug)]
#[serde(untagged)]
pub enum KfUntaggedUnitValue {
    N(u32),
    U(()),
}
#[derive(Serialize, Deserialize, Debug)]
#[serde(untagged)]
pub enum KfUntaggedChar {
    S { s: String },
    C(char),
}
#[derive(Serialize, Deserialize, Debug)]
#[serde(tag = "t")]
pub enum KfIntTagChar {
    A { n: u8 },
    C { c: char },
}
#[derive(Serialize, Deserialize, Debug)]
pub struct KfFlatCharInner {
    c: char,
}
#[derive(Serialize, Deserialize, Debug)]
pub struct KfFlatChar {
    a: u8,
    #[serde(flatten)]
    i: KfFlatCharInner,
}
#[derive(Serialize, Deserialize, Debug)]
#[serde(tag = "t")]
pub enum KfIntTagUnitField {
    A { n: u8 },
    U { u: () },
}
#[derive(Serialize, Deserialize, Debug)]
pub struct KfFlatUnitInner {
    u: (),
}
#[derive(Serialize, Deserialize, Debug)]
pub struct KfFlatUnit {
    a: u8,
    #[serde(flatten)]
    i: KfFlatUnitInner,
}

fn small_string(rng: &mut Rng) -> String {
    let n = rng.below(12) as usize;
    gen::gen_string_len(rng, n)
}

fn gen_vec<T>(rng: &mut Rng, f: impl Fn(&mut Rng) -> T) -> Vec<T> {
    let n = crate::subj::small_len(rng).min(30);
    (0..n).map(|_| f(rng)).collect()
}

fn gen_ext(rng: &mut Rng, depth: u32) -> Ext {
    match rng.below(if depth > 2 { 7 } else { 8 }) {
        0 => Ext::Unit,
        1 => Ext::Other,
        2 => Ext::Newtype(g(rng)),
        3 => Ext::NewtypeS(g(rng)),
        4 => Ext::Tuple(g(rng), g(rng)),
        5 => Ext::Struct { a: g(rng), b: g(rng) },
        6 => Ext::Opt(g(rng)),
        _ => Ext::Nest(Box::new(gen_ext(rng, depth + 1))),
    }
}

fn gen_ints(rng: &mut Rng) -> Ints {
    Ints { a: g(rng), b: g(rng), c: g(rng), d: g(rng), e: g(rng), f: g(rng), g: g(rng), h: g(rng) }
}
fn gen_tuple_struct(rng: &mut Rng) -> TupleStruct {
    TupleStruct(g(rng), g(rng), g(rng), g(rng))
}
fn gen_texts(rng: &mut Rng) -> Texts {
    Texts { s: g(rng), b: Bytes(gen::gen_bytes(rng, false)), v: g(rng), o: g(rng), oo: g(rng), ob: if rng.bool() { Some(Bytes(gen::gen_bytes(rng, false))) } else { None } }
}

macro_rules! stype {
    ($t:ty, $extras:expr, |$rng:ident| $gen:expr) => {
        impl SType for $t {
            const NAME: &'static str = stringify!($t);
            const EXTRAS: bool = $extras;
            fn gen($rng: &mut Rng) -> Self {
                $gen
            }
        }
    };
    ($t:ty, $extras:expr, |$rng:ident| $gen:expr, |$s:ident| $label:expr) => {
        impl SType for $t {
            const NAME: &'static str = stringify!($t);
            const EXTRAS: bool = $extras;
            fn gen($rng: &mut Rng) -> Self {
                $gen
            }
            fn label(&self) -> String {
                let $s = self;
                $label
            }
        }
    };
}

fn variant_name<T: std::fmt::Debug>(v: &T) -> String {
    let s = format!("{:?}", v);
    s.split(|c: char| !c.is_alphanumeric()).next().unwrap_or("").to_string()
}

stype!(Ints, true, |r| gen_ints(r));
stype!(Scalars, true, |r| Scalars { x: g(r), y: g(r), z: g(r), c: g(r), u: () });
stype!(Texts, true, |r| gen_texts(r));
stype!(UnitStruct, true, |_r| UnitStruct);
stype!(Newtype, true, |r| Newtype(g(r)));
stype!(TupleStruct, true, |r| gen_tuple_struct(r));
stype!(Nested, true, |r| Nested {
    n: Newtype(g(r)),
    t: gen_tuple_struct(r),
    i: gen_ints(r),
    v: gen_vec(r, |r| Newtype(g(r))),
    m: (0..r.below(4)).map(|_| (small_string(r), gen_tuple_struct(r))).collect(),
    b: Box::new(gen_texts(r))
});
stype!(Seqs, true, |r| Seqs { v: g(r), u: UnsizedSeq(g(r)), t: g(r), a: g(r), e: [], s: g(r), vv: g(r), ov: g(r) });
stype!(Maps, true, |r| Maps {
    m: (0..r.below(5)).map(|_| (small_string(r), g(r))).collect(),
    k: g(r),
    u: UnsizedMap((0..r.below(5)).map(|_| (small_string(r), g(r))).collect()),
    n: (0..r.below(3)).map(|_| (g(r), (0..r.below(3)).map(|_| (small_string(r), g(r))).collect())).collect()
});
stype!(Ext, true, |r| gen_ext(r, 0), |s| variant_name(s));
stype!(WithEnums, true, |r| WithEnums { e: gen_ext(r, 0), v: gen_vec(r, |r| gen_ext(r, 1)), o: if r.bool() { Some(gen_ext(r, 1)) } else { None }, m: (0..r.below(3)).map(|_| (small_string(r), gen_ext(r, 1))).collect() });
stype!(IntTag, false, |r| match r.below(5) {
    0 => IntTag::A { x: g(r) },
    1 => IntTag::B { s: g(r), n: g(r) },
    2 => IntTag::C,
    3 => IntTag::D { v: g(r), m: (0..r.below(3)).map(|_| (small_string(r), g(r))).collect() },
    _ => IntTag::E(gen_ints(r)),
}, |s| variant_name(s));
stype!(AdjTag, false, |r| match r.below(6) {
    0 => AdjTag::A(g(r)),
    1 => AdjTag::B { x: g(r) },
    2 => AdjTag::C,
    3 => AdjTag::D(g(r), g(r)),
    4 => AdjTag::E(g(r)),
    _ => AdjTag::F(g(r)),
}, |s| variant_name(s));
stype!(Untagged, false, |r| match r.below(8) {
    0 => Untagged::Num(g(r)),
    1 => Untagged::Neg(-1 - (g::<u32>(r) as i64)),
    2 => Untagged::Text(g(r)),
    3 => Untagged::Flag(g(r)),
    4 => Untagged::Pair(g(r), g(r)),
    5 => Untagged::List(gen_vec(r, |r| small_string(r))),
    6 => Untagged::Struct { a: g(r), b: g(r) },
    _ => Untagged::Other { z: g(r) },
}, |s| variant_name(s));
stype!(Flat, false, |r| Flat { a: g(r), inner: FlatInner { b: g(r), c: g(r), n: g(r) }, z: g(r) });
stype!(UntaggedFloats, false, |r| match r.below(5) {
    0 => UntaggedFloats::Single { s: g(r) },
    1 => UntaggedFloats::Double { d: g(r) },
    2 => UntaggedFloats::Pair(g(r), g(r)),
    3 => UntaggedFloats::Many { m: gen_vec(r, |r| g(r)) },
    _ => UntaggedFloats::Bare32(g(r)),
}, |s| variant_name(s));
stype!(IntTagFloats, false, |r| if r.bool() { IntTagFloats::A { x: g(r), y: g(r) } } else { IntTagFloats::B { v: gen_vec(r, |r| g(r)), o: g(r) } }, |s| variant_name(s));
stype!(FlatFloats, false, |r| FlatFloats { id: g(r), inner: FloatInner { f: g(r), g: g(r), o: g(r) } });
stype!(FlatMap, false, |r| FlatMap { id: g(r), rest: (0..r.below(4)).map(|i| (format!("k{}{}", i, small_string(r)), g(r))).collect() });
stype!(Renamed, true, |r| Renamed { xy: g(r), d: g(r), empty: g(r) });
stype!(LongNames, true, |r| LongNames { n1: g(r), n23: g(r), n24: g(r), n25: g(r), n31: g(r), n32: g(r), n255: g(r), n256: g(r), n300: g(r), u24: g(r), u27: g(r), u31: g(r) });
stype!(LongVariants, true, |r| match r.below(26) { 0 => LongVariants::V0, 1 => LongVariants::V1 { x: g(r) }, 2 => LongVariants::V2, 3 => LongVariants::V3 { x: g(r) }, 4 => LongVariants::V4, 5 => LongVariants::V5(g(r)), 6 => LongVariants::V6(g(r), g(r)), 7 => LongVariants::V7 { x: g(r) }, 8 => LongVariants::V8, 9 => LongVariants::V9(g(r)), 10 => LongVariants::V10(g(r), g(r)), 11 => LongVariants::V11 { x: g(r) }, 12 => LongVariants::V12, 13 => LongVariants::V13(g(r)), 14 => LongVariants::V14(g(r), g(r)), 15 => LongVariants::V15 { x: g(r) }, 16 => LongVariants::V16, 17 => LongVariants::V17(g(r)), 18 => LongVariants::V18(g(r), g(r)), 19 => LongVariants::V19 { x: g(r) }, 20 => LongVariants::V20, 21 => LongVariants::V21 { x: g(r) }, 22 => LongVariants::V22, 23 => LongVariants::V23 { x: g(r) }, 24 => LongVariants::V24, _ => LongVariants::V25 { x: g(r) }, }, |s| variant_name(s));
stype!(StdTypes, false, |r| StdTypes { d: g(r), ip4: g(r), ip: g(r), sa: g(r), r: g(r), res: g(r), nz: g(r), w: g(r) });
stype!(KfUntaggedUnitVariant, false, |r| if r.bool() { KfUntaggedUnitVariant::N(g(r)) } else { KfUntaggedUnitVariant::Unit }, |s| variant_name(s));
stype!(KfUntaggedUnitValue, false, |r| if r.bool() { KfUntaggedUnitValue::N(g(r)) } else { KfUntaggedUnitValue::U(()) }, |s| variant_name(s));
stype!(KfUntaggedChar, false, |r| if r.bool() { KfUntaggedChar::S { s: g(r) } } else { KfUntaggedChar::C(g(r)) }, |s| variant_name(s));
stype!(KfIntTagChar, false, |r| if r.bool() { KfIntTagChar::A { n: g(r) } } else { KfIntTagChar::C { c: g(r) } }, |s| variant_name(s));
fn gen_key_kind(r: &mut Rng) -> KeyKind {
    *r.pick(&[KeyKind::Alpha, KeyKind::Beta, KeyKind::Gamma])
}
stype!(FlatEnumMap, false, |r| FlatEnumMap { id: g(r), rest: (0..r.below(4)).map(|_| (gen_key_kind(r), g(r))).collect() });
stype!(IntTagEnumKeys, false, |r| if r.chance(3, 4) { IntTagEnumKeys::M { m: (0..r.below(4)).map(|_| (gen_key_kind(r), g(r))).collect() } } else { IntTagEnumKeys::N }, |s| variant_name(s));
stype!(KfFlatChar, false, |r| KfFlatChar { a: g(r), i: KfFlatCharInner { c: g(r) } });
stype!(KfIntTagUnitField, false, |r| if r.bool() { KfIntTagUnitField::A { n: g(r) } } else { KfIntTagUnitField::U { u: () } }, |s| variant_name(s));
stype!(KfFlatUnit, false, |r| KfFlatUnit { a: g(r), i: KfFlatUnitInner { u: () } });

// primitives and std containers directly
macro_rules! stype_subj {
    ($($t:ty),*) => {$(
        impl SType for $t {
            const NAME: &'static str = stringify!($t);
            fn gen(rng: &mut Rng) -> Self { <$t as Subject>::gen(rng) }
        }
    )*}
}
stype_subj!(u8, u16, u32, u64, i8, i16, i32, i64, bool, char, f32, f64, String, (), Option<u8>, Option<String>, Vec<u8>, Vec<String>, (u8, String), (i64, bool, f32), [u16; 1], [u8; 32], BTreeMap<u8, String>, Box<u32>, Option<Vec<Option<u8>>>);

#[macro_export]
macro_rules! for_each_stype {
    ($m:ident) => {
        $m!(Ints); $m!(Scalars); $m!(Texts); $m!(UnitStruct); $m!(Newtype); $m!(TupleStruct); $m!(Nested); $m!(Seqs); $m!(Maps);
        $m!(Ext); $m!(WithEnums); $m!(IntTag); $m!(AdjTag); $m!(Untagged); $m!(Flat); $m!(FlatFloats); $m!(UntaggedFloats); $m!(IntTagFloats); $m!(FlatMap); $m!(FlatEnumMap); $m!(IntTagEnumKeys); $m!(Renamed); $m!(LongNames); $m!(LongVariants); $m!(StdTypes);
        $m!(KfUntaggedUnitVariant); $m!(KfUntaggedUnitValue); $m!(KfUntaggedChar); $m!(KfIntTagChar); $m!(KfFlatChar); $m!(KfIntTagUnitField); $m!(KfFlatUnit);
        $m!(u8); $m!(u16); $m!(u32); $m!(u64); $m!(i8); $m!(i16); $m!(i32); $m!(i64); $m!(bool); $m!(char); $m!(f32); $m!(f64); $m!(String); $m!(());
        $m!(Option<u8>); $m!(Option<String>); $m!(Vec<u8>); $m!(Vec<String>); $m!((u8, String)); $m!((i64, bool, f32)); $m!([u16; 1]); $m!([u8; 32]);
        $m!(BTreeMap<u8, String>); $m!(Box<u32>); $m!(Option<Vec<Option<u8>>>);
    };
}

// ---------------------------------------------------------------------------
// monitor

fn viol(rep: &mut Report, ty: &str, kind: &str, label: &str, what: String, bytes: &[u8], replay: &[String]) {
    let sig = if label.is_empty() { format!("{}|{}|{}", ID, kind, ty) } else { format!("{}|{}|{}|{}", ID, kind, ty, label) };
    rep.violation(&sig, J::obj().with("type", J::s(ty)).with("what", J::s(what)).with("bytes", J::s(hex(&bytes[..bytes.len().min(160)]))), replay.to_vec());
}

fn decode_same<T: SType>(input: &[u8], want: &Item) -> Result<(), String> {
    let mut de = minicbor_serde::Deserializer::new(input);
    let v = T::deserialize(&mut de).map_err(|e| format!("error: {}", e))?;
    let pos = de.decoder().position();
    let got = refser::strip(&to_item(&v).map_err(|e| e.0)?);
    if &got != want {
        return Err(format!("different value: {} instead of {}", short(&refcbor::diag(&got)), short(&refcbor::diag(want))));
    }
    if pos != input.len() {
        return Err(format!("position {} != input length {}", pos, input.len()));
    }
    // the same through a Deserializer that has already read a value from another buffer and is
    // then pointed at this input (`decoder_mut`): nothing of the earlier buffer may matter
    static EARLIER: [u8; 12] = [0x9f, 0x01, 0x02, 0xff, 0xbf, 0x61, 0x61, 0x9f, 0xff, 0xff, 0x81, 0x00];
    let mut de = minicbor_serde::Deserializer::new(&EARLIER[..]);
    let first = <Vec<u8> as serde::Deserialize>::deserialize(&mut de).map_err(|e| format!("reused deserializer: first value: {}", e))?;
    if first != [1, 2] {
        return Err(format!("reused deserializer: first value {:?}", first));
    }
    *de.decoder_mut() = minicbor::Decoder::new(input);
    let v = T::deserialize(&mut de).map_err(|e| format!("reused deserializer (pointed at this input through decoder_mut): error: {}", e))?;
    let pos = de.decoder().position();
    let got = refser::strip(&to_item(&v).map_err(|e| e.0)?);
    if &got != want {
        return Err(format!("reused deserializer (pointed at this input through decoder_mut): different value: {} instead of {}", short(&refcbor::diag(&got)), short(&refcbor::diag(want))));
    }
    if pos != input.len() {
        return Err(format!("reused deserializer: position {} != input length {}", pos, input.len()));
    }
    Ok(())
}

fn short(s: &str) -> String {
    if s.len() > 160 {
        format!("{}…", s.chars().take(160).collect::<String>())
    } else {
        s.to_string()
    }
}

fn diagx(i: &Item) -> String {
    if i.text_valid() {
        short(&refcbor::diag(i))
    } else {
        "<item>".into()
    }
}

pub fn check_value<T: SType>(v: &T, rep: &mut Report, rng: &mut Rng, replay: &[String]) {
    rep.eval();
    let ty = T::NAME;
    let label = v.label();
    let marked = match to_item(v) {
        Ok(i) => i,
        Err(e) => {
            rep.inconclusive.push(format!("RefSerializer failed for {}: {}", ty, e.0));
            return;
        }
    };
    let want = refser::strip(&marked);
    let want_bytes = want.encode();
    // 1. representation
    let bytes = match mon::guarded(|| minicbor_serde::to_vec(v)) {
        Err(p) => return viol(rep, ty, "ser-panic", &label, p.message, &[], replay),
        Ok(Err(e)) => return viol(rep, ty, "ser-error", &label, format!("serialising failed: {}", e), &[], replay),
        Ok(Ok(b)) => b,
    };
    match refcbor::parse(&bytes) {
        Ok((_, n)) if n == bytes.len() => {}
        other => return viol(rep, ty, "not-one-item", &label, format!("bridge output is not exactly one well-formed item: {:?}", other.map(|x| x.1)), &bytes, replay),
    }
    if bytes != want_bytes {
        return viol(rep, ty, "representation", &label, format!("bridge wrote {} but the documented representation is {} = {}", hex(&bytes[..bytes.len().min(100)]), diagx(&want), hex(&want_bytes[..want_bytes.len().min(100)])), &bytes, replay);
    }
    rep.seen(hash_mix(fnv64(ty.as_bytes()), fnv64(&bytes)));
    // 2. round trip
    let input: Box<[u8]> = bytes.clone().into_boxed_slice();
    match mon::guarded(|| decode_same::<T>(&input, &want)) {
        Err(p) => return viol(rep, ty, "de-panic", &label, p.message, &bytes, replay),
        Ok(Err(e)) => return viol(rep, ty, "roundtrip", &label, format!("deserialising own output gives {}", e), &bytes, replay),
        Ok(Ok(())) => {}
    }
    if rep.want_sample() && bytes.len() > 8 && bytes.len() < 60 {
        rep.sample(J::obj().with("type", J::s(ty)).with("item", J::s(diagx(&want))).with("bytes", J::s(hex(&bytes))));
    }
    // 3. wider heads: same value required
    let wide = gen::widen(rng, &want);
    let wb: Box<[u8]> = wide.encode().into_boxed_slice();
    match mon::guarded(|| decode_same::<T>(&wb, &want)) {
        Err(p) => viol(rep, ty, "de-panic", &label, p.message, &wb, replay),
        Ok(Err(e)) => viol(rep, ty, "wider-heads", &label, format!("the same item with wider heads gives {}", e), &wb, replay),
        Ok(Ok(())) => rep.count("re-framing/wider heads: same value"),
    }
    // 4. indefinite containers: same value or an error, never another value
    let ind = gen::indefinite_containers(rng, &want, 50);
    if ind != want {
        let ib: Box<[u8]> = ind.encode().into_boxed_slice();
        match mon::guarded(|| decode_same::<T>(&ib, &want)) {
            Err(p) => viol(rep, ty, "de-panic", &label, p.message, &ib, replay),
            Ok(Err(e)) if e.starts_with("error:") => rep.count("re-framing/indefinite containers: rejected"),
            Ok(Err(e)) => viol(rep, ty, "indefinite", &label, format!("the same item with indefinite containers gives {}", e), &ib, replay),
            Ok(Ok(())) => rep.count("re-framing/indefinite containers: same value"),
        }
    }
    // 5. unknown extra struct fields must not change the result
    if T::EXTRAS {
        let mut r2 = rng.clone();
        let mut k = 0u32;
        let with = refser::strip_with_extras(&marked, &mut |_| {
            let n = r2.below(3);
            (0..n)
                .map(|_| {
                    k += 1;
                    let cfg = gen::TreeCfg { max_children: 3, ..gen::TreeCfg::any(3) };
                    (Item::text(&format!("zz_unknown_{}", k)), gen::gen_item(&mut r2, &cfg, 0))
                })
                .collect()
        });
        if k > 0 {
            let eb: Box<[u8]> = with.encode().into_boxed_slice();
            match mon::guarded(|| decode_same::<T>(&eb, &want)) {
                Err(p) => viol(rep, ty, "de-panic", &label, p.message, &eb, replay),
                Ok(Err(e)) => viol(rep, ty, "unknown-fields", &label, format!("with {} unknown struct fields inserted the result is {}", k, e), &eb, replay),
                Ok(Ok(())) => rep.count("unknown extra struct fields ignored"),
            }
        }
    }
}

fn run_type<T: SType>(a: &Args, rep: &mut Report, n: u64) {
    let label = format!("c17/{}", T::NAME);
    for i in 0..n {
        if !a.mine(i) {
            continue;
        }
        let mut rng = Rng::derive(&label, a.seed, 0, i);
        let v = T::gen(&mut rng);
        let rp = vec!["c17".into(), "--seed".into(), a.seed.to_string(), "--replay".into(), T::NAME.to_string(), i.to_string()];
        check_value::<T>(&v, rep, &mut rng, &rp);
    }
    rep.count_n(&format!("type/{}", T::NAME), n / a.nshards.max(1));
    mon::tick();
}

/// Borrowed deserialisation (`&str`, `&[u8]`) points into the input.
#[derive(Serialize, Deserialize, Debug, PartialEq)]
struct Borrowed<'a> {
    s: &'a str,
    #[serde(with = "bytes_ref")]
    b: &'a [u8],
}
mod bytes_ref {
    use serde::{Deserialize, Deserializer, Serializer};
    pub fn serialize<S: Serializer>(b: &&[u8], s: S) -> Result<S::Ok, S::Error> {
        s.serialize_bytes(b)
    }
    pub fn deserialize<'de, D: Deserializer<'de>>(d: D) -> Result<&'de [u8], D::Error> {
        <&'de [u8]>::deserialize(d)
    }
}

fn borrowed_case(rep: &mut Report, seed: u64, i: u64) {
    rep.eval();
    let mut rng = Rng::derive("c17/borrowed", seed, 0, i);
    let s: String = g(&mut rng);
    let b = gen::gen_bytes(&mut rng, false);
    let v = Borrowed { s: &s, b: &b };
    let rp = vec!["c17".into(), "--seed".into(), seed.to_string(), "--replay".into(), "Borrowed".into(), i.to_string()];
    let r = mon::guarded(|| {
        let bytes = minicbor_serde::to_vec(&v).map_err(|e| e.to_string())?;
        let want = Item::map(vec![(Item::text("s"), Item::text(&s)), (Item::text("b"), Item::bytes(&b))]).encode();
        if bytes != want {
            return Err(format!("representation {} != {}", hex(&bytes[..bytes.len().min(80)]), hex(&want[..want.len().min(80)])));
        }
        let input: Box<[u8]> = bytes.into_boxed_slice();
        let w: Borrowed = minicbor_serde::from_slice(&input).map_err(|e| e.to_string())?;
        if w != v {
            return Err("value differs".into());
        }
        if !mon::within(&input, w.s.as_ptr(), w.s.len()) || !mon::within(&input, w.b.as_ptr(), w.b.len()) {
            return Err("borrowed fields do not point into the input".into());
        }
        Ok(())
    });
    match r {
        Err(p) => viol(rep, "Borrowed", "de-panic", "", p.message, &[], &rp),
        Ok(Err(e)) => viol(rep, "Borrowed", "roundtrip", "", e, &[], &rp),
        Ok(Ok(())) => {}
    }
}

// Borrowed strings / bytes that reach the visitor through `deserialize_any`
// (serde buffers untagged, internally tagged and flattened content first).
#[derive(Serialize, Deserialize, Debug, PartialEq)]
#[serde(untagged)]
enum BorrowUntagged<'a> {
    N(u32),
    S(&'a str),
    P {
        #[serde(borrow)]
        k: &'a str,
        v: i8,
    },
}

#[derive(Serialize, Deserialize, Debug, PartialEq)]
#[serde(tag = "t")]
enum BorrowIntTag<'a> {
    A {
        #[serde(borrow)]
        s: &'a str,
        n: u16,
    },
    B {
        #[serde(borrow, with = "bytes_ref")]
        b: &'a [u8],
    },
}

#[derive(Serialize, Deserialize, Debug, PartialEq)]
struct BorrowFlatInner<'a> {
    s: &'a str,
    #[serde(with = "bytes_ref")]
    b: &'a [u8],
}

#[derive(Serialize, Deserialize, Debug, PartialEq)]
struct BorrowFlat<'a> {
    id: u8,
    #[serde(flatten, borrow)]
    inner: BorrowFlatInner<'a>,
}

#[derive(Serialize, Deserialize, Debug, PartialEq)]
#[serde(tag = "k", content = "c")]
enum BorrowAdj<'a> {
    S(&'a str),
    T(u8, #[serde(borrow)] &'a str),
}

/// Serialised through `Serializer::collect_str` (what `serialize_with` / Display-based impls do),
/// deserialised as an ordinary string.
#[derive(Debug, PartialEq)]
struct ViaDisplay(String);

impl Serialize for ViaDisplay {
    fn serialize<S: serde::Serializer>(&self, s: S) -> Result<S::Ok, S::Error> {
        s.collect_str(&self.0)
    }
}
impl<'de> Deserialize<'de> for ViaDisplay {
    fn deserialize<D: serde::Deserializer<'de>>(d: D) -> Result<Self, D::Error> {
        String::deserialize(d).map(ViaDisplay)
    }
}

#[derive(Serialize, Deserialize, Debug, PartialEq)]
struct HasDisplay {
    id: u8,
    text: ViaDisplay,
    tail: Vec<ViaDisplay>,
}

fn collect_str_case(rep: &mut Report, seed: u64, i: u64) {
    rep.eval();
    let mut rng = Rng::derive("c17/collect_str", seed, 0, i);
    let mk = |rng: &mut Rng| -> String {
        let n = *rng.pick(&[0usize, 1, 23, 24, 63, 64, 65, 127, 128, 255, 256, 300, 1000]) + rng.usize_below(3);
        gen::gen_string_len(rng, n)
    };
    let v = HasDisplay { id: i as u8, text: ViaDisplay(mk(&mut rng)), tail: (0..rng.below(3)).map(|_| ViaDisplay(mk(&mut rng))).collect() };
    let rp = vec!["c17".into(), "--seed".into(), seed.to_string(), "--replay".into(), "CollectStr".into(), i.to_string()];
    let r = mon::guarded(|| {
        let bytes = minicbor_serde::to_vec(&v).map_err(|e| e.to_string())?;
        let want = Item::map(vec![
            (Item::text("id"), Item::uint(v.id as u64)),
            (Item::text("text"), Item::text(&v.text.0)),
            (Item::text("tail"), Item::array(v.tail.iter().map(|t| Item::text(&t.0)).collect())),
        ])
        .encode();
        if bytes != want {
            return Err(format!("representation {} != {} (strings written through collect_str are text strings of known length)", hex(&bytes[..bytes.len().min(80)]), hex(&want[..want.len().min(80)])));
        }
        let w: HasDisplay = minicbor_serde::from_slice(&bytes).map_err(|e| format!("deserialising failed: {}", e))?;
        if w != v {
            return Err("value differs".into());
        }
        Ok(())
    });
    match r {
        Err(p) => viol(rep, "CollectStr", "panic", "", p.message, &[], &rp),
        Ok(Err(e)) => viol(rep, "CollectStr", "roundtrip", "", e, &[], &rp),
        Ok(Ok(())) => rep.count("collect_str round trip"),
    }
}

/// Unknown-length containers nested in unknown-length containers (each level is an indefinite
/// item with its own break), and long sequences of small values (per-value bookkeeping inside one
/// Serializer / Deserializer must not accumulate).
#[derive(Debug, PartialEq, Clone)]
struct UnsizedNested(Vec<UnsizedSeq>, UnsizedMap);
impl Serialize for UnsizedNested {
    fn serialize<S: serde::Serializer>(&self, s: S) -> Result<S::Ok, S::Error> {
        use serde::ser::SerializeSeq;
        let mut q = s.serialize_seq(None)?;
        for x in &self.0 {
            q.serialize_element(x)?
        }
        q.serialize_element(&self.1)?;
        for x in &self.0 {
            q.serialize_element(x)?
        }
        q.end()
    }
}

#[derive(Serialize, Deserialize, Debug, PartialEq, Clone, Copy)]
enum Small {
    A,
    B,
    C,
}

/// A map of known length written with separate `serialize_key` / `serialize_value` calls.
#[derive(Debug, PartialEq, Clone)]
struct SplitMap(BTreeMap<String, u16>);
impl Serialize for SplitMap {
    fn serialize<S: serde::Serializer>(&self, s: S) -> Result<S::Ok, S::Error> {
        use serde::ser::SerializeMap;
        let mut m = s.serialize_map(Some(self.0.len()))?;
        for (k, v) in &self.0 {
            m.serialize_key(k)?;
            m.serialize_value(v)?;
        }
        m.end()
    }
}

#[derive(Serialize, Deserialize, Debug, PartialEq, Clone)]
enum InnerExt {
    S { a: u8, b: Option<i16> },
    T(u8, String),
    N(u32),
}

/// Internally tagged enum whose newtype variants wrap externally tagged tuple / struct variants
/// (serde's tagged serializer drives the map with split key / value calls).
#[derive(Serialize, Deserialize, Debug, PartialEq, Clone)]
#[serde(tag = "t")]
enum TaggedWrap {
    W(InnerExt),
    P { x: u8 },
}

fn split_map_case(rep: &mut Report, seed: u64, i: u64) {
    let mut rng = Rng::derive("c17/splitmap", seed, 0, i);
    let rp = vec!["c17".into(), "--seed".into(), seed.to_string(), "--replay".into(), "SplitMap".into(), i.to_string()];
    rep.eval();
    let mut m = BTreeMap::new();
    for _ in 0..rng.below(5) {
        m.insert(g::<String>(&mut rng), rng.next_u32() as u16);
    }
    let v = SplitMap(m.clone());
    let want = Item::map(m.iter().map(|(k, x)| (Item::text(k), Item::uint(*x as u64))).collect()).encode();
    let r = mon::guarded(|| {
        let b = minicbor_serde::to_vec(&v).map_err(|e| format!("serialising failed: {}", e))?;
        if b != want {
            return Err(format!("representation {} != {}", hex(&b[..b.len().min(80)]), hex(&want[..want.len().min(80)])));
        }
        let w: BTreeMap<String, u16> = minicbor_serde::from_slice(&b).map_err(|e| e.to_string())?;
        if w != m {
            return Err("value differs".into());
        }
        Ok(())
    });
    match r {
        Err(p) => viol(rep, "SplitMap", "panic", "", p.message, &[], &rp),
        Ok(Err(e)) => viol(rep, "SplitMap", "roundtrip", "", e, &[], &rp),
        Ok(Ok(())) => rep.count("map written with split key / value calls"),
    }
    rep.eval();
    let tw = match rng.below(4) {
        0 => TaggedWrap::W(InnerExt::S { a: rng.next_u32() as u8, b: if rng.bool() { Some(rng.next_u32() as i16) } else { None } }),
        1 => TaggedWrap::W(InnerExt::T(rng.next_u32() as u8, g::<String>(&mut rng))),
        2 => TaggedWrap::P { x: rng.next_u32() as u8 },
        _ => TaggedWrap::W(InnerExt::S { a: 0, b: None }),
    };
    let r = mon::guarded(|| {
        let b = minicbor_serde::to_vec(&tw).map_err(|e| format!("serialising failed: {}", e))?;
        let w: TaggedWrap = minicbor_serde::from_slice(&b).map_err(|e| format!("deserialising {} failed: {}", hex(&b[..b.len().min(60)]), e))?;
        if w != tw {
            return Err(format!("value differs: {:?}", w));
        }
        Ok(())
    });
    match r {
        Err(p) => viol(rep, "TaggedWrap", "panic", "", p.message, &[], &rp),
        Ok(Err(e)) => viol(rep, "TaggedWrap", "roundtrip", "", format!("{:?}: {}", tw, e), &[], &rp),
        Ok(Ok(())) => rep.count("internally tagged newtype variant around an externally tagged variant"),
    }
}

fn nested_and_long_case(rep: &mut Report, seed: u64, i: u64) {
    let mut rng = Rng::derive("c17/nested-long", seed, 0, i);
    let rp = vec!["c17".into(), "--seed".into(), seed.to_string(), "--replay".into(), "NestedLong".into(), i.to_string()];
    // 1. nested unknown-length containers: representation = indefinite items, each closed
    {
        rep.eval();
        let seqs: Vec<UnsizedSeq> = (0..rng.below(4)).map(|_| UnsizedSeq((0..rng.below(4)).map(|_| rng.next_u32() >> (rng.below(32) as u32)).collect())).collect();
        let mut m = BTreeMap::new();
        for _ in 0..rng.below(3) {
            m.insert(g::<String>(&mut rng), rng.next_u32() as i16);
        }
        let v = UnsizedNested(seqs.clone(), UnsizedMap(m.clone()));
        let seq_item = |q: &UnsizedSeq| Item::array_indef(q.0.iter().map(|x| Item::uint(*x as u64)).collect());
        let mut items: Vec<Item> = seqs.iter().map(seq_item).collect();
        items.push(Item::map_indef(m.iter().map(|(k, x)| (Item::text(k), Item::int(*x as i128))).collect()));
        items.extend(seqs.iter().map(seq_item));
        let want = Item::array_indef(items).encode();
        let r = mon::guarded(|| minicbor_serde::to_vec(&v).map_err(|e| e.to_string()));
        match r {
            Err(p) => viol(rep, "UnsizedNested", "ser-panic", "", p.message, &[], &rp),
            Ok(Err(e)) => viol(rep, "UnsizedNested", "ser-error", "", e, &[], &rp),
            Ok(Ok(b)) if b != want => viol(rep, "UnsizedNested", "representation", "", format!("nested unknown-length containers were written as {} instead of {}", hex(&b[..b.len().min(80)]), hex(&want[..want.len().min(80)])), &b, &rp),
            Ok(Ok(b)) => {
                // and the bytes read back as the same structure through the generic Vec / BTreeMap impls
                type Back = (Vec<Vec<u32>>, BTreeMap<String, i16>);
                let back = mon::guarded(|| {
                    let mut de = minicbor_serde::Deserializer::new(&b);
                    // [seq.., map, seq..] as a heterogeneous sequence: read through an untyped visitor
                    let v: Result<serde::de::IgnoredAny, _> = serde::Deserialize::deserialize(&mut de);
                    (v.is_ok(), de.decoder().position())
                });
                let _: Option<Back> = None;
                match back {
                    Ok((true, pos)) if pos == b.len() => rep.count("nested unknown-length containers: representation and re-reading"),
                    other => viol(rep, "UnsizedNested", "reread", "", format!("re-reading the bridge's own bytes: {:?} (length {})", other.map_err(|p| p.message), b.len()), &b, &rp),
                }
            }
        }
    }
    // 2. long sequences of small values through one (de)serializer
    if i % 16 == 0 {
        let n = *rng.pick(&[255usize, 256, 257, 1023, 1024, 1025, 3000]);
        macro_rules! long {
            ($name:expr, $v:expr, $t:ty) => {{
                rep.eval();
                let v: $t = $v;
                let r = mon::guarded(|| {
                    let b = minicbor_serde::to_vec(&v).map_err(|e| format!("serialising: {}", e))?;
                    let w: $t = minicbor_serde::from_slice(&b).map_err(|e| format!("deserialising {} elements: {}", n, e))?;
                    if w != v {
                        return Err("value differs".to_string());
                    }
                    Ok(())
                });
                match r {
                    Err(p) => viol(rep, $name, "panic", "", p.message, &[], &rp),
                    Ok(Err(e)) => viol(rep, $name, "roundtrip", "", e, &[], &rp),
                    Ok(Ok(())) => rep.count("long sequences of small values round-trip"),
                }
            }};
        }
        long!("Vec<unit-variant enum>", (0..n).map(|k| [Small::A, Small::B, Small::C][k % 3]).collect(), Vec<Small>);
        long!("Vec<(u16, bool)>", (0..n).map(|k| (k as u16, k % 2 == 0)).collect(), Vec<(u16, bool)>);
        long!("Vec<[u8; 2]>", (0..n).map(|k| [k as u8, 1]).collect(), Vec<[u8; 2]>);
        long!("Vec<Option<()>>", (0..n).map(|k| if k % 2 == 0 { Some(()) } else { None }).collect(), Vec<Option<()>>);
        long!("Vec<Newtype(u8)>", (0..n).map(|k| std::num::Wrapping(k as u8)).collect(), Vec<std::num::Wrapping<u8>>);
        long!("BTreeMap<u16, Small>", (0..n).map(|k| (k as u16, Small::B)).collect(), BTreeMap<u16, Small>);
        long!("Vec<Vec<(u8, u8, u8)>>", (0..n / 15 + 1).map(|k| (0..15).map(|j| (k as u8, j as u8, 0)).collect()).collect(), Vec<Vec<(u8, u8, u8)>>);
    }
}

fn borrowed_any_case(rep: &mut Report, seed: u64, i: u64) {
    let mut rng = Rng::derive("c17/borrowed-any", seed, 0, i);
    let s: String = g(&mut rng);
    let b = gen::gen_bytes(&mut rng, false);
    let rp = vec!["c17".into(), "--seed".into(), seed.to_string(), "--replay".into(), "BorrowedAny".into(), i.to_string()];
    fn rt<'a, T>(rep: &mut Report, name: &str, v: &T, rp: &[String], ptrs: &dyn Fn(&T) -> Vec<(*const u8, usize)>, buf: &'a mut Vec<Box<[u8]>>)
    where
        T: Serialize + Deserialize<'a> + PartialEq + std::fmt::Debug,
    {
        rep.eval();
        let bytes = match mon::guarded(|| minicbor_serde::to_vec(v).map_err(|e| e.to_string())) {
            Err(p) => return viol(rep, name, "ser-panic", "", p.message, &[], rp),
            Ok(Err(e)) => return viol(rep, name, "ser-error", "", e, &[], rp),
            Ok(Ok(b)) => b,
        };
        buf.push(bytes.clone().into_boxed_slice());
        let input: &'a [u8] = unsafe { std::mem::transmute::<&[u8], &'a [u8]>(&buf[buf.len() - 1][..]) };
        let r = mon::guarded(|| {
            let w: T = minicbor_serde::from_slice(input).map_err(|e| format!("error: {}", e))?;
            if &w != v {
                return Err(format!("value differs: {:?}", w));
            }
            for (p, n) in ptrs(&w) {
                if !mon::within(input, p, n) {
                    return Err("a borrowed field does not point into the input".to_string());
                }
            }
            Ok(())
        });
        match r {
            Err(p) => viol(rep, name, "de-panic", "", p.message, &bytes, rp),
            Ok(Err(e)) => viol(rep, name, "roundtrip", "", format!("{:?}: {}", v, e), &bytes, rp),
            Ok(Ok(())) => rep.count(&format!("borrowed through deserialize_any/{}", name)),
        }
    }
    let mut keep: Vec<Box<[u8]>> = Vec::new();
    let keep_ptr: *mut Vec<Box<[u8]>> = &mut keep;
    // each call pushes one buffer; the boxes never move, `keep` outlives every decoded value
    macro_rules! go {
        ($name:expr, $v:expr, $p:expr) => {
            rt(rep, $name, &$v, &rp, &$p, unsafe { &mut *keep_ptr })
        };
    }
    match i % 4 {
        0 => {
            go!("BorrowUntagged", BorrowUntagged::S(&s), |w: &BorrowUntagged| match w { BorrowUntagged::S(x) => vec![(x.as_ptr(), x.len())], _ => vec![] });
            go!("BorrowUntagged", BorrowUntagged::P { k: &s, v: i as i8 }, |w: &BorrowUntagged| match w { BorrowUntagged::P { k, .. } => vec![(k.as_ptr(), k.len())], _ => vec![] });
            go!("BorrowUntagged", BorrowUntagged::N(i as u32), |_w: &BorrowUntagged| vec![]);
        }
        1 => {
            go!("BorrowIntTag", BorrowIntTag::A { s: &s, n: i as u16 }, |w: &BorrowIntTag| match w { BorrowIntTag::A { s, .. } => vec![(s.as_ptr(), s.len())], _ => vec![] });
            go!("BorrowIntTag", BorrowIntTag::B { b: &b }, |w: &BorrowIntTag| match w { BorrowIntTag::B { b } => vec![(b.as_ptr(), b.len())], _ => vec![] });
        }
        2 => {
            go!("BorrowFlat", BorrowFlat { id: i as u8, inner: BorrowFlatInner { s: &s, b: &b } }, |w: &BorrowFlat| vec![(w.inner.s.as_ptr(), w.inner.s.len()), (w.inner.b.as_ptr(), w.inner.b.len())]);
        }
        _ => {
            go!("BorrowAdj", BorrowAdj::S(&s), |w: &BorrowAdj| match w { BorrowAdj::S(x) => vec![(x.as_ptr(), x.len())], _ => vec![] });
            go!("BorrowAdj", BorrowAdj::T(i as u8, &s), |w: &BorrowAdj| match w { BorrowAdj::T(_, x) => vec![(x.as_ptr(), x.len())], _ => vec![] });
        }
    }
}

pub fn run(a: &Args, rep: &mut Report) {
    let n: u64 = if a.thorough() { 400_000 } else { 48_000 };
    macro_rules! m {
        ($t:ty) => {
            run_type::<$t>(a, rep, n)
        };
    }
    for_each_stype!(m);
    for i in 0..n {
        if a.mine(i) {
            borrowed_case(rep, a.seed, i);
            borrowed_any_case(rep, a.seed, i);
            collect_str_case(rep, a.seed, i);
            nested_and_long_case(rep, a.seed, i);
            split_map_case(rep, a.seed, i);
        }
    }
}

pub fn replay(a: &Args, rep: &mut Report) {
    let want = a.replay[0].as_str();
    let i: u64 = a.replay[1].parse().unwrap();
    if want == "Borrowed" {
        return borrowed_case(rep, a.seed, i);
    }
    if want == "SplitMap" {
        return split_map_case(rep, a.seed, i);
    }
    if want == "NestedLong" {
        return nested_and_long_case(rep, a.seed, i);
    }
    if want == "CollectStr" {
        return collect_str_case(rep, a.seed, i);
    }
    if want == "BorrowedAny" {
        return borrowed_any_case(rep, a.seed, i);
    }
    macro_rules! m {
        ($t:ty) => {
            if <$t as SType>::NAME == want {
                let mut rng = Rng::derive(&format!("c17/{}", want), a.seed, 0, i);
                let v = <$t as SType>::gen(&mut rng);
                println!("replaying {} case {}: {}", want, i, to_item(&v).map(|x| diagx(&refser::strip(&x))).unwrap_or_default());
                check_value::<$t>(&v, rep, &mut rng, &[]);
            }
        };
    }
    for_each_stype!(m);
}
