//! C02 — decoding untrusted bytes is total: no panic, no hang, bounded
//! memory, in bounds; partially decoded values are dropped exactly once.
//!
//! Invariants only (no reference needed).  For an input of `len` bytes and any
//! entry point: the call returns; decoder steps <= 64*len + 256; peak heap
//! <= 16 KiB + 128*len and no single request above that; the cursor never
//! moves beyond max(len, position before the call); from a position > len
//! every call fails; every `Tracked` element
//! created during a call is dropped exactly once.

use crate::corpus;
use crate::subj::Subject;
use minicbor::bytes::ByteSlice;
use minicbor::data::Token;
use minicbor::decode::info::Size;
use minicbor::{Decode, Decoder};
use std::cell::RefCell;
use std::collections::{BTreeMap, LinkedList, VecDeque};
use vcore::gen;
use vcore::json::{hex, J};
use vcore::mon;
use vcore::refcbor::Item;
use vcore::report::{Args, Report};
use vcore::rng::{fnv64, Rng};

const ID: &str = "C02";

pub fn step_budget(len: usize) -> u64 {
    64 * len as u64 + 256
}
pub fn mem_budget(len: usize) -> usize {
    16 * 1024 + 128 * len
}
/// Stack depth a decoding call may reach below the caller, whatever the input: the
/// recursion of the supported types is bounded by the *type*, never by the input.
pub const STACK_BUDGET: usize = 192 * 1024;

// ---------------------------------------------------------------------------
// drop monitor

thread_local! {
    static TRACK: RefCell<Vec<u8>> = RefCell::new(Vec::new());
    static DOUBLE: RefCell<u32> = RefCell::new(0);
}

/// Element type that registers its construction and destruction.
pub struct Tracked(usize);

impl<'b, C> Decode<'b, C> for Tracked {
    fn decode(d: &mut Decoder<'b>, _: &mut C) -> Result<Self, minicbor::decode::Error> {
        let n = d.u8()?;
        if n == 0xee {
            return Err(minicbor::decode::Error::message("tracked element refuses 0xee"));
        }
        let id = TRACK.with(|t| {
            let mut t = t.borrow_mut();
            t.push(1);
            t.len() - 1
        });
        Ok(Tracked(id))
    }
}

impl Drop for Tracked {
    fn drop(&mut self) {
        let ok = TRACK.with(|t| {
            let mut t = t.borrow_mut();
            match t.get_mut(self.0) {
                Some(s) if *s == 1 => {
                    *s = 2;
                    true
                }
                _ => false,
            }
        });
        if !ok {
            DOUBLE.with(|d| *d.borrow_mut() += 1)
        }
    }
}

fn track_reset() {
    TRACK.with(|t| t.borrow_mut().clear());
    DOUBLE.with(|d| *d.borrow_mut() = 0);
}

/// (created, still live, double drops)
fn track_read() -> (usize, usize, u32) {
    let (c, l) = TRACK.with(|t| {
        let t = t.borrow();
        (t.len(), t.iter().filter(|s| **s == 1).count())
    });
    (c, l, DOUBLE.with(|d| *d.borrow()))
}

// ---------------------------------------------------------------------------
// entry points

type Entry = fn(&[u8]) -> (bool, usize);

fn ep<T: for<'b> Decode<'b, ()>>(b: &[u8]) -> (bool, usize) {
    let mut d = Decoder::new(b);
    let r: Result<T, _> = d.decode();
    (r.is_ok(), d.position())
}

macro_rules! acc_ep {
    ($name:expr, |$d:ident| $e:expr) => {
        ($name, (|b: &[u8]| {
            let mut $d = Decoder::new(b);
            let ok = { $e };
            (ok, $d.position())
        }) as Entry)
    };
}

pub fn entries() -> Vec<(&'static str, Entry, bool)> {
    let mut v: Vec<(&'static str, Entry, bool)> = Vec::new();
    macro_rules! m {
        ($t:ty) => {
            v.push((std::any::type_name::<$t>(), ep::<$t> as Entry, false));
        };
    }
    for_each_subject!(m);
    // tracked element containers (drop monitor)
    macro_rules! t {
        ($t:ty) => {
            v.push((stringify!($t), ep::<$t> as Entry, true));
        };
    }
    t!([Tracked; 0]);
    t!([Tracked; 1]);
    t!([Tracked; 3]);
    t!([Tracked; 32]);
    t!(Vec<Tracked>);
    t!(VecDeque<Tracked>);
    t!(LinkedList<Tracked>);
    t!((Tracked, Tracked, Tracked));
    t!(Option<Tracked>);
    t!(Box<Tracked>);
    t!(Result<Tracked, Tracked>);
    t!(BTreeMap<u8, Tracked>);
    t!(std::ops::Range<Tracked>);
    t!(std::ops::RangeInclusive<Tracked>);
    t!([[Tracked; 2]; 2]);
    t!(Vec<[Tracked; 2]>);
    // borrowed types
    let borrowed: Vec<(&'static str, Entry)> = vec![
        acc_ep!("decode::<&str>", |d| d.decode::<&str>().is_ok()),
        acc_ep!("decode::<&ByteSlice>", |d| d.decode::<&ByteSlice>().is_ok()),
        acc_ep!("decode::<&CStr>", |d| d.decode::<&std::ffi::CStr>().is_ok()),
        acc_ep!("decode::<&Path>", |d| d.decode::<&std::path::Path>().is_ok()),
        acc_ep!("decode::<Token>", |d| d.decode::<Token>().is_ok()),
        acc_ep!("decode::<Vec<Token>>", |d| d.decode::<Vec<Token>>().is_ok()),
        acc_ep!("decode::<Vec<&str>>", |d| d.decode::<Vec<&str>>().is_ok()),
        acc_ep!("decode::<HashMap<&str,&ByteSlice>>", |d| d.decode::<std::collections::HashMap<&str, &ByteSlice>>().is_ok()),
        // accessors
        acc_ep!("bool()", |d| d.bool().is_ok()),
        acc_ep!("u8()", |d| d.u8().is_ok()),
        acc_ep!("u16()", |d| d.u16().is_ok()),
        acc_ep!("u32()", |d| d.u32().is_ok()),
        acc_ep!("u64()", |d| d.u64().is_ok()),
        acc_ep!("i8()", |d| d.i8().is_ok()),
        acc_ep!("i16()", |d| d.i16().is_ok()),
        acc_ep!("i32()", |d| d.i32().is_ok()),
        acc_ep!("i64()", |d| d.i64().is_ok()),
        acc_ep!("int()", |d| d.int().is_ok()),
        acc_ep!("f16()", |d| d.f16().is_ok()),
        acc_ep!("f32()", |d| d.f32().is_ok()),
        acc_ep!("f64()", |d| d.f64().is_ok()),
        acc_ep!("char()", |d| d.char().is_ok()),
        acc_ep!("bytes()", |d| d.bytes().is_ok()),
        acc_ep!("str()", |d| d.str().is_ok()),
        acc_ep!("array()", |d| d.array().is_ok()),
        acc_ep!("map()", |d| d.map().is_ok()),
        acc_ep!("tag()", |d| d.tag().is_ok()),
        acc_ep!("null()", |d| d.null().is_ok()),
        acc_ep!("undefined()", |d| d.undefined().is_ok()),
        acc_ep!("simple()", |d| d.simple().is_ok()),
        acc_ep!("datatype()", |d| d.datatype().is_ok()),
        acc_ep!("skip()", |d| d.skip().is_ok()),
        acc_ep!("skip() x3", |d| d.skip().is_ok() && d.skip().is_ok() && d.skip().is_ok()),
        acc_ep!("bytes_iter() drain", |d| match d.bytes_iter() {
            Ok(it) => it.take(1 << 20).all(|x| x.is_ok()),
            Err(_) => false,
        }),
        acc_ep!("str_iter() drain", |d| match d.str_iter() {
            Ok(it) => it.take(1 << 20).all(|x| x.is_ok()),
            Err(_) => false,
        }),
        acc_ep!("bytes_iter() abandoned", |d| match d.bytes_iter() {
            Ok(mut it) => it.next().map(|x| x.is_ok()).unwrap_or(true),
            Err(_) => false,
        }),
        acc_ep!("array_iter::<u64>() drain", |d| match d.array_iter::<u64>() {
            Ok(it) => it.take(1 << 20).all(|x| x.is_ok()),
            Err(_) => false,
        }),
        acc_ep!("array_iter::<Token>() abandoned", |d| match d.array_iter::<Token>() {
            Ok(mut it) => {
                let a = it.next().map(|x| x.is_ok()).unwrap_or(true);
                let b = it.next().map(|x| x.is_ok()).unwrap_or(true);
                a && b
            }
            Err(_) => false,
        }),
        acc_ep!("map_iter::<u64,u64>() drain", |d| match d.map_iter::<u64, u64>() {
            Ok(it) => it.take(1 << 20).all(|x| x.is_ok()),
            Err(_) => false,
        }),
        acc_ep!("map_iter::<Token,Token>() abandoned", |d| match d.map_iter::<Token, Token>() {
            Ok(mut it) => it.next().map(|x| x.is_ok()).unwrap_or(true),
            Err(_) => false,
        }),
        acc_ep!("tokens() drain", |d| {
            let mut ok = true;
            let mut n = 0usize;
            for t in d.tokens() {
                ok &= t.is_ok();
                n += 1;
                if n > (1 << 22) {
                    panic!("tokenizer yields more than 2^22 tokens")
                }
            }
            ok
        }),
        acc_ep!("tokens() size_hint/nth/count", |d| {
            let t = d.tokens();
            let (lo, hi) = t.size_hint();
            assert!(hi.map(|h| lo <= h).unwrap_or(true));
            let mut t = t;
            let a = t.nth(1).map(|x| x.is_ok()).unwrap_or(false);
            a && t.take(1 << 16).count() > 0
        }),
        acc_ep!("array_iter::<Token>() size_hint/nth/last", |d| match d.array_iter::<Token>() {
            Ok(mut it) => {
                let (lo, hi) = it.size_hint();
                assert!(hi.map(|h| lo <= h).unwrap_or(true));
                let a = it.nth(1).map(|x| x.is_ok()).unwrap_or(false);
                a && it.take(1 << 12).take_while(|x| x.is_ok()).last().is_some()
            }
            Err(_) => false,
        }),
        acc_ep!("map_iter::<u64,Token>() size_hint/skip/step_by", |d| match d.map_iter::<u64, Token>() {
            Ok(it) => {
                let _ = it.size_hint();
                it.take(1 << 12).skip(1).step_by(2).all(|x| x.is_ok())
            }
            Err(_) => false,
        }),
        acc_ep!("bytes_iter()/str_iter() size_hint/nth", |d| {
            let a = d.bytes_iter().map(|mut it| { let _ = it.size_hint(); it.nth(1).map(|x| x.is_ok()).unwrap_or(false) }).unwrap_or(false);
            let b = d.str_iter().map(|mut it| { let _ = it.size_hint(); it.nth(1).map(|x| x.is_ok()).unwrap_or(false) }).unwrap_or(false);
            a || b
        }),
        acc_ep!("probe().skip()", |d| {
            let before = d.position();
            let r = d.probe().skip().is_ok();
            if d.position() != before {
                panic!("probe moved the decoder")
            }
            r
        }),
    ];
    for (n, e) in borrowed {
        v.push((n, e, false))
    }
    v.push(("info::Size::head+tail", (|b: &[u8]| {
        let mut ok = false;
        if let Some(f) = b.first() {
            if let Ok(h) = Size::head(*f) {
                ok = Size::tail(&b[..h.min(b.len())]).is_ok();
            }
        }
        let _ = Size::tail(b);
        (ok, 0)
    }) as Entry, false));
    v
}

fn fail(rep: &mut Report, entry: &str, kind: &str, what: String, input: &[u8]) {
    let replay = if input.len() <= 4000 { vec!["c02".into(), "--replay".into(), "entry".into(), entry.to_string(), hex(input)] } else { vec![] };
    rep.violation(&format!("{}|{}|{}", ID, entry, kind), J::obj().with("entry", J::s(entry)).with("what", J::s(what)).with("input", J::s(hex(&input[..input.len().min(200)]))).with("input_len", J::U(input.len() as u64)), replay);
}

pub struct Cx {
    pub entries: Vec<(&'static str, Entry, bool)>,
}

/// Run every entry point on one input under all monitors.
pub fn check_input(cx: &Cx, rep: &mut Report, input: &[u8], only: Option<&str>) {
    let boxed: Box<[u8]> = input.to_vec().into_boxed_slice();
    let len = boxed.len();
    for (name, f, tracked) in &cx.entries {
        if let Some(o) = only {
            if o != *name {
                continue;
            }
        }
        if *tracked {
            track_reset()
        }
        mon::steps_reset(step_budget(len));
        let sc = mon::AllocScope::begin();
        let st = mon::StackScope::begin(STACK_BUDGET);
        let r = mon::guarded(|| f(&boxed));
        let depth = st.end();
        let al = sc.end();
        let steps = mon::steps_read();
        mon::steps_reset(0);
        rep.evaluations += 1;
        rep.max("max stack depth below the call (bytes)", depth as f64);
        match r {
            Err(p) => {
                let kind = if p.is_step_limit() { "step-limit" } else if p.is_stack_limit() { "stack-depth" } else { "panic" };
                fail(rep, name, kind, format!("{} at {}", p.message, p.location), input);
                continue;
            }
            Ok((_, pos)) => {
                if pos > len {
                    fail(rep, name, "position", format!("position {} > input length {}", pos, len), input);
                }
            }
        }
        if mon::steps_available() && steps > step_budget(len) {
            fail(rep, name, "step-limit", format!("{} steps for {} bytes", steps, len), input);
        }
        if mon::alloc_active() {
            if al.peak > mem_budget(len) || al.max_request > mem_budget(len) {
                fail(rep, name, "memory", format!("peak {} bytes, largest request {} bytes for {} input bytes", al.peak, al.max_request, len), input);
            }
            if al.retained != 0 && !*tracked {
                fail(rep, name, "leak", format!("{} bytes still allocated after the result was dropped", al.retained), input);
            }
        }
        if *tracked {
            let (created, live, dbl) = track_read();
            if live != 0 || dbl != 0 {
                fail(rep, name, "drop", format!("{} elements created, {} never dropped, {} dropped twice", created, live, dbl), input);
            } else if created > 0 {
                rep.count("drop monitor: elements created and dropped exactly once (calls)");
            }
        }
    }
}

// ---------------------------------------------------------------------------
// call sequences with set_position

type Op = fn(&mut Decoder) -> bool;

fn ops() -> Vec<(&'static str, Op)> {
    vec![
        ("u8", |d| d.u8().is_ok()),
        ("i64", |d| d.i64().is_ok()),
        ("int", |d| d.int().is_ok()),
        ("f64", |d| d.f64().is_ok()),
        ("bytes", |d| d.bytes().is_ok()),
        ("str", |d| d.str().is_ok()),
        ("array", |d| d.array().is_ok()),
        ("map", |d| d.map().is_ok()),
        ("tag", |d| d.tag().is_ok()),
        ("simple", |d| d.simple().is_ok()),
        ("bool", |d| d.bool().is_ok()),
        ("null", |d| d.null().is_ok()),
        ("datatype", |d| d.datatype().is_ok()),
        ("skip", |d| d.skip().is_ok()),
        ("token", |d| d.decode::<Token>().is_ok()),
        ("tokens-next", |d| d.tokens().next().map(|t| t.is_ok()).unwrap_or(false)),
        ("str_iter-drain", |d| d.str_iter().map(|it| it.take(1 << 16).all(|x| x.is_ok())).unwrap_or(false)),
        ("bytes_iter-first", |d| d.bytes_iter().map(|mut it| it.next().map(|x| x.is_ok()).unwrap_or(true)).unwrap_or(false)),
        ("array_iter-first", |d| d.array_iter::<u8>().map(|mut it| it.next().map(|x| x.is_ok()).unwrap_or(true)).unwrap_or(false)),
        ("Vec<u8>", |d| d.decode::<Vec<u8>>().is_ok()),
        ("String", |d| d.decode::<String>().is_ok()),
        ("Option<u8>", |d| d.decode::<Option<u8>>().is_ok()),
        ("[u8;2]", |d| d.decode::<[u8; 2]>().is_ok()),
        ("(u8,u8)", |d| d.decode::<(u8, u8)>().is_ok()),
        ("Duration", |d| d.decode::<std::time::Duration>().is_ok()),
        ("probe-skip", |d| d.probe().skip().is_ok()),
        // the other Iterator methods of the library's iterators (also asked before the first next())
        ("tokens-size_hint", |d| { let t = d.tokens(); let (lo, hi) = t.size_hint(); assert!(hi.map(|h| lo <= h).unwrap_or(true)); false }),
        ("tokens-collect-hashmap", |d| { let m: std::collections::HashMap<usize, bool> = d.tokens().take(64).enumerate().map(|(i, t)| (i, t.is_ok())).collect(); m.values().any(|ok| *ok) }),
        ("tokens-nth2", |d| d.tokens().nth(2).map(|t| t.is_ok()).unwrap_or(false)),
        ("tokens-count", |d| { let mut t = d.tokens(); let first = t.next().map(|x| x.is_ok()).unwrap_or(false); let _ = t.take(1 << 16).count(); first }),
        ("array_iter-size_hint", |d| d.array_iter::<u8>().map(|it| { let (lo, hi) = it.size_hint(); assert!(hi.map(|h| lo <= h).unwrap_or(true)); true }).unwrap_or(false)),
        ("array_iter-nth2", |d| d.array_iter::<u8>().map(|mut it| it.nth(2).map(|x| x.is_ok()).unwrap_or(false)).unwrap_or(false)),
        ("array_iter-last", |d| d.array_iter::<u8>().map(|it| it.take(1 << 12).take_while(|x| x.is_ok()).last().is_some()).unwrap_or(false)),
        ("map_iter-size_hint", |d| d.map_iter::<u8, u8>().map(|it| { let (lo, hi) = it.size_hint(); assert!(hi.map(|h| lo <= h).unwrap_or(true)); true }).unwrap_or(false)),
        ("map_iter-skip1-count", |d| d.map_iter::<u8, u8>().map(|it| { let _ = it.take(1 << 12).skip(1).take_while(|x| x.is_ok()).count(); true }).unwrap_or(false)),
        ("map_iter-nth1", |d| d.map_iter::<u8, u8>().map(|mut it| it.nth(1).map(|x| x.is_ok()).unwrap_or(false)).unwrap_or(false)),
        ("bytes_iter-size_hint-last", |d| d.bytes_iter().map(|it| { let _ = it.size_hint(); it.take(1 << 12).take_while(|x| x.is_ok()).last().is_some() }).unwrap_or(false)),
        ("str_iter-size_hint-nth1", |d| d.str_iter().map(|mut it| { let _ = it.size_hint(); it.nth(1).map(|x| x.is_ok()).unwrap_or(false) }).unwrap_or(false)),
    ]
}

fn check_call_sequence(rep: &mut Report, ops: &[(&'static str, Op)], seed: u64, i: u64, input: &[u8]) {
    let boxed: Box<[u8]> = input.to_vec().into_boxed_slice();
    let len = boxed.len();
    let mut rng = Rng::derive("c02/seq", seed, 1, i);
    let n = 1 + rng.below(8) as usize;
    let mut script: Vec<String> = Vec::new();
    let mut d = Decoder::new(&boxed);
    for _ in 0..n {
        if rng.chance(1, 3) {
            let p = match rng.below(6) {
                0 => usize::MAX,
                1 => usize::MAX - 1,
                2 => len + 1 + rng.below(2) as usize,
                _ => rng.usize_below(len + 1),
            };
            d.set_position(p);
            script.push(format!("set_position({})", p));
            continue;
        }
        let (name, f) = ops[rng.usize_below(ops.len())];
        script.push(name.to_string());
        let before = d.position();
        mon::steps_reset(step_budget(len));
        let sc = mon::AllocScope::begin();
        let st = mon::StackScope::begin(STACK_BUDGET);
        let r = mon::guarded(|| f(&mut d));
        let _ = st.end();
        let al = sc.end();
        mon::steps_reset(0);
        rep.evaluations += 1;
        let after = d.position();
        let bad = match r {
            Err(p) => Some((if p.is_step_limit() { "step-limit" } else if p.is_stack_limit() { "stack-depth" } else { "panic" }, format!("{} at {}", p.message, p.location))),
            Ok(ok) => {
                if after > len.max(before) {
                    Some(("position", format!("cursor moved from {} to {} (input length {})", before, after, len)))
                } else if before > len && ok {
                    Some(("beyond-end", format!("from position {} > length {} the call succeeded (now at {})", before, len, after)))
                } else if mon::alloc_active() && al.peak > mem_budget(len) {
                    Some(("memory", format!("peak {} bytes for {} input bytes", al.peak, len)))
                } else {
                    None
                }
            }
        };
        if let Some((kind, what)) = bad {
            rep.violation(
                &format!("{}|sequence|{}|{}", ID, name, kind),
                J::obj().with("script", J::A(script.iter().map(|s| J::s(s.clone())).collect())).with("what", J::s(what)).with("input", J::s(hex(&input[..input.len().min(200)]))),
                if input.len() <= 4000 { vec!["c02".into(), "--seed".into(), seed.to_string(), "--replay".into(), "seq".into(), i.to_string(), hex(input)] } else { vec![] },
            );
            return;
        }
    }
    if rep.want_sample() && script.len() > 3 && len > 2 && len < 24 {
        rep.sample(J::obj().with("input", J::s(hex(input))).with("calls", J::A(script.iter().map(|s| J::s(s.clone())).collect())));
    }
}

/// A complete text item (definite or chunked, bare or inside a container / tag) whose content is
/// 0..=48 characters of mixed 1-4 byte encodings followed / interrupted by bytes that make it
/// invalid UTF-8.
pub fn bad_text_item(rng: &mut Rng) -> Vec<u8> {
    let chars = ['a', 'ä', '€', '😀', 'z', 'é', '\u{7ff}', '\u{800}', '\u{ffff}', '\u{10000}'];
    let k = rng.below(49) as usize;
    let mut s = String::new();
    let narrow = rng.below(3); // 0: mixed, 1: all two-byte, 2: all three-byte
    for _ in 0..k {
        s.push(match narrow {
            1 => 'ä',
            2 => '€',
            _ => *rng.pick(&chars),
        })
    }
    let mut bytes = s.into_bytes();
    let tail: &[u8] = match rng.below(7) {
        0 => &[0xc3],
        1 => &[0xe2, 0x82],
        2 => &[0xf0, 0x9f, 0x98],
        3 => &[0x80],
        4 => &[0xff],
        5 => &[0xc0, 0xaf],
        _ => &[0xed, 0xa0, 0x80],
    };
    if rng.chance(3, 4) {
        bytes.extend_from_slice(tail)
    } else {
        let at = rng.usize_below(bytes.len() + 1);
        for (j, b) in tail.iter().enumerate() {
            bytes.insert(at + j, *b)
        }
    }
    let text = if rng.chance(1, 4) && bytes.len() >= 2 {
        let cut = 1 + rng.usize_below(bytes.len() - 1);
        Item::TextIndef(vec![(vcore::refcbor::min_width(cut as u64), bytes[..cut].to_vec()), (vcore::refcbor::min_width((bytes.len() - cut) as u64), bytes[cut..].to_vec())])
    } else {
        Item::Text { w: vcore::refcbor::min_width(bytes.len() as u64), v: bytes }
    };
    match rng.below(6) {
        0 | 1 => text,
        2 => Item::array(vec![Item::uint(1), text]),
        3 => Item::array(vec![text, Item::uint(2)]),
        4 => Item::map(vec![(text, Item::uint(0))]),
        _ => Item::tag(rng.below(40), text),
    }
    .encode()
}

/// Inputs aimed at the `[T; N]` / container drop paths.
fn tracked_inputs(rng: &mut Rng) -> Vec<u8> {
    let k = *rng.pick(&[0usize, 1, 2, 3, 4, 31, 32, 33, 40]);
    let mut items: Vec<Item> = (0..k).map(|_| Item::uint(rng.below(200))).collect();
    if k > 0 && rng.chance(1, 2) {
        let j = rng.usize_below(k);
        items[j] = match rng.below(3) {
            0 => Item::uint(0xee),
            1 => Item::text("x"),
            _ => Item::uint(300),
        };
    }
    let it = match rng.below(5) {
        0 => Item::array_indef(items),
        1 => Item::map(items.chunks(2).filter(|c| c.len() == 2).map(|c| (c[0].clone(), c[1].clone())).collect()),
        2 => Item::array(vec![Item::array(items.iter().take(2).cloned().collect()), Item::array(items.iter().skip(2).take(2).cloned().collect())]),
        _ => Item::array(items),
    };
    let mut b = it.encode();
    if rng.chance(1, 4) && !b.is_empty() {
        let n = rng.usize_below(b.len());
        b.truncate(n);
    }
    if rng.chance(1, 8) && !b.is_empty() {
        // declared length differs from the actual number of elements
        b[0] = (b[0] & 0xe0) | (rng.below(24) as u8);
    }
    b
}

/// Seed corpus for the libFuzzer stage: valid encodings of every subject type and random trees.
fn dump_seed_corpus(a: &Args, dir: &str) {
    std::fs::create_dir_all(dir).expect("seed corpus dir");
    let mut rng = Rng::derive("c02/seedcorpus", a.seed, 0, 0);
    let mut k = 0usize;
    let mut put = |b: &[u8]| {
        if b.len() <= 512 {
            let _ = std::fs::write(format!("{}/seed-{:05}", dir, k), b);
            k += 1;
        }
    };
    macro_rules! m {
        ($t:ty) => {
            for _ in 0..4 {
                let v = <$t as Subject>::gen(&mut rng);
                if let Ok(b) = minicbor::to_vec(&v) {
                    put(&b)
                }
            }
        };
    }
    for_each_subject!(m);
    for i in 0..400 {
        put(&corpus::random_tree("c02/seedtree", a.seed, i, true).0.encode());
        put(&tracked_inputs(&mut rng));
    }
}

/// Replay of what the libFuzzer stage produced (evolved corpus and crash / timeout / oom
/// artifacts) through all monitors.  `--dir` = directory of input files.
fn run_fuzzreplay(a: &Args, rep: &mut Report) {
    let cx = Cx { entries: entries() };
    let opsv = ops();
    let dir = a.extra("dir").unwrap_or("").to_string();
    let mut files: Vec<std::path::PathBuf> = match std::fs::read_dir(&dir) {
        Ok(rd) => rd.filter_map(|e| e.ok().map(|e| e.path())).filter(|p| p.is_file()).collect(),
        Err(e) => {
            rep.inconclusive.push(format!("cannot read {}: {}", dir, e));
            return;
        }
    };
    files.sort();
    for (i, f) in files.iter().enumerate() {
        if !a.mine(i as u64) {
            continue;
        }
        let input = match std::fs::read(f) {
            Ok(b) => b,
            Err(_) => continue,
        };
        let before = rep.violation_count();
        rep.seen(fnv64(&input));
        mon::set_case(&input[..input.len().min(200)]);
        check_input(&cx, rep, &input, None);
        check_call_sequence(rep, &opsv, a.seed, i as u64, &input);
        let name = f.file_name().map(|s| s.to_string_lossy().to_string()).unwrap_or_default();
        let kind = name.split('-').next().unwrap_or("");
        if matches!(kind, "crash" | "timeout" | "oom" | "leak") {
            rep.count(&format!("libfuzzer artifact/{}", kind));
            if rep.violation_count() > before {
                rep.count(&format!("libfuzzer artifact/{} reproduced by the monitors", kind));
            } else {
                rep.notes.push(format!("ARTIFACT-NOT-REPRODUCED {} {}", kind, name));
            }
        }
        if rep.want_sample() && input.len() > 6 && input.len() < 40 {
            rep.sample(J::obj().with("fuzzer_corpus_input", J::s(hex(&input))));
        }
        if i & 0xff == 0 {
            mon::tick()
        }
    }
    rep.count_n("libfuzzer corpus files replayed", files.iter().enumerate().filter(|(i, _)| a.mine(*i as u64)).count() as u64);
}

pub fn run(a: &Args, rep: &mut Report) {
    if a.tier == "seedcorpus" {
        dump_seed_corpus(a, a.extra("dir").unwrap_or("seedcorpus"));
        rep.evaluations += 1;
        return;
    }
    if a.tier == "fuzzreplay" {
        return run_fuzzreplay(a, rep);
    }
    let cx = Cx { entries: entries() };
    rep.note(format!("{} entry points", cx.entries.len()));
    let opsv = ops();
    let asan = a.tier == "asan";
    // 1. all short byte strings x all entry points
    let maxlen = if a.thorough() { 3 } else { 2 };
    if !asan {
        let n = corpus::all_short_strings(a, maxlen, &mut |b| check_input(&cx, rep, b, None));
        rep.enumerated(n);
        rep.exhaustive.push(format!("all byte strings of length <= {} x all {} entry points", maxlen, cx.entries.len()));
        mon::tick();
    }
    // 2. structured head sweep, alone and nested one and two levels
    {
        let mut inputs: Vec<Vec<u8>> = Vec::new();
        gen::head_sweep(&mut |b| inputs.push(b.to_vec()));
        let base = inputs.len();
        for k in 0..base {
            for pre in [&[0x82u8][..], &[0x9f], &[0xa1, 0x01], &[0x82, 0x00, 0x82], &[0x9f, 0x9f], &[0x82, 0x1b, 0xff, 0xff, 0xff, 0xff, 0xff, 0xff, 0xff, 0xff], &[0xc1], &[0x82, 0x1a, 0xff, 0xff, 0xff, 0xff]] {
                let mut v = pre.to_vec();
                v.extend_from_slice(&inputs[k]);
                inputs.push(v);
            }
        }
        let mut n = 0;
        for (k, b) in inputs.iter().enumerate() {
            if a.mine(k as u64) && (!asan || k % 4 == 0) {
                check_input(&cx, rep, b, None);
                n += 1;
            }
        }
        rep.enumerated(n);
        rep.count_n("head sweep (alone and nested)", n);
        mon::tick();
    }
    // 3. type-directed mutants: valid encodings of every subject type through every mutator
    let nmut: u64 = if asan { 30_000 } else if a.thorough() { 6_000_000 } else { 250_000 };
    {
        let mut valid: Vec<Vec<u8>> = Vec::new();
        let mut rng = Rng::derive("c02/valid", a.seed, a.shard, 0);
        macro_rules! m {
            ($t:ty) => {
                for _ in 0..3 {
                    let v = <$t as Subject>::gen(&mut rng);
                    if let Ok(b) = minicbor::to_vec(&v) {
                        if b.len() < 4096 {
                            valid.push(b)
                        }
                    }
                }
            };
        }
        for_each_subject!(m);
        for i in 0..nmut {
            if !a.mine(i) {
                continue;
            }
            let mut rng = Rng::derive("c02/mut", a.seed, 0, i);
            let input = match i % 4 {
                0 => tracked_inputs(&mut rng),
                1 => {
                    let (it, mut r) = corpus::random_tree("c02/tree", a.seed, i, true);
                    let (o, _) = corpus::random_tree("c02/tree2", a.seed, i, true);
                    let mut e = it.encode();
                    e.truncate(2048);
                    gen::mutate(&mut r, &e, &o.encode()).0
                }
                _ => {
                    let base = &valid[rng.usize_below(valid.len())];
                    let other = &valid[rng.usize_below(valid.len())];
                    gen::mutate(&mut rng, base, other).0
                }
            };
            rep.seen(fnv64(&input));
            mon::set_case(&input[..input.len().min(200)]);
            check_input(&cx, rep, &input, None);
            check_call_sequence(rep, &opsv, a.seed, i, &input);
            rep.max("max input length", input.len() as f64);
        }
    }
    // 3b. deep nesting families (chains of nested indefinite/definite containers, tag chains ...):
    // work and memory must stay linear, the stack constant
    {
        let mut rng = Rng::derive("c02/nest", a.seed, 0, 0);
        let mut fam = corpus::nesting_families(&mut rng, if a.thorough() { 20_000 } else { 4_000 });
        // chains of directly nested tags / one-element arrays / one-entry maps, closed and cut short
        for (name, unit) in [("tag-chain", &[0xc1u8][..]), ("tag24-chain", &[0xd8, 0x18]), ("array1-chain", &[0x81]), ("map1-chain", &[0xa1, 0x00]), ("tagged-array-chain", &[0xc2, 0x81])] {
            for depth in [600usize, 5_000, if a.thorough() { 100_000 } else { 30_000 }] {
                let mut b: Vec<u8> = Vec::with_capacity(depth * unit.len() + 1);
                for _ in 0..depth {
                    b.extend_from_slice(unit)
                }
                fam.push((format!("{}-{}-open", name, depth), b.clone()));
                b.push(0x00);
                fam.push((format!("{}-{}", name, depth), b));
            }
        }
        let mut n = 0u64;
        for (k, (name, b)) in fam.iter().enumerate() {
            if a.mine(k as u64) && !(asan && b.len() > 20_000) {
                mon::set_case(name.as_bytes());
                check_input(&cx, rep, b, None);
                n += 1;
                mon::tick();
            }
        }
        rep.count_n("deep nesting families", n);
    }
    // 3c. complete text items that are not valid UTF-8, with long runs of multi-byte characters
    // before the offending bytes (error paths that quote or measure the valid part), definite and
    // chunked, alone and inside containers
    {
        let n: u64 = if asan { 2_000 } else if a.thorough() { 400_000 } else { 40_000 };
        for i in 0..n {
            if !a.mine(i) {
                continue;
            }
            let mut rng = Rng::derive("c02/badtext", a.seed, 0, i);
            let input = bad_text_item(&mut rng);
            rep.seen(fnv64(&input));
            mon::set_case(&input[..input.len().min(200)]);
            check_input(&cx, rep, &input, None);
        }
        rep.count_n("invalid-UTF-8 text items", n / a.nshards.max(1));
    }
    // 4. a few large hostile inputs (declared sizes far above the input)
    if a.shard == 0 {
        for n in [1usize << 16, 1 << 20] {
            let mut b = vec![0x9f];
            b.extend(std::iter::repeat(0x9f).take(n));
            check_input(&cx, rep, &b, None);
            let mut b = vec![0x5b, 0, 0, 0, 0, 0, 0x10, 0, 0];
            b.extend(std::iter::repeat(0x41).take(n));
            check_input(&cx, rep, &b, None);
            let mut b = vec![0x9b, 0, 0, 0, 0, 0xff, 0xff, 0xff, 0xff];
            b.extend(std::iter::repeat(0x01).take(n));
            check_input(&cx, rep, &b, None);
        }
    }
}

pub fn replay(a: &Args, rep: &mut Report) {
    let cx = Cx { entries: entries() };
    match a.replay[0].as_str() {
        "entry" => {
            let input = vcore::json::unhex(&a.replay[2]).expect("hex");
            println!("replaying entry {} on {}", a.replay[1], hex(&input));
            check_input(&cx, rep, &input, Some(a.replay[1].as_str()));
        }
        "seq" => {
            let input = vcore::json::unhex(&a.replay[2]).expect("hex");
            check_call_sequence(rep, &ops(), a.seed, a.replay[1].parse().unwrap(), &input);
        }
        "input" => {
            let input = vcore::json::unhex(&a.replay[1]).expect("hex");
            check_input(&cx, rep, &input, None);
        }
        o => eprintln!("unknown replay kind {}", o),
    }
}
