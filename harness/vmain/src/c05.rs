//! C05 — integer decoding is value-preserving across widths.
//!
//! Oracle: arithmetic in i128.  For a head (sign, width, argument) the value
//! is `arg` or `-1 - arg`; an accessor for type T must return exactly that
//! value iff it is representable in T and an error otherwise; the position
//! after success is the head length.  `datatype()` must name a type whose
//! accessor accepts the item.  `Int` conversions must agree with the same
//! range test.

use minicbor::data::{Int, Type};
use minicbor::Decoder;
use std::num::*;
use vcore::json::{hex, J};
use vcore::mon;
use vcore::refcbor::{head, min_width, widths_from};
use vcore::report::{Args, Report};
use vcore::rng::Rng;

const ID: &str = "C05";

struct Ctx<'a> {
    rep: &'a mut Report,
    full: bool,
}

// The item under test occupies b[START..END] of the buffer handed to the decoder (START = 0 and
// END = len for the plain case; the offset variant puts filler bytes before and after the item).
thread_local! {
    static WINDOW: std::cell::Cell<(usize, usize)> = std::cell::Cell::new((0, usize::MAX));
}
fn st_of(_b: &[u8]) -> usize {
    WINDOW.with(|w| w.get().0)
}
fn en_of(b: &[u8]) -> usize {
    WINDOW.with(|w| w.get().1.min(b.len()))
}

fn fail(rep: &mut Report, op: &str, b: &[u8], what: String) {
    rep.violation(
        &format!("{}|{}", ID, op),
        J::obj().with("op", J::s(op)).with("input", J::s(hex(b))).with("what", J::s(what)),
        vec!["c05".into(), "--replay".into(), hex(b), st_of(b).to_string(), en_of(b).to_string()],
    );
}

macro_rules! acc {
    ($rep:expr, $b:expr, $v:expr, $m:ident, $t:ty) => {{
        let mut d = Decoder::new($b);
        d.set_position(st_of($b));
        let r = d.$m();
        let exp = <$t>::try_from($v).ok();
        match (&r, exp) {
            (Ok(x), Some(y)) if *x == y && d.position() == en_of($b) => {}
            (Err(_), None) => {}
            _ => fail($rep, stringify!($m), $b, format!("value {} -> {:?} at position {}, expected {:?} at {}", $v, r.as_ref().map_err(|e| e.to_string()), d.position(), exp, $b.len())),
        }
    }};
}

macro_rules! dec {
    ($rep:expr, $b:expr, $v:expr, $t:ty, $exp:expr) => {{
        let mut d = Decoder::new($b);
        d.set_position(st_of($b));
        let r: Result<$t, _> = d.decode();
        let exp: Option<$t> = $exp;
        match (&r, exp) {
            (Ok(x), Some(y)) if *x == y && d.position() == en_of($b) => {}
            (Err(_), None) => {}
            _ => fail($rep, concat!("decode::<", stringify!($t), ">"), $b, format!("value {} -> {:?} at position {}, expected {:?}", $v, r.as_ref().map_err(|e| e.to_string()), d.position(), exp)),
        }
    }};
}

/// All observations for one integer head.
fn check_head(c: &mut Ctx, b: &[u8], v: i128) {
    let rep = &mut *c.rep;
    acc!(rep, b, v, u8, u8);
    acc!(rep, b, v, u16, u16);
    acc!(rep, b, v, u32, u32);
    acc!(rep, b, v, u64, u64);
    acc!(rep, b, v, i8, i8);
    acc!(rep, b, v, i16, i16);
    acc!(rep, b, v, i32, i32);
    acc!(rep, b, v, i64, i64);
    // int(): always Ok and exact
    {
        let mut d = Decoder::new(b);
        d.set_position(st_of(b));
        match d.int() {
            Ok(i) if i128::from(i) == v && d.position() == en_of(b) => {}
            r => fail(rep, "int", b, format!("value {} -> {:?} at {}", v, r.map(i128::from).map_err(|e| e.to_string()), d.position())),
        }
    }
    // datatype() names a type whose accessor accepts the item
    {
        let mut d = Decoder::new(b);
        d.set_position(st_of(b));
        match d.datatype() {
            Ok(t) => {
                let mut d2 = Decoder::new(b);
                d2.set_position(st_of(b));
                let got: Option<i128> = match t {
                    Type::U8 => d2.u8().ok().map(i128::from),
                    Type::U16 => d2.u16().ok().map(i128::from),
                    Type::U32 => d2.u32().ok().map(i128::from),
                    Type::U64 => d2.u64().ok().map(i128::from),
                    Type::I8 => d2.i8().ok().map(i128::from),
                    Type::I16 => d2.i16().ok().map(i128::from),
                    Type::I32 => d2.i32().ok().map(i128::from),
                    Type::I64 => d2.i64().ok().map(i128::from),
                    Type::Int => d2.int().ok().map(i128::from),
                    _ => None,
                };
                if got != Some(v) {
                    fail(rep, "datatype", b, format!("datatype() = {:?} but that accessor gives {:?} for value {}", t, got, v));
                }
            }
            Err(e) => fail(rep, "datatype", b, format!("datatype() failed: {}", e)),
        }
    }
    if !c.full {
        return;
    }
    // char
    {
        let mut d = Decoder::new(b);
        d.set_position(st_of(b));
        let r = d.char();
        let exp = u32::try_from(v).ok().and_then(char::from_u32);
        match (&r, exp) {
            (Ok(x), Some(y)) if *x == y && d.position() == en_of(b) => {}
            (Err(_), None) => {}
            _ => fail(rep, "char", b, format!("value {} -> {:?}, expected {:?}", v, r.as_ref().map_err(|e| e.to_string()), exp)),
        }
    }
    // the `Decode` impls of the primitive integer types (not only the accessors of the same name)
    dec!(rep, b, v, u8, u8::try_from(v).ok());
    dec!(rep, b, v, u16, u16::try_from(v).ok());
    dec!(rep, b, v, u32, u32::try_from(v).ok());
    dec!(rep, b, v, u64, u64::try_from(v).ok());
    dec!(rep, b, v, i8, i8::try_from(v).ok());
    dec!(rep, b, v, i16, i16::try_from(v).ok());
    dec!(rep, b, v, i32, i32::try_from(v).ok());
    dec!(rep, b, v, i64, i64::try_from(v).ok());
    dec!(rep, b, v, usize, usize::try_from(v).ok());
    dec!(rep, b, v, isize, isize::try_from(v).ok());
    dec!(rep, b, v, NonZeroU8, u8::try_from(v).ok().and_then(NonZeroU8::new));
    dec!(rep, b, v, NonZeroU16, u16::try_from(v).ok().and_then(NonZeroU16::new));
    dec!(rep, b, v, NonZeroU32, u32::try_from(v).ok().and_then(NonZeroU32::new));
    dec!(rep, b, v, NonZeroU64, u64::try_from(v).ok().and_then(NonZeroU64::new));
    dec!(rep, b, v, NonZeroUsize, usize::try_from(v).ok().and_then(NonZeroUsize::new));
    dec!(rep, b, v, NonZeroI8, i8::try_from(v).ok().and_then(NonZeroI8::new));
    dec!(rep, b, v, NonZeroI16, i16::try_from(v).ok().and_then(NonZeroI16::new));
    dec!(rep, b, v, NonZeroI32, i32::try_from(v).ok().and_then(NonZeroI32::new));
    dec!(rep, b, v, NonZeroI64, i64::try_from(v).ok().and_then(NonZeroI64::new));
    dec!(rep, b, v, NonZeroIsize, isize::try_from(v).ok().and_then(NonZeroIsize::new));
    dec!(rep, b, v, Wrapping<u16>, u16::try_from(v).ok().map(Wrapping));
    dec!(rep, b, v, Option<i32>, i32::try_from(v).ok().map(Some));
    // Int conversions
    int_conversions(rep, v);
}

macro_rules! int_elim {
    ($rep:expr, $i:expr, $v:expr, $t:ty) => {{
        let r = <$t>::try_from($i);
        let exp = <$t>::try_from($v).ok();
        match (&r, exp) {
            (Ok(x), Some(y)) if *x == y => {}
            (Err(_), None) => {}
            _ => $rep.violation(
                &format!("{}|TryFrom<Int> for {}", ID, stringify!($t)),
                J::obj().with("value", J::s($v.to_string())).with("what", J::s(format!("got {:?}, expected {:?}", r.as_ref().ok(), exp))),
                vec!["c05".into(), "--replay".into(), "int".into(), $v.to_string()],
            ),
        }
    }};
}

macro_rules! int_intro {
    ($rep:expr, $v:expr, $t:ty) => {{
        if let Ok(x) = <$t>::try_from($v) {
            let i = Int::from(x);
            if i128::from(i) != $v {
                $rep.violation(
                    &format!("{}|From<{}> for Int", ID, stringify!($t)),
                    J::obj().with("value", J::s($v.to_string())).with("what", J::s(format!("Int::from gives {}", i128::from(i)))),
                    vec!["c05".into(), "--replay".into(), "int".into(), $v.to_string()],
                );
            }
        }
    }};
}

pub fn int_conversions(rep: &mut Report, v: i128) {
    let inrange = v >= -(1i128 << 64) && v < (1i128 << 64);
    match (Int::try_from(v), inrange) {
        (Ok(i), true) => {
            if i128::from(i) != v {
                rep.violation(&format!("{}|TryFrom<i128> for Int", ID), J::obj().with("value", J::s(v.to_string())).with("what", J::s(format!("round trip gives {}", i128::from(i)))), vec!["c05".into(), "--replay".into(), "int".into(), v.to_string()]);
                return;
            }
            int_elim!(rep, i, v, u8);
            int_elim!(rep, i, v, u16);
            int_elim!(rep, i, v, u32);
            int_elim!(rep, i, v, u64);
            int_elim!(rep, i, v, u128);
            int_elim!(rep, i, v, i8);
            int_elim!(rep, i, v, i16);
            int_elim!(rep, i, v, i32);
            int_elim!(rep, i, v, i64);
            // Display is decimal of the value
            if i.to_string() != v.to_string() {
                rep.violation(&format!("{}|Display for Int", ID), J::obj().with("value", J::s(v.to_string())).with("what", J::s(i.to_string())), vec![]);
            }
        }
        (Err(_), false) => {}
        (r, _) => rep.violation(
            &format!("{}|TryFrom<i128> for Int", ID),
            J::obj().with("value", J::s(v.to_string())).with("what", J::s(format!("in range = {}, result ok = {}", inrange, r.is_ok()))),
            vec!["c05".into(), "--replay".into(), "int".into(), v.to_string()],
        ),
    }
    if v >= 0 {
        let u = v as u128;
        match (Int::try_from(u), u <= u64::MAX as u128) {
            (Ok(i), true) if i128::from(i) == v => {}
            (Err(_), false) => {}
            _ => rep.violation(&format!("{}|TryFrom<u128> for Int", ID), J::obj().with("value", J::s(v.to_string())), vec!["c05".into(), "--replay".into(), "int".into(), v.to_string()]),
        }
    }
    int_intro!(rep, v, u8);
    int_intro!(rep, v, u16);
    int_intro!(rep, v, u32);
    int_intro!(rep, v, u64);
    int_intro!(rep, v, i8);
    int_intro!(rep, v, i16);
    int_intro!(rep, v, i32);
    int_intro!(rep, v, i64);
}

fn one(c: &mut Ctx, neg: bool, w: u8, arg: u64) {
    let mut buf = Vec::with_capacity(9);
    head(if neg { 1 } else { 0 }, w, arg, &mut buf);
    let v: i128 = if neg { -1 - arg as i128 } else { arg as i128 };
    c.rep.eval();
    WINDOW.with(|w| w.set((0, usize::MAX)));
    let r = mon::guarded(|| check_head(c, &buf, v));
    if let Err(p) = r {
        fail(c.rep, "panic", &buf, format!("{} at {}", p.message, p.location));
    }
    // the same item in the middle of a buffer (the decoder starts at its first byte): the value
    // and the number of bytes consumed must not depend on where the item sits
    if c.full || arg % 16 == 5 {
        let k = 1 + (arg % 7) as usize;
        let mut wide = Vec::with_capacity(buf.len() + k + 2);
        for j in 0..k {
            wide.push([0x18u8, 0x39, 0x1b, 0xff, 0x00, 0x3a, 0x19][(j + (arg % 7) as usize) % 7]);
        }
        wide.extend_from_slice(&buf);
        wide.extend_from_slice(&[0x1b, 0xff][..1 + (arg % 2) as usize]);
        c.rep.eval();
        WINDOW.with(|w| w.set((k, k + buf.len())));
        let r = mon::guarded(|| check_head(c, &wide, v));
        WINDOW.with(|w| w.set((0, usize::MAX)));
        if let Err(p) = r {
            fail(c.rep, "panic", &wide, format!("{} at {}", p.message, p.location));
        }
        c.rep.count("items also decoded at a non-zero offset with trailing bytes");
    }
}

pub fn run(a: &Args, rep: &mut Report) {
    let mut c = Ctx { rep, full: true };
    // 1. exhaustive: both signs x every admissible width x all arguments < 2^16
    let mut idx = 0u64;
    let mut n = 0u64;
    for arg in 0..65536u64 {
        for w in widths_from(min_width(arg)) {
            for neg in [false, true] {
                idx += 1;
                if !a.mine(idx) {
                    continue;
                }
                one(&mut c, neg, *w, arg);
                n += 1;
            }
        }
        if arg & 0xfff == 0 {
            mon::tick()
        }
    }
    c.rep.enumerated(n);
    c.rep.count_n("exhaustive/arg<2^16 x widths x signs", n);
    c.rep.exhaustive.push("all (sign, width, argument) with argument < 2^16 at every admissible head width".into());
    // 2. every boundary value at every admissible width
    let mut n = 0u64;
    for arg in vcore::gen::boundaries_u64() {
        for w in widths_from(min_width(*arg)) {
            for neg in [false, true] {
                idx += 1;
                if !a.mine(idx) {
                    continue;
                }
                one(&mut c, neg, *w, *arg);
                n += 1;
            }
        }
    }
    c.rep.enumerated(n);
    c.rep.count_n("boundaries/2^k+-3 x widths x signs", n);
    // 3. random 64-bit arguments
    let nrand: u64 = if a.thorough() { 20_000_000 } else { 2_000_000 };
    let mut n = 0;
    for i in 0..nrand {
        if !a.mine(i) {
            continue;
        }
        let mut rng = Rng::derive("c05/rand", a.seed, 0, i);
        let arg = vcore::gen::gen_u64(&mut rng);
        let w = *rng.pick(widths_from(min_width(arg)));
        let neg = rng.bool();
        one(&mut c, neg, w, arg);
        c.rep.seen(vcore::rng::hash_mix(arg, (w as u64) << 1 | neg as u64));
        n += 1;
        if i & 0xffff == 0 {
            mon::tick()
        }
    }
    c.rep.count_n("random/64-bit arguments", n);
    // 4. Int conversions on i128 values outside the CBOR range too
    let mut n = 0;
    for k in 0..=127u32 {
        for d in -3i128..=3 {
            for s in [1i128, -1] {
                let v = s.wrapping_mul((1i128 << k).wrapping_add(d));
                idx += 1;
                if !a.mine(idx) {
                    continue;
                }
                c.rep.eval();
                int_conversions(c.rep, v);
                n += 1;
            }
        }
    }
    for v in [i128::MAX, i128::MIN, i128::MAX - 1, i128::MIN + 1] {
        int_conversions(c.rep, v);
    }
    // the published range constants denote the range ends, and agree with decoded heads
    if a.shard == 0 {
        use minicbor::data::{MAX_INT, MIN_INT};
        let lo = -(1i128 << 64);
        let hi = (1i128 << 64) - 1;
        let dec = |b: &[u8]| minicbor::Decoder::new(b).int().ok();
        let facts: [(&str, bool); 9] = [
            ("i128::from(MIN_INT) == -2^64", i128::from(MIN_INT) == lo),
            ("i128::from(MAX_INT) == 2^64-1", i128::from(MAX_INT) == hi),
            ("decode(3b ff*8) == MIN_INT", dec(&[0x3b, 0xff, 0xff, 0xff, 0xff, 0xff, 0xff, 0xff, 0xff]) == Some(MIN_INT)),
            ("decode(1b ff*8) == MAX_INT", dec(&[0x1b, 0xff, 0xff, 0xff, 0xff, 0xff, 0xff, 0xff, 0xff]) == Some(MAX_INT)),
            ("Int::try_from(-2^64) == MIN_INT", Int::try_from(lo).ok() == Some(MIN_INT)),
            ("Int::try_from(2^64-1) == MAX_INT", Int::try_from(hi).ok() == Some(MAX_INT)),
            ("i64::try_from(MIN_INT) fails", i64::try_from(MIN_INT).is_err()),
            ("u64::try_from(MAX_INT) == u64::MAX", u64::try_from(MAX_INT).ok() == Some(u64::MAX)),
            ("encode(MIN_INT) == 3b ff*8", minicbor::to_vec(MIN_INT).ok().as_deref() == Some(&[0x3b, 0xff, 0xff, 0xff, 0xff, 0xff, 0xff, 0xff, 0xff][..])),
        ];
        for (what, ok) in facts {
            c.rep.eval();
            if ok {
                c.rep.count("int-conversions/range constants");
            } else {
                c.rep.violation(&format!("{}|Int range constants", ID), J::obj().with("what", J::s(format!("{} does not hold", what))), vec![]);
            }
        }
    }
    c.rep.enumerated(n);
    c.rep.count_n("int-conversions/i128 boundaries", n);
    // 5. thorough: full 2^32 argument sweeps at the 4-byte and 8-byte widths, both signs
    if a.thorough() {
        c.full = false;
        let total = 1u64 << 32;
        let lo = total / a.nshards * a.shard;
        let hi = if a.shard + 1 == a.nshards { total } else { total / a.nshards * (a.shard + 1) };
        let mut n = 0u64;
        let mut buf = Vec::with_capacity(9);
        for arg in lo..hi {
            if arg & 0xfffff == 0 {
                mon::tick()
            }
            for (w, a64) in [(4u8, arg), (8u8, arg), (8u8, arg << 32 | (arg.wrapping_mul(0x9E37_79B9) & 0xffff_ffff))] {
                for neg in [false, true] {
                    buf.clear();
                    head(if neg { 1 } else { 0 }, w, a64, &mut buf);
                    let v: i128 = if neg { -1 - a64 as i128 } else { a64 as i128 };
                    check_head(&mut c, &buf, v);
                    n += 1;
                }
            }
        }
        c.rep.evals(n);
        c.rep.enumerated(n);
        c.rep.count_n("sweep/2^32 arguments at widths 4 and 8 (plus 2^32 spread 64-bit arguments), both signs", n);
        c.rep.exhaustive.push("all 2^32 arguments at the 4-byte and at the 8-byte width, both signs".into());
    }
    c.rep.sample(J::obj().with("input", J::s("3903e7")).with("value", J::I(-1000)).with("expect", J::s("i16/i32/i64/int Ok(-1000); u*/i8/char Err; datatype I16")));
    c.rep.sample(J::obj().with("input", J::s("1b0000000000000017")).with("value", J::I(23)).with("expect", J::s("non-preferred 8-byte head: every accessor Ok(23), position 9")));
}

pub fn replay(a: &Args, rep: &mut Report) {
    let mut c = Ctx { rep, full: true };
    if a.replay[0] == "int" {
        let v: i128 = a.replay[1].parse().unwrap();
        c.rep.eval();
        int_conversions(c.rep, v);
        return;
    }
    let b = vcore::json::unhex(&a.replay[0]).expect("hex input");
    let st: usize = a.replay.get(1).and_then(|s| s.parse().ok()).unwrap_or(0);
    let en: usize = a.replay.get(2).and_then(|s| s.parse().ok()).unwrap_or(b.len());
    WINDOW.with(|w| w.set((st, en)));
    let (it, _) = vcore::refcbor::parse_at(&b, st).expect("well-formed integer head");
    let v = it.int_value().expect("integer item");
    println!("replaying integer head {} = {}", hex(&b), v);
    c.rep.eval();
    let r = mon::guarded(|| check_head(&mut c, &b, v));
    if let Err(p) = r {
        fail(c.rep, "panic", &b, format!("{} at {}", p.message, p.location));
    }
}
