//! C11 — token streams are faithful: tokenise and re-encode is the identity.

use crate::c01::{gen_token, tok_equiv, Arena};
use crate::corpus;
use minicbor::data::Token;
use minicbor::decode::Tokenizer;
use minicbor::{Decoder, Encoder};
use vcore::gen;
use vcore::json::{hex, J};
use vcore::mon;
use vcore::refcbor::{self, Item, RTok};
use vcore::refnum;
use vcore::report::{Args, Report};
use vcore::rng::{fnv64, Rng};

const ID: &str = "C11";

fn fail(rep: &mut Report, sig: &str, what: String, input: &[u8]) {
    rep.violation(&format!("{}|{}", ID, sig), J::obj().with("what", J::s(what)).with("input", J::s(hex(&input[..input.len().min(300)]))), if input.len() <= 2000 { vec!["c11".into(), "--replay".into(), "bytes".into(), hex(input)] } else { vec![] });
}

/// Does the token carry the data-model value of the reference token?
fn tok_matches(t: &Token, r: &RTok) -> bool {
    match (t, r) {
        (Token::U8(n), RTok::Int(v)) => *n as i128 == *v,
        (Token::U16(n), RTok::Int(v)) => *n as i128 == *v,
        (Token::U32(n), RTok::Int(v)) => *n as i128 == *v,
        (Token::U64(n), RTok::Int(v)) => *n as i128 == *v,
        (Token::I8(n), RTok::Int(v)) => *n as i128 == *v,
        (Token::I16(n), RTok::Int(v)) => *n as i128 == *v,
        (Token::I32(n), RTok::Int(v)) => *n as i128 == *v,
        (Token::I64(n), RTok::Int(v)) => *n as i128 == *v,
        (Token::Int(n), RTok::Int(v)) => i128::from(*n) == *v,
        (Token::Bytes(b), RTok::Bytes(v)) => *b == &v[..],
        (Token::String(s), RTok::Text(v)) => s.as_bytes() == &v[..],
        (Token::Array(n), RTok::Array(v)) => n == v,
        (Token::Map(n), RTok::Map(v)) => n == v,
        (Token::Tag(t), RTok::Tag(v)) => t.as_u64() == *v,
        (Token::Bool(b), RTok::Simple(v)) => *v == if *b { 21 } else { 20 },
        (Token::Null, RTok::Simple(22)) => true,
        (Token::Undefined, RTok::Simple(23)) => true,
        (Token::Simple(n), RTok::Simple(v)) => n == v,
        (Token::F16(x), RTok::F16(h)) => {
            if refnum::is_nan16(*h) {
                x.is_nan()
            } else {
                x.to_bits() == refnum::f16_bits_to_f32_bits(*h)
            }
        }
        (Token::F32(x), RTok::F32(b)) => x.to_bits() == *b,
        (Token::F64(x), RTok::F64(b)) => x.to_bits() == *b,
        (Token::Break, RTok::Break) => true,
        (Token::BeginBytes, RTok::BeginBytes) => true,
        (Token::BeginString, RTok::BeginText) => true,
        (Token::BeginArray, RTok::BeginArray) => true,
        (Token::BeginMap, RTok::BeginMap) => true,
        _ => false,
    }
}

/// Signalling half NaNs are excluded by the property (they are quieted by
/// the conversion through f32): replace them by a quiet NaN.
fn quiet(it: &Item) -> Item {
    match it {
        Item::F16(h) if refnum::is_nan16(*h) && h & 0x0200 == 0 => Item::F16(h | 0x0200),
        Item::Array { w, items } => Item::Array { w: *w, items: items.iter().map(quiet).collect() },
        Item::Map { w, items } => Item::Map { w: *w, items: items.iter().map(|(k, v)| (quiet(k), quiet(v))).collect() },
        Item::Tag { w, v, inner } => Item::Tag { w: *w, v: *v, inner: Box::new(quiet(inner)) },
        x => x.clone(),
    }
}

pub fn check_sequence(rep: &mut Report, items: &[Item]) {
    rep.eval();
    let mut input = Vec::new();
    let mut rt = Vec::new();
    let mut pref = Vec::new();
    for it in items {
        it.encode_into(&mut input);
        refcbor::tokens(it, &mut rt);
        it.preferred().encode_into(&mut pref);
    }
    let input: Box<[u8]> = input.into_boxed_slice();
    mon::steps_reset(64 * input.len() as u64 + 4096);
    let r = mon::guarded(|| {
        let toks: Result<Vec<Token>, _> = Tokenizer::new(&input).collect();
        let toks = toks.map_err(|e| format!("tokenising a well-formed input failed: {}", e))?;
        if toks.len() != rt.len() {
            return Err(format!("{} tokens, the reference token stream has {}", toks.len(), rt.len()));
        }
        for (k, (t, r)) in toks.iter().zip(rt.iter()).enumerate() {
            if !tok_matches(t, r) {
                return Err(format!("token {} is {:?}, the head denotes {:?}", k, t, r));
            }
        }
        let mut e = Encoder::new(Vec::new());
        e.tokens(&toks).map_err(|e| format!("encoding the tokens failed: {}", e))?;
        let out = e.into_writer();
        if out != pref {
            return Err(format!("re-encoded tokens give {}, the preferred form of the same items is {}", hex(&out[..out.len().min(80)]), hex(&pref[..pref.len().min(80)])));
        }
        // Decoder::tokens on a borrowed decoder ends at the end of the input
        let mut d = Decoder::new(&input);
        let n = d.tokens().count();
        if n != toks.len() || d.position() != input.len() {
            return Err(format!("Decoder::tokens yielded {} tokens and stopped at {}", n, d.position()));
        }
        // a tokenizer made *from a decoder* (by value, and by reference at a later position)
        // continues at the decoder's position
        if items.len() >= 2 {
            let mut first = Vec::new();
            refcbor::tokens(&items[0], &mut first);
            let skip = items[0].encode().len();
            let mut d = Decoder::new(&input);
            d.set_position(skip);
            let rest: Result<Vec<Token>, _> = Tokenizer::from(d).collect();
            let rest = rest.map_err(|e| format!("Tokenizer::from(decoder at {}) failed: {}", skip, e))?;
            if rest.len() != rt.len() - first.len() || !rest.iter().zip(rt[first.len()..].iter()).all(|(t, r)| tok_matches(t, r)) {
                return Err(format!("Tokenizer::from(decoder at position {}) yields {} tokens {:?}, the items after that position have {}", skip, rest.len(), rest.first(), rt.len() - first.len()));
            }
            let mut d = Decoder::new(&input);
            d.set_position(skip);
            let n2 = d.tokens().count();
            if n2 != rest.len() || d.position() != input.len() {
                return Err(format!("Decoder::tokens from position {} yields {} tokens and stops at {}", skip, n2, d.position()));
            }
        }
        // the slice impl writes an array head followed by the same bytes
        let v = minicbor::to_vec(&toks[..]).map_err(|e| e.to_string())?;
        let mut want = Vec::new();
        refcbor::head(4, refcbor::min_width(toks.len() as u64), toks.len() as u64, &mut want);
        want.extend_from_slice(&pref);
        if v != want {
            return Err("to_vec(&[Token]) is not array head + token bytes".to_string());
        }
        Ok(toks.len())
    });
    mon::steps_reset(0);
    match r {
        Err(p) => fail(rep, if p.is_step_limit() { "forward|step-limit" } else { "forward|panic" }, format!("{} at {}", p.message, p.location), &input),
        Ok(Err(e)) => fail(rep, "forward", e, &input),
        Ok(Ok(n)) => {
            rep.max("forward/max tokens", n as f64);
            if input[..] == pref[..] {
                rep.count("forward/preferred input reproduced exactly")
            } else {
                rep.count("forward/non-preferred input re-encoded to preferred form")
            }
        }
    }
}

fn check_token_sequence(rep: &mut Report, seed: u64, i: u64) {
    rep.eval();
    let mut rng = Rng::derive("c11/tokens", seed, 0, i);
    let arena = Arena::new(&mut rng, 6);
    let n = 1 + rng.below(64) as usize;
    let toks: Vec<Token> = (0..n).map(|_| gen_token(&mut rng, &arena)).collect();
    let rp = vec!["c11".into(), "--seed".into(), seed.to_string(), "--replay".into(), "tokens".into(), i.to_string()];
    let r = mon::guarded(|| {
        let mut e = Encoder::new(Vec::new());
        e.tokens(&toks).map_err(|e| e.to_string())?;
        let bytes = e.into_writer();
        let back: Result<Vec<Token>, _> = Tokenizer::new(&bytes).collect();
        let back = back.map_err(|e| format!("tokenising encoded tokens {} failed: {}", hex(&bytes[..bytes.len().min(80)]), e))?;
        if back.len() != toks.len() {
            return Err(format!("{} tokens encoded, {} tokens read back", toks.len(), back.len()));
        }
        for (k, (a, b)) in toks.iter().zip(back.iter()).enumerate() {
            // a signalling half NaN only has to stay a NaN (excluded by the property)
            if !tok_equiv(a, b) {
                return Err(format!("token {}: wrote {:?}, read back {:?}", k, a, b));
            }
        }
        Ok(bytes)
    });
    match r {
        Err(p) => rep.violation(&format!("{}|converse|panic", ID), J::obj().with("what", J::s(p.message)), rp),
        Ok(Err(e)) => rep.violation(&format!("{}|converse", ID), J::obj().with("what", J::s(e)), rp),
        Ok(Ok(b)) => rep.seen(fnv64(&b)),
    }
}

/// On arbitrary bytes the tokenizer yields at most one token per byte and
/// then stays finished.
pub fn check_arbitrary(rep: &mut Report, input: &[u8]) {
    rep.eval();
    let boxed: Box<[u8]> = input.to_vec().into_boxed_slice();
    mon::steps_reset(64 * boxed.len() as u64 + 4096);
    let r = mon::guarded(|| {
        let mut t = Tokenizer::new(&boxed);
        let mut n = 0usize;
        loop {
            match t.next() {
                Some(_) => n += 1,
                None => break,
            }
            if n > boxed.len() {
                return Err(format!("more than {} tokens from {} bytes", boxed.len(), boxed.len()));
            }
        }
        for _ in 0..3 {
            if t.next().is_some() {
                return Err("the iterator yielded an item after returning None".to_string());
            }
        }
        Ok(n)
    });
    mon::steps_reset(0);
    match r {
        Err(p) => fail(rep, if p.is_step_limit() { "arbitrary|step-limit" } else { "arbitrary|panic" }, format!("{} at {}", p.message, p.location), input),
        Ok(Err(e)) => fail(rep, "arbitrary", e, input),
        Ok(Ok(_)) => {}
    }
}

pub fn run(a: &Args, rep: &mut Report) {
    // forward direction: exhaustive small trees (incl. every head width), as single items
    let max_nodes = if a.thorough() { 4 } else { 3 };
    let n = corpus::small_trees(a, max_nodes, 3, &mut |it| check_sequence(rep, &[quiet(it)]));
    rep.enumerated(n);
    rep.exhaustive.push(format!("all item trees with <= {} nodes x head widths: tokens, payloads, re-encoding", max_nodes));
    // all half patterns except signalling NaNs, all well-formed simple values
    let mut n = 0;
    for h in 0..=0xffffu32 {
        if !a.mine(h as u64) {
            continue;
        }
        let h = h as u16;
        if refnum::is_nan16(h) && h & 0x0200 == 0 {
            continue;
        }
        check_sequence(rep, &[Item::F16(h)]);
        n += 1;
    }
    if a.shard == 0 {
        for v in (0..24u8).chain(32..=255) {
            check_sequence(rep, &[Item::simple(v)]);
            n += 1;
        }
    }
    rep.enumerated(n);
    rep.exhaustive.push("all 65536 half patterns except signalling NaNs; all well-formed simple values".into());
    mon::tick();
    // adjacency: an item directly behind an item whose *last* byte equals its own head byte (or
    // its first argument byte): what a token is must not depend on the bytes in front of it
    {
        let args: [u64; 16] = [0, 1, 23, 24, 0x38, 0x7f, 0x80, 0xff, 0x100, 0x8000, 0xffff, 0x1_0000, 0x8000_0000, 0xffff_ffff, 1 << 63, u64::MAX];
        let mut seconds: Vec<Item> = Vec::new();
        for w in [0u8, 1, 2, 4, 8] {
            for &v in &args {
                let fits = match w {
                    0 => v < 24,
                    1 => v <= 0xff,
                    2 => v <= 0xffff,
                    4 => v <= 0xffff_ffff,
                    _ => true,
                };
                if fits {
                    seconds.push(Item::UInt { w, v });
                    seconds.push(Item::NInt { w, v });
                    if v < 6 {
                        seconds.push(Item::Bytes { w, v: vec![0x38; v as usize] });
                        seconds.push(Item::Text { w, v: vec![b'8'; v as usize] });
                        seconds.push(Item::Tag { w, v: if w == 0 { v } else { 0x38 + v }, inner: Box::new(Item::NInt { w: 1, v: 0x80 }) });
                    }
                }
            }
        }
        seconds.extend([Item::F16(0xb800), Item::F16(0x3c00), Item::F32(0xbf80_0000), Item::F32(0x3880_0000), Item::F64(0xbff0_0000_0000_0000), Item::simple(19), Item::simple(255), Item::null()]);
        let mut k = 0u64;
        for it2 in &seconds {
            let e2 = it2.encode();
            for b in [e2[0], *e2.get(1).unwrap_or(&e2[0])] {
                let mut firsts: Vec<Item> = vec![Item::Bytes { w: 0, v: vec![b] }, Item::Bytes { w: 1, v: vec![1, b] }];
                if b < 0x80 {
                    firsts.push(Item::Text { w: 0, v: vec![b] });
                }
                if b >= 24 {
                    firsts.push(Item::UInt { w: 1, v: b as u64 });
                    firsts.push(Item::NInt { w: 1, v: b as u64 });
                    firsts.push(Item::UInt { w: 2, v: 0x100 + b as u64 });
                } else {
                    firsts.push(Item::UInt { w: 0, v: b as u64 });
                }
                for it1 in firsts {
                    k += 1;
                    if !a.mine(k) {
                        continue;
                    }
                    check_sequence(rep, &[quiet(&it1), quiet(it2)]);
                    check_sequence(rep, &[quiet(it2), quiet(&it1), quiet(it2)]);
                    rep.count("adjacency: item behind an item ending in its head / argument byte");
                }
            }
        }
    }
    // random item sequences, preferred and non-preferred
    let nrand: u64 = if a.thorough() { 6_000_000 } else { 300_000 };
    for i in 0..nrand {
        if !a.mine(i) {
            continue;
        }
        let mut rng = Rng::derive("c11/seq", a.seed, 0, i);
        let k = 1 + rng.below(3) as usize;
        let items: Vec<Item> = (0..k).map(|j| quiet(&corpus::random_tree("c11/tree", a.seed, i * 4 + j as u64, i % 2 == 1).0)).collect();
        let h = fnv64(&items.iter().flat_map(|x| x.encode()).collect::<Vec<u8>>());
        rep.seen(h);
        check_sequence(rep, &items);
        if rep.want_sample() && items.len() == 2 && items[0].node_count() > 2 {
            rep.sample(J::obj().with("items", J::A(items.iter().map(|x| J::s(refcbor::diag(x))).collect())));
        }
        if i & 0x3ff == 0 {
            mon::tick()
        }
    }
    // converse: random token sequences
    let ntok: u64 = if a.thorough() { 8_000_000 } else { 400_000 };
    for i in 0..ntok {
        if !a.mine(i) {
            continue;
        }
        check_token_sequence(rep, a.seed, i);
        if i & 0x3ff == 0 {
            mon::tick()
        }
    }
    // arbitrary bytes: all short strings, the head sweep, mutants
    let n = corpus::all_short_strings(a, if a.thorough() { 3 } else { 2 }, &mut |b| check_arbitrary(rep, b));
    rep.enumerated(n);
    rep.exhaustive.push(format!("tokenizer termination on all byte strings of length <= {}", if a.thorough() { 3 } else { 2 }));
    if a.shard == 0 {
        let n = gen::head_sweep(&mut |b| check_arbitrary(rep, b));
        rep.enumerated(n);
    }
    let nmut: u64 = if a.thorough() { 4_000_000 } else { 200_000 };
    for i in 0..nmut {
        if !a.mine(i) {
            continue;
        }
        let (it, mut rng) = corpus::random_tree("c11/mut", a.seed, i, true);
        let (other, _) = corpus::random_tree("c11/mut2", a.seed, i, true);
        let (m, _) = gen::mutate(&mut rng, &it.encode(), &other.encode());
        rep.seen(fnv64(&m) ^ 0x5555);
        check_arbitrary(rep, &m);
    }
}

pub fn replay(a: &Args, rep: &mut Report) {
    match a.replay[0].as_str() {
        "tokens" => check_token_sequence(rep, a.seed, a.replay[1].parse().unwrap()),
        _ => {
            let b = vcore::json::unhex(&a.replay[1]).expect("hex");
            check_arbitrary(rep, &b);
            if let Ok(items) = refcbor::parse_seq(&b) {
                if items.iter().all(|i| i.text_valid()) {
                    println!("input is a well-formed sequence of {} items: checking the forward direction", items.len());
                    check_sequence(rep, &items);
                }
            }
        }
    }
}
