//! C06 — `skip()` consumes exactly one data item, whatever its nesting.
//!
//! Oracle: the reference parser's item boundary.  The same source file is
//! compiled into the feature-matrix binary (`vcfg`), where without `alloc` the
//! only additional accepted outcome is the documented unsupported-nesting
//! message error, and only for items in which an indefinite array/map has a
//! definite array/map ancestor.

use crate::corpus;
use minicbor::Decoder;
use vcore::json::{hex, J};
use vcore::mon;
use vcore::refcbor::{self, Item};
use vcore::report::{Args, Report};
use vcore::rng::{fnv64, Rng};

const ID: &str = "C06";
const SUFFIXES: [&[u8]; 4] = [&[], &[0xff], &[0x00], &[0x9f]];
const NOALLOC_MSG: &str = "require feature flag `alloc`";

/// Does some indefinite array/map have a definite array/map ancestor?
fn refusal_allowed(it: &Item, under_definite: bool) -> bool {
    match it {
        Item::Array { w, items } => {
            if w.is_none() && under_definite {
                return true;
            }
            let ud = under_definite || w.is_some();
            items.iter().any(|x| refusal_allowed(x, ud))
        }
        Item::Map { w, items } => {
            if w.is_none() && under_definite {
                return true;
            }
            let ud = under_definite || w.is_some();
            items.iter().any(|(k, v)| refusal_allowed(k, ud) || refusal_allowed(v, ud))
        }
        Item::Tag { inner, .. } => refusal_allowed(inner, under_definite),
        _ => false,
    }
}

fn fail(rep: &mut Report, sig: &str, what: String, input: &[u8]) {
    let h = if input.len() <= 400 { hex(input) } else { format!("{}…({} bytes)", hex(&input[..200]), input.len()) };
    let replay = if input.len() <= 4000 { vec!["c06".into(), "--replay".into(), hex(input)] } else { vec![] };
    rep.violation(&format!("{}|{}", ID, sig), J::obj().with("what", J::s(what)).with("input", J::s(h)), replay);
}

pub struct Opts {
    pub has_alloc: bool,
    /// Whether refusal is acceptable for this item (no-alloc builds only).
    pub may_refuse: bool,
    pub all_prefixes: bool,
}

/// Monitor `skip()` on one encoding of exactly one item.
pub fn check_encoding(rep: &mut Report, enc: &[u8], o: &Opts, rng: &mut Rng) {
    let len = enc.len();
    let mut refused = false;
    for suf in SUFFIXES {
        let mut input = Vec::with_capacity(len + suf.len());
        input.extend_from_slice(enc);
        input.extend_from_slice(suf);
        let input: Box<[u8]> = input.into_boxed_slice();
        rep.eval();
        mon::steps_reset((64 * input.len() as u64) + 4096);
        let sc = mon::AllocScope::begin();
        let st = mon::StackScope::begin(crate::c02::STACK_BUDGET);
        let r = mon::guarded(|| {
            let mut d = Decoder::new(&input);
            let r = d.skip();
            (r.map_err(|e| (e.is_message(), e.to_string())), d.position())
        });
        rep.max("skip/max stack depth below the call (bytes)", st.end() as f64);
        let al = sc.end();
        let steps = mon::steps_read();
        mon::steps_reset(0);
        match r {
            Err(p) => {
                let sig = if p.is_step_limit() { "skip|step-limit" } else if p.is_stack_limit() { "skip|stack-depth" } else { "skip|panic" };
                fail(rep, sig, format!("skip panicked: {} at {}", p.message, p.location), &input);
            }
            Ok((Ok(()), pos)) => {
                if pos != len {
                    fail(rep, "skip|wrong-position", format!("skip stopped at {} but the item ends at {} (suffix {})", pos, len, hex(suf)), &input);
                }
            }
            Ok((Err((is_msg, msg)), pos)) => {
                if !o.has_alloc && is_msg && msg.contains(NOALLOC_MSG) {
                    if o.may_refuse {
                        refused = true;
                    } else {
                        fail(rep, "skip|undocumented-refusal", format!("no-alloc skip refused an item without an indefinite container inside a definite one (position {})", pos), &input);
                    }
                } else {
                    fail(rep, "skip|error-on-well-formed", format!("skip failed on a well-formed item: {} (position {}, suffix {})", msg, pos, hex(suf)), &input);
                }
            }
        }
        if mon::steps_available() {
            rep.max("skip/steps per input byte", steps as f64 / input.len().max(1) as f64);
            if steps > 4 * input.len() as u64 + 64 {
                fail(rep, "skip|superlinear-work", format!("{} decoder steps for {} input bytes", steps, input.len()), &input);
            }
        }
        if mon::alloc_active() {
            rep.max("skip/peak heap bytes per input byte", al.peak as f64 / input.len().max(1) as f64);
            if al.peak > 64 * input.len() + 1024 {
                fail(rep, "skip|memory", format!("peak allocation {} bytes for {} input bytes", al.peak, input.len()), &input);
            }
        }
    }
    if refused {
        rep.count("no-alloc documented refusals");
    } else {
        rep.count("skipped exactly");
    }
    // a decoder that has just failed a skip (in the middle of nested containers, through a probe or
    // directly) is repositioned to the item: skipping must behave exactly as on a fresh decoder
    if o.has_alloc && len <= 512 {
        const BROKEN: [&[u8]; 4] = [&[0x82, 0x9f, 0x01, 0xfc], &[0x83, 0xbf, 0x00, 0x9f, 0xfd], &[0xa2, 0x00, 0x9f, 0x01, 0x9f, 0xfe], &[0x9f, 0x82, 0x9f, 0xff]];
        let pre = BROKEN[rng.usize_below(BROKEN.len())];
        let cut_short = pre[pre.len() - 1] == 0xff; // the last one fails by running out of input: only usable alone
        let mut input = pre.to_vec();
        if !cut_short {
            input.extend_from_slice(enc);
            input.push(0x00);
        }
        let input: Box<[u8]> = input.into_boxed_slice();
        rep.eval();
        let r = mon::guarded(|| {
            let mut d = Decoder::new(&input);
            let via_probe = pre.len() % 2 == 0;
            let first = if via_probe { d.probe().skip() } else { d.skip() };
            if first.is_ok() {
                return Err("the ill-formed prelude was skipped successfully".to_string());
            }
            if cut_short {
                // retry on the same decoder from the start: same failure, no panic
                d.set_position(0);
                return if d.skip().is_err() { Ok(()) } else { Err("a truncated item was skipped on the second attempt".to_string()) };
            }
            d.set_position(pre.len());
            d.skip().map_err(|e| format!("after a failed skip, skipping a well-formed item on the same decoder fails: {}", e))?;
            if d.position() != pre.len() + len {
                return Err(format!("after a failed skip, skip on the same decoder stopped at {} but the item ends at {}", d.position(), pre.len() + len));
            }
            let mut c = d.clone();
            c.set_position(pre.len());
            c.skip().map_err(|e| format!("a clone of a decoder that failed a skip cannot skip a well-formed item: {}", e))?;
            if c.position() != pre.len() + len {
                return Err(format!("clone of a decoder that failed a skip stopped at {} instead of {}", c.position(), pre.len() + len));
            }
            Ok(())
        });
        match r {
            Err(p) => fail(rep, "skip|reused-decoder-panic", p.message, &input),
            Ok(Err(e)) => fail(rep, "skip|reused-decoder", e, &input),
            Ok(Ok(())) => rep.count("skip on a decoder that failed a skip before"),
        }
    }
    // agreement with full decoding: the tokenizer consumes the same bytes
    #[cfg(feature = "half")]
    {
        let r = mon::guarded(|| {
            let mut d = Decoder::new(enc);
            let mut n = 0usize;
            for t in d.tokens() {
                if t.is_err() {
                    return Err(n);
                }
                n += 1;
            }
            Ok((n, d.position()))
        });
        match r {
            Ok(Ok((_, pos))) if pos == len => {}
            Ok(other) => fail(rep, "tokens-disagree", format!("tokenising the same item gives {:?}, item length {}", other, len), enc),
            Err(p) => fail(rep, "tokens|panic", p.message, enc),
        }
    }
    // strict prefixes must fail
    let offsets: Vec<usize> = if o.all_prefixes || len <= 96 {
        (0..len).collect()
    } else {
        let mut v: Vec<usize> = (0..24).map(|_| rng.usize_below(len)).collect();
        v.extend(len.saturating_sub(6)..len);
        v.extend(0..4);
        v
    };
    for cut in offsets {
        rep.eval();
        let input: Box<[u8]> = enc[..cut].to_vec().into_boxed_slice();
        let r = mon::guarded(|| {
            let mut d = Decoder::new(&input);
            let r = d.skip();
            (r.is_ok(), d.position())
        });
        match r {
            Err(p) => fail(rep, "skip|panic", format!("skip on a strict prefix panicked: {}", p.message), &input),
            Ok((true, pos)) => fail(rep, "skip|prefix-accepted", format!("skip returned Ok at position {} on a strict prefix ({} of {} bytes)", pos, cut, len), &input),
            Ok((false, pos)) => {
                if pos > cut {
                    fail(rep, "skip|position-beyond-input", format!("position {} > input length {}", pos, cut), &input)
                }
            }
        }
    }
}

pub fn check_item(rep: &mut Report, it: &Item, has_alloc: bool, rng: &mut Rng) {
    let enc = it.encode();
    let o = Opts { has_alloc, may_refuse: refusal_allowed(it, false), all_prefixes: false };
    check_encoding(rep, &enc, &o, rng);
    rep.count(&format!("top-level/{}", it.class()));
}

pub fn run(a: &Args, rep: &mut Report, has_alloc: bool) {
    let mut rng = Rng::derive("c06", a.seed, a.shard, 0);
    // 1. exhaustive small trees
    let max_nodes = if a.thorough() { 5 } else { 4 };
    let mut r2 = rng.clone();
    let n = corpus::small_trees(a, max_nodes, 3, &mut |it| check_item(rep, it, has_alloc, &mut r2));
    rep.enumerated(n);
    rep.count_n("exhaustive/small trees", n);
    rep.exhaustive.push(format!("all item trees with <= {} nodes ({{definite,indefinite}} x {{array,map,string,bytes,tag,scalar}}; rich head-width alphabet up to 3 nodes), 4 suffixes, every strict prefix", max_nodes));
    mon::tick();
    // 2. random trees
    let nrand: u64 = if a.thorough() { 12_000_000 } else { 400_000 };
    for i in 0..nrand {
        if !a.mine(i) {
            continue;
        }
        let (it, mut r) = corpus::random_tree("c06/tree", a.seed, i, true);
        let enc = it.encode();
        rep.seen(fnv64(&enc));
        let o = Opts { has_alloc, may_refuse: refusal_allowed(&it, false), all_prefixes: false };
        check_encoding(rep, &enc, &o, &mut r);
        rep.max("random/max depth", it.depth() as f64);
        rep.max("random/max encoded length", enc.len() as f64);
        if rep.want_sample() && enc.len() > 8 && enc.len() < 40 && it.depth() > 2 {
            rep.sample(J::obj().with("item", J::s(hex(&enc))).with("diag", J::s(refcbor::diag(&it))));
        }
        if i & 0x3ff == 0 {
            mon::tick()
        }
    }
    // 3. adversarial nesting families
    let deep = if a.thorough() { 10_000 } else { 3_000 };
    let fams = corpus::nesting_families(&mut rng, deep);
    for (k, (name, enc)) in fams.iter().enumerate() {
        if !a.mine(k as u64) {
            continue;
        }
        mon::set_case(name.as_bytes());
        match refcbor::parse(enc) {
            Ok((it, n)) if n == enc.len() => {
                let o = Opts { has_alloc, may_refuse: refusal_allowed(&it, false), all_prefixes: enc.len() <= 3000 };
                check_encoding(rep, enc, &o, &mut rng);
                rep.seen(fnv64(enc));
                rep.count("adversarial families");
            }
            other => rep.inconclusive.push(format!("harness: family {} is not a single well-formed item: {:?}", name, other.map(|x| x.1))),
        }
    }
    // 3b. strict prefixes of items too large to exist: a definite array / map head declaring
    // 2^32 .. 2^64-1 elements, below 0..3 open containers (definite and indefinite, arrays, maps,
    // tags), followed by 0..6 one-byte items.  Every such input is a strict prefix of a
    // well-formed item, so skip must return an error: no success, no panic (counter arithmetic)
    {
        let counts: [u64; 9] = [1 << 32, (1 << 62) + 1, (1 << 63) - 1, 1 << 63, (1 << 63) + 1, u64::MAX - 3, u64::MAX - 2, u64::MAX - 1, u64::MAX];
        let opens: [&[u8]; 7] = [&[0x9f], &[0xbf, 0x00], &[0x82], &[0x83, 0x00], &[0xa1, 0x00], &[0xc1], &[0x9f, 0x00]];
        let mut k = 0u64;
        let mut n = 0u64;
        for depth in 0..=3usize {
            let combos = opens.len().pow(depth as u32);
            for combo in 0..combos {
                for major in [0x9bu8, 0xbb] {
                    for &c in &counts {
                        for fill in [0usize, 1, 2, 6] {
                            k += 1;
                            if !a.mine(k) {
                                continue;
                            }
                            let mut input = Vec::new();
                            let mut x = combo;
                            for _ in 0..depth {
                                input.extend_from_slice(opens[x % opens.len()]);
                                x /= opens.len();
                            }
                            input.push(major);
                            input.extend_from_slice(&c.to_be_bytes());
                            input.extend(std::iter::repeat(0u8).take(fill));
                            let input: Box<[u8]> = input.into_boxed_slice();
                            rep.eval();
                            n += 1;
                            let r = mon::guarded(|| {
                                let mut d = Decoder::new(&input);
                                let r = d.skip();
                                (r.is_ok(), d.position())
                            });
                            match r {
                                Err(p) => fail(rep, "skip|panic", format!("skip on a strict prefix of a huge item panicked: {}", p.message), &input),
                                Ok((true, pos)) => fail(rep, "skip|prefix-accepted", format!("skip returned Ok at position {} on a strict prefix of an item declaring {} elements", pos, c), &input),
                                Ok((false, pos)) if pos > input.len() => fail(rep, "skip|position-beyond-input", format!("position {} > input length {}", pos, input.len()), &input),
                                Ok((false, _)) => {}
                            }
                        }
                    }
                }
            }
        }
        rep.enumerated(n);
        rep.count_n("prefixes of items declaring 2^32 .. 2^64-1 elements below 0..3 open containers: error", n);
    }
    // 4. containers with more than 2^32 items (thorough tier, one shard): the input is an anonymous
    // mapping of zero bytes behind a small header, every item is the one-byte unsigned integer 0;
    // the counters / stack entries of skip must not be narrower than the declared counts
    if a.thorough() && has_alloc && a.shard == 5 % a.nshards {
        huge_counts(rep);
    }
    rep.note("text strings in generated items are valid UTF-8 (skip validates text; 'well-formed item' is read as well-formed and valid)");
}

fn huge_counts(rep: &mut Report) {
    // (name, header, number of one-byte items that follow the header)
    let n: u64 = (1 << 32) + 2;
    let mut cases: Vec<(&str, Vec<u8>, u64)> = Vec::new();
    let mut h = vec![0x9b];
    h.extend_from_slice(&n.to_be_bytes());
    cases.push(("array of 2^32+2 items, counting mode", h.clone(), n));
    // an indefinite array first, so that skip is on its explicit stack when it meets the big one
    let mut h2 = vec![0x82, 0x9f, 0xff, 0x9b];
    h2.extend_from_slice(&n.to_be_bytes());
    cases.push(("[[_ ], array of 2^32+2 items], stack mode", h2, n));
    let pairs: u64 = (1 << 31) + 1;
    let mut h3 = vec![0x82, 0x9f, 0xff, 0xbb];
    h3.extend_from_slice(&pairs.to_be_bytes());
    cases.push(("[[_ ], map of 2^31+1 pairs], stack mode", h3, 2 * pairs));
    for (name, header, items) in cases {
        let total = header.len() as u64 + items;
        let region = match mon::ZeroRegion::with_prefix(total as usize + 3, &header) {
            Some(r) => r,
            None => {
                rep.note("huge-count skip not exercised: cannot map the region");
                return;
            }
        };
        mon::set_case(name.as_bytes());
        rep.eval();
        let r = mon::guarded(|| {
            let mut d = Decoder::new(region.as_slice());
            let r = d.skip();
            (r.map_err(|e| e.to_string()), d.position() as u64)
        });
        mon::tick();
        match r {
            Err(p) => fail(rep, "skip|huge-count-panic", format!("{}: {}", name, p.message), &header),
            Ok((Ok(()), pos)) if pos == total => rep.count("containers with more than 2^32 items skipped exactly"),
            Ok((res, pos)) => fail(rep, "skip|huge-count", format!("{}: skip returned {:?} at position {}, the item ends at {}", name, res, pos, total), &header),
        }
        rep.enumerated(1);
    }
}

pub fn replay(a: &Args, rep: &mut Report, has_alloc: bool) {
    let enc = vcore::json::unhex(&a.replay[0]).expect("hex");
    let mut rng = Rng::new(1);
    match refcbor::parse(&enc) {
        Ok((it, n)) => {
            println!("replaying skip on {} (item length {})", refcbor::diag(&it), n);
            let o = Opts { has_alloc, may_refuse: refusal_allowed(&it, false), all_prefixes: true };
            check_encoding(rep, &enc[..n], &o, &mut rng);
        }
        Err(e) => {
            // a recorded prefix / suffixed input: run skip and show what happens
            let mut d = Decoder::new(&enc);
            let r = d.skip();
            println!("input is not one well-formed item ({:?}); skip -> {:?} at {}", e, r.map_err(|e| e.to_string()), d.position());
            // re-derive the violation if this is a strict prefix that was accepted
            rep.eval();
            if let Err(refcbor::PErr::Truncated) = refcbor::parse(&enc) {
                let mut d = Decoder::new(&enc);
                if d.skip().is_ok() {
                    fail(rep, "skip|prefix-accepted", "skip returned Ok on a truncated item".into(), &enc);
                }
            }
        }
    }
}
