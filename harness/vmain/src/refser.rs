//! `RefSerializer`: an independent `serde::Serializer` that builds the
//! reference `Item` the minicbor-serde documentation prescribes for a value:
//! structs are maps keyed by field name, unit variants the variant name as
//! text, other variants a one-entry map from the name to the content, `None`
//! is null, unit is the empty array, sequences/maps are definite when serde
//! announces the length and indefinite otherwise.
//!
//! Struct maps are wrapped in a private marker tag so that the harness can
//! find them (to insert unknown fields); `strip` removes the markers.

use serde::ser::{self, Serialize};
use std::fmt;
use vcore::refcbor::Item;

pub const STRUCT_MARK: u64 = 0xfeed_0000_5757_0001;

#[derive(Debug)]
pub struct RefErr(pub String);
impl fmt::Display for RefErr {
    fn fmt(&self, f: &mut fmt::Formatter) -> fmt::Result {
        write!(f, "{}", self.0)
    }
}
impl std::error::Error for RefErr {}
impl ser::Error for RefErr {
    fn custom<T: fmt::Display>(m: T) -> Self {
        RefErr(m.to_string())
    }
}

pub struct RefSerializer;

pub fn to_item<T: Serialize + ?Sized>(v: &T) -> Result<Item, RefErr> {
    v.serialize(RefSerializer)
}

/// Remove the struct markers.
pub fn strip(i: &Item) -> Item {
    match i {
        Item::Tag { v, inner, .. } if *v == STRUCT_MARK => strip(inner),
        Item::Tag { w, v, inner } => Item::Tag { w: *w, v: *v, inner: Box::new(strip(inner)) },
        Item::Array { w, items } => Item::Array { w: *w, items: items.iter().map(strip).collect() },
        Item::Map { w, items } => Item::Map { w: *w, items: items.iter().map(|(k, v)| (strip(k), strip(v))).collect() },
        x => x.clone(),
    }
}

/// Remove the markers and insert unknown fields (produced by `extra`) into every struct map.
pub fn strip_with_extras(i: &Item, extra: &mut dyn FnMut(usize) -> Vec<(Item, Item)>) -> Item {
    match i {
        Item::Tag { v, inner, .. } if *v == STRUCT_MARK => match &**inner {
            Item::Map { w, items } => {
                let mut out: Vec<(Item, Item)> = items.iter().map(|(k, v)| (strip_with_extras(k, extra), strip_with_extras(v, extra))).collect();
                for (k, v) in extra(out.len()) {
                    let pos = if out.is_empty() { 0 } else { (k.encode().len() * 7 + v.encode().len()) % (out.len() + 1) };
                    out.insert(pos, (k, v));
                }
                Item::Map { w: w.map(|_| vcore::refcbor::min_width(out.len() as u64)), items: out }
            }
            other => strip_with_extras(other, extra),
        },
        Item::Tag { w, v, inner } => Item::Tag { w: *w, v: *v, inner: Box::new(strip_with_extras(inner, extra)) },
        Item::Array { w, items } => Item::Array { w: *w, items: items.iter().map(|x| strip_with_extras(x, extra)).collect() },
        Item::Map { w, items } => Item::Map { w: *w, items: items.iter().map(|(k, v)| (strip_with_extras(k, extra), strip_with_extras(v, extra))).collect() },
        x => x.clone(),
    }
}

fn variant_map(name: &'static str, content: Item) -> Item {
    Item::map(vec![(Item::text(name), content)])
}

pub struct SeqS {
    items: Vec<Item>,
    definite: bool,
    variant: Option<&'static str>,
}

pub struct MapS {
    items: Vec<(Item, Item)>,
    key: Option<Item>,
    definite: bool,
    is_struct: bool,
    variant: Option<&'static str>,
}

impl ser::Serializer for RefSerializer {
    type Ok = Item;
    type Error = RefErr;
    type SerializeSeq = SeqS;
    type SerializeTuple = SeqS;
    type SerializeTupleStruct = SeqS;
    type SerializeTupleVariant = SeqS;
    type SerializeMap = MapS;
    type SerializeStruct = MapS;
    type SerializeStructVariant = MapS;

    fn serialize_bool(self, v: bool) -> Result<Item, RefErr> {
        Ok(Item::bool(v))
    }
    fn serialize_i8(self, v: i8) -> Result<Item, RefErr> {
        Ok(Item::int(v as i128))
    }
    fn serialize_i16(self, v: i16) -> Result<Item, RefErr> {
        Ok(Item::int(v as i128))
    }
    fn serialize_i32(self, v: i32) -> Result<Item, RefErr> {
        Ok(Item::int(v as i128))
    }
    fn serialize_i64(self, v: i64) -> Result<Item, RefErr> {
        Ok(Item::int(v as i128))
    }
    fn serialize_u8(self, v: u8) -> Result<Item, RefErr> {
        Ok(Item::uint(v as u64))
    }
    fn serialize_u16(self, v: u16) -> Result<Item, RefErr> {
        Ok(Item::uint(v as u64))
    }
    fn serialize_u32(self, v: u32) -> Result<Item, RefErr> {
        Ok(Item::uint(v as u64))
    }
    fn serialize_u64(self, v: u64) -> Result<Item, RefErr> {
        Ok(Item::uint(v))
    }
    fn serialize_f32(self, v: f32) -> Result<Item, RefErr> {
        Ok(Item::F32(v.to_bits()))
    }
    fn serialize_f64(self, v: f64) -> Result<Item, RefErr> {
        Ok(Item::F64(v.to_bits()))
    }
    fn serialize_char(self, v: char) -> Result<Item, RefErr> {
        Ok(Item::uint(v as u64))
    }
    fn serialize_str(self, v: &str) -> Result<Item, RefErr> {
        Ok(Item::text(v))
    }
    fn serialize_bytes(self, v: &[u8]) -> Result<Item, RefErr> {
        Ok(Item::bytes(v))
    }
    fn serialize_none(self) -> Result<Item, RefErr> {
        Ok(Item::null())
    }
    fn serialize_some<T: Serialize + ?Sized>(self, v: &T) -> Result<Item, RefErr> {
        v.serialize(RefSerializer)
    }
    fn serialize_unit(self) -> Result<Item, RefErr> {
        Ok(Item::array(vec![]))
    }
    fn serialize_unit_struct(self, _: &'static str) -> Result<Item, RefErr> {
        Ok(Item::array(vec![]))
    }
    fn serialize_unit_variant(self, _: &'static str, _: u32, variant: &'static str) -> Result<Item, RefErr> {
        Ok(Item::text(variant))
    }
    fn serialize_newtype_struct<T: Serialize + ?Sized>(self, _: &'static str, v: &T) -> Result<Item, RefErr> {
        v.serialize(RefSerializer)
    }
    fn serialize_newtype_variant<T: Serialize + ?Sized>(self, _: &'static str, _: u32, variant: &'static str, v: &T) -> Result<Item, RefErr> {
        Ok(variant_map(variant, v.serialize(RefSerializer)?))
    }
    fn serialize_seq(self, len: Option<usize>) -> Result<SeqS, RefErr> {
        Ok(SeqS { items: Vec::new(), definite: len.is_some(), variant: None })
    }
    fn serialize_tuple(self, _: usize) -> Result<SeqS, RefErr> {
        Ok(SeqS { items: Vec::new(), definite: true, variant: None })
    }
    fn serialize_tuple_struct(self, _: &'static str, _: usize) -> Result<SeqS, RefErr> {
        Ok(SeqS { items: Vec::new(), definite: true, variant: None })
    }
    fn serialize_tuple_variant(self, _: &'static str, _: u32, variant: &'static str, _: usize) -> Result<SeqS, RefErr> {
        Ok(SeqS { items: Vec::new(), definite: true, variant: Some(variant) })
    }
    fn serialize_map(self, len: Option<usize>) -> Result<MapS, RefErr> {
        Ok(MapS { items: Vec::new(), key: None, definite: len.is_some(), is_struct: false, variant: None })
    }
    fn serialize_struct(self, _: &'static str, _: usize) -> Result<MapS, RefErr> {
        Ok(MapS { items: Vec::new(), key: None, definite: true, is_struct: true, variant: None })
    }
    fn serialize_struct_variant(self, _: &'static str, _: u32, variant: &'static str, _: usize) -> Result<MapS, RefErr> {
        Ok(MapS { items: Vec::new(), key: None, definite: true, is_struct: true, variant: Some(variant) })
    }
    fn is_human_readable(&self) -> bool {
        false
    }
}

impl SeqS {
    fn finish(self) -> Item {
        let a = if self.definite { Item::array(self.items) } else { Item::array_indef(self.items) };
        match self.variant {
            Some(v) => variant_map(v, a),
            None => a,
        }
    }
}

impl ser::SerializeSeq for SeqS {
    type Ok = Item;
    type Error = RefErr;
    fn serialize_element<T: Serialize + ?Sized>(&mut self, v: &T) -> Result<(), RefErr> {
        self.items.push(v.serialize(RefSerializer)?);
        Ok(())
    }
    fn end(self) -> Result<Item, RefErr> {
        Ok(self.finish())
    }
}
impl ser::SerializeTuple for SeqS {
    type Ok = Item;
    type Error = RefErr;
    fn serialize_element<T: Serialize + ?Sized>(&mut self, v: &T) -> Result<(), RefErr> {
        self.items.push(v.serialize(RefSerializer)?);
        Ok(())
    }
    fn end(self) -> Result<Item, RefErr> {
        Ok(self.finish())
    }
}
impl ser::SerializeTupleStruct for SeqS {
    type Ok = Item;
    type Error = RefErr;
    fn serialize_field<T: Serialize + ?Sized>(&mut self, v: &T) -> Result<(), RefErr> {
        self.items.push(v.serialize(RefSerializer)?);
        Ok(())
    }
    fn end(self) -> Result<Item, RefErr> {
        Ok(self.finish())
    }
}
impl ser::SerializeTupleVariant for SeqS {
    type Ok = Item;
    type Error = RefErr;
    fn serialize_field<T: Serialize + ?Sized>(&mut self, v: &T) -> Result<(), RefErr> {
        self.items.push(v.serialize(RefSerializer)?);
        Ok(())
    }
    fn end(self) -> Result<Item, RefErr> {
        Ok(self.finish())
    }
}

impl MapS {
    fn finish(self) -> Item {
        let m = if self.definite { Item::map(self.items) } else { Item::map_indef(self.items) };
        let m = if self.is_struct { Item::Tag { w: 8, v: STRUCT_MARK, inner: Box::new(m) } } else { m };
        match self.variant {
            Some(v) => variant_map(v, m),
            None => m,
        }
    }
}

impl ser::SerializeMap for MapS {
    type Ok = Item;
    type Error = RefErr;
    fn serialize_key<T: Serialize + ?Sized>(&mut self, k: &T) -> Result<(), RefErr> {
        self.key = Some(k.serialize(RefSerializer)?);
        Ok(())
    }
    fn serialize_value<T: Serialize + ?Sized>(&mut self, v: &T) -> Result<(), RefErr> {
        let k = self.key.take().ok_or_else(|| RefErr("value without key".into()))?;
        self.items.push((k, v.serialize(RefSerializer)?));
        Ok(())
    }
    fn end(self) -> Result<Item, RefErr> {
        Ok(self.finish())
    }
}
impl ser::SerializeStruct for MapS {
    type Ok = Item;
    type Error = RefErr;
    fn serialize_field<T: Serialize + ?Sized>(&mut self, k: &'static str, v: &T) -> Result<(), RefErr> {
        self.items.push((Item::text(k), v.serialize(RefSerializer)?));
        Ok(())
    }
    fn end(self) -> Result<Item, RefErr> {
        Ok(self.finish())
    }
}
impl ser::SerializeStructVariant for MapS {
    type Ok = Item;
    type Error = RefErr;
    fn serialize_field<T: Serialize + ?Sized>(&mut self, k: &'static str, v: &T) -> Result<(), RefErr> {
        self.items.push((Item::text(k), v.serialize(RefSerializer)?));
        Ok(())
    }
    fn end(self) -> Result<Item, RefErr> {
        Ok(self.finish())
    }
}
