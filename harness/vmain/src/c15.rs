//! C15 — `AsyncReader` is cancellation-safe: no frame lost, duplicated or torn.
//!
//! An explorer enumerates, by re-execution, every schedule of source outcomes
//! {deliver 1 / 2 / all requested, Pending, transient error, end of stream}
//! interleaved with caller decisions {keep polling, drop the future and call
//! `read` again} up to the bounds; an online monitor compares the values
//! returned so far with the framing model (`c14::refframe`) and, at every
//! cancellation and completion point, checks the reader's internal state
//! (via the hook) against the bytes consumed from the source.

use crate::aio::{poll_once, Bounds, Choices, Chooser, Src};
use crate::c14::{frame, refframe, Expect};
use minicbor_io::{AsyncReader, Error};
use std::cell::RefCell;
use std::collections::HashSet;
use std::io;
use std::rc::Rc;
use std::task::Poll;
use vcore::json::{hex, J};
use vcore::mon;
use vcore::report::{Args, Report};
use vcore::rng::Rng;

const ID: &str = "C15";

pub struct Stats {
    pub polls: u64,
    pub drops: u64,
    pub errors: u64,
    pub states: Vec<(u8, usize, usize)>,
}

/// Frame boundaries (offsets at which a frame starts) of a stream.
fn boundaries(stream: &[u8]) -> Vec<usize> {
    let mut v = vec![0usize];
    let mut p = 0;
    while stream.len() - p >= 4 {
        let len = u32::from_be_bytes([stream[p], stream[p + 1], stream[p + 2], stream[p + 3]]) as usize;
        if stream.len() - p - 4 < len {
            break;
        }
        p += 4 + len;
        v.push(p);
    }
    v
}

/// Execute one schedule.  Returns statistics or a description of the violation.
pub fn run_schedule(stream: &[u8], ch: &Choices, b: Bounds, max_len: usize) -> Result<Stats, String> {
    run_schedule_relimit(stream, ch, b, max_len, None)
}

/// `relimit = Some((q, m2))`: at the q-th quiescent point after a cancellation or a transient error
/// the caller calls `set_max_len(m2)`.  Documented meaning: length prefixes decoded *after* the call
/// are judged against m2; a frame whose prefix was already accepted is delivered unchanged.  Needs the
/// state hook to know whether a frame is in flight.
pub fn run_schedule_relimit(stream: &[u8], ch: &Choices, b: Bounds, max_len: usize, relimit: Option<(u32, usize)>) -> Result<Stats, String> {
    let mut expect = refframe(stream, max_len);
    let mut quiescent = 0u32;
    let bounds = boundaries(stream);
    let src = Src::new(stream.to_vec(), ch.clone(), b);
    // the reader reuses a caller-supplied buffer with stale content (`new` is `with_buffer` of an
    // empty one; the junk length varies with the stream, 0 included)
    let mut reader = AsyncReader::with_buffer(src, crate::c14::junk_buffer(stream.len() + max_len));
    reader.set_max_len(max_len as u32);
    let mut k = 0usize; // index into expect
    let mut drops = 0u8;
    let mut reported_errors = 0u64;
    let mut stats = Stats { polls: 0, drops: 0, errors: 0, states: Vec::new() };
    let poll_budget: u64 = 64 + (stream.len() as u64 + 8) * (b.pendings as u64 + 2) * 4;
    let mut done = false;
    while !done {
        let outcome: Option<Result<Option<Vec<u16>>, Error>> = {
            let mut fut = Box::pin(reader.read::<Vec<u16>>());
            loop {
                stats.polls += 1;
                if stats.polls > poll_budget {
                    return Err(format!("no progress: {} polls for a {} byte stream (values returned so far: {})", stats.polls, stream.len(), k));
                }
                match poll_once(fut.as_mut()) {
                    Poll::Ready(r) => break Some(r),
                    Poll::Pending => {
                        if drops < b.drops && ch.borrow_mut().choose(2) == 1 {
                            drops += 1;
                            stats.drops += 1;
                            break None; // the future is dropped here
                        }
                    }
                }
            }
        };
        // quiescent point: no future alive.  Looking at the source through the accessors (also the
        // mutable one, without touching the source) is not an event of the protocol
        if stats.polls & 1 == 0 {
            let s: &mut Src = reader.reader_mut();
            let _ = s.pos;
        }
        // check the state against the source
        #[cfg(have_io_hook)]
        {
            let (tag, off, buflen, ml) = reader.verif_state();
            stats.states.push((tag, off, buflen));
            let consumed = reader.reader().pos;
            if tag == 0 && off > 4 {
                return Err(format!("state ReadLen offset {} > 4", off));
            }
            if tag == 1 && (off > buflen || (buflen > ml && relimit.is_none())) {
                return Err(format!("state ReadVal offset {} / buffer {} / max_len {}", off, buflen, ml));
            }
            let returned_all = matches!(outcome, Some(Ok(Some(_))) | Some(Err(Error::Decode(_))));
            let kk = if returned_all { k + 1 } else { k };
            if kk < bounds.len() {
                let accounted = bounds[kk] + if tag == 0 { off } else { 4 + off };
                // after the terminal outcome the accounting no longer applies
                let terminal = matches!(outcome, Some(Ok(None)) | Some(Err(Error::InvalidLen))) || matches!(&outcome, Some(Err(Error::Io(e))) if e.kind() == io::ErrorKind::UnexpectedEof && e.to_string() != "transient");
                if !terminal && consumed != accounted {
                    return Err(format!("{} bytes consumed from the source but {} accounted for by {} completed frames + state ({}, {})", consumed, accounted, kk, tag, off));
                }
            }
        }
        #[cfg(have_io_hook)]
        {
            let interrupted = matches!(&outcome, None) || matches!(&outcome, Some(Err(Error::Io(e))) if e.to_string() == "transient");
            if interrupted {
                quiescent += 1;
                if let Some((q, m2)) = relimit {
                    if q == quiescent {
                        let (tag, _, _, _) = reader.verif_state();
                        reader.set_max_len(m2 as u32);
                        // frames already returned and a frame in flight keep their verdict
                        let switch_at = k + if tag == 1 { 1 } else { 0 };
                        expect = crate::c14::refframe2(stream, switch_at, max_len, m2);
                    }
                }
            }
        }
        let _ = (&mut quiescent, &relimit);
        let r = match outcome {
            None => continue,
            Some(r) => r,
        };
        let got = match &r {
            Ok(Some(v)) => Expect::Value(v.clone()),
            Ok(None) => Expect::CleanEnd,
            Err(Error::Decode(_)) => Expect::DecodeErr,
            Err(Error::InvalidLen) => Expect::InvalidLen,
            Err(Error::Io(e)) if e.kind() == io::ErrorKind::UnexpectedEof && e.to_string() != "transient" => Expect::UnexpectedEof,
            Err(Error::Io(e)) if e.to_string() == "transient" => {
                reported_errors += 1;
                stats.errors += 1;
                if reported_errors > reader.reader().errors_injected as u64 {
                    return Err(format!("{} transient errors reported but only {} injected", reported_errors, reader.reader().errors_injected));
                }
                continue;
            }
            Err(e) => return Err(format!("unexpected error {}", e)),
        };
        if k >= expect.len() {
            return Err(format!("result {:?} after the stream was finished", got));
        }
        if got != expect[k] {
            return Err(format!("read #{} returned {:?}, the stream holds {:?} (all expected: {:?})", k, got, expect[k], expect));
        }
        k += 1;
        if matches!(got, Expect::CleanEnd | Expect::UnexpectedEof | Expect::InvalidLen) {
            done = true;
        }
    }
    if k != expect.len() {
        return Err(format!("{} results, expected {}", k, expect.len()));
    }
    if reported_errors != reader.reader().errors_injected as u64 {
        return Err(format!("{} transient errors injected, {} reported", reader.reader().errors_injected, reported_errors));
    }
    Ok(stats)
}

fn fail(rep: &mut Report, kind: &str, what: String, stream: &[u8], trace: &[u8], b: Bounds, max_len: usize) {
    let tr: Vec<String> = trace.iter().map(|c| c.to_string()).collect();
    rep.violation(
        &format!("{}|{}", ID, kind),
        J::obj().with("what", J::s(what)).with("stream", J::s(hex(stream))).with("schedule", J::s(tr.join(""))).with("bounds", J::s(format!("{:?}", b))),
        vec!["c15".into(), "--replay".into(), hex(stream), tr.join(","), format!("{},{},{},{}", b.pendings, b.errors, b.drops, b.base), max_len.to_string()],
    );
}

fn classify(msg: &str) -> &'static str {
    if msg.starts_with("no progress") {
        "no-progress"
    } else if msg.contains("consumed from the source") || msg.starts_with("state ") {
        "state-invariant"
    } else if msg.contains("transient errors") {
        "transient-error-accounting"
    } else {
        "results"
    }
}

/// Explore all schedules of one stream (up to `cap`); returns (#schedules, exhausted).
pub fn explore(rep: &mut Report, stream: &[u8], b: Bounds, max_len: usize, cap: u64, dev: Option<u32>, states: &mut HashSet<(u8, usize, usize)>) -> (u64, bool) {
    let ch: Choices = Rc::new(RefCell::new(match dev { Some(k) => Chooser::bounded(k), None => Chooser::exhaustive() }));
    let mut n = 0u64;
    let mut bad = 0;
    loop {
        ch.borrow_mut().begin_run();
        let r = mon::guarded(|| run_schedule(stream, &ch, b, max_len));
        n += 1;
        match r {
            Err(p) => {
                let t = ch.borrow().trace();
                fail(rep, "panic", format!("{} at {}", p.message, p.location), stream, &t, b, max_len);
                bad += 1;
            }
            Ok(Err(e)) => {
                let t = ch.borrow().trace();
                fail(rep, classify(&e), e, stream, &t, b, max_len);
                bad += 1;
            }
            Ok(Ok(st)) => {
                rep.max("max polls in one schedule", st.polls as f64);
                for s in st.states {
                    states.insert(s);
                }
                rep.count_n("cancellations exercised", st.drops);
                rep.count_n("transient errors exercised", st.errors);
            }
        }
        if bad > 20 {
            return (n, false);
        }
        if n & 0x3fff == 0 {
            mon::tick()
        }
        if !ch.borrow_mut().advance() {
            return (n, true);
        }
        if n >= cap {
            return (n, false);
        }
    }
}

pub fn streams(three: bool) -> Vec<Vec<u8>> {
    let payloads: Vec<Vec<u8>> = vec![vec![0x80], vec![0x81, 0x05], vec![0x61, 0x61], vec![]];
    let mut out = Vec::new();
    for a in &payloads {
        for b in &payloads {
            let mut s = Vec::new();
            frame(a, &mut s);
            frame(b, &mut s);
            out.push(s.clone());
            if three {
                let mut t = s.clone();
                frame(&[0x80], &mut t);
                out.push(t);
            }
        }
    }
    out
}

fn walk(rep: &mut Report, seed: u64, i: u64, rb: Bounds, states: &mut HashSet<(u8, usize, usize)>) {
    let mut rng = Rng::derive("c15/walk", seed, 0, i);
    let frames = 1 + rng.below(if i % 50 == 0 { 64 } else { 8 });
    let mut stream = Vec::new();
    for _ in 0..frames {
        let payload: Vec<u8> = match rng.below(8) {
            0 => vec![0x61, 0x62],
            1 => vec![],
            _ => {
                // now and then a frame far above any plausible internal chunk size (up to ~40 KiB)
                let k = if i % 40 == 7 && rng.chance(1, 3) { 2800 + rng.below(11_000) } else if rng.chance(1, 30) { rng.below(2040) } else { rng.below(12) };
                let v: Vec<u16> = (0..k).map(|_| rng.next_u32() as u16).collect();
                minicbor::to_vec(&v).unwrap()
            }
        };
        frame(&payload, &mut stream);
    }
    if rng.chance(1, 3) {
        let c = rng.usize_below(stream.len() + 1);
        stream.truncate(c);
    }
    let trickle = i % 5 == 2;
    let rb = if trickle { Bounds { base: 1, ..rb } } else { rb };
    let rng2 = Rng::derive("c15/choices", seed, 1, i);
    let ch: Choices = Rc::new(RefCell::new(if trickle { Chooser::random_biased(rng2, 97) } else { Chooser::random(rng2) }));
    ch.borrow_mut().begin_run();
    rep.eval();
    let max_len = if i % 40 == 7 { 64 * 1024 } else { 8192 };
    // one walk in three also changes the limit once, at a quiescent point after a cancellation or error
    let relimit = if i % 3 == 1 { Some((1 + rng.below(4) as u32, *rng.pick(&[0usize, 1, 5, 40, 2000, 8192, 64 * 1024]))) } else { None };
    let r = mon::guarded(|| run_schedule_relimit(&stream, &ch, rb, max_len, relimit));
    let rp = vec!["c15".into(), "--seed".into(), seed.to_string(), "--replay".into(), "walk".into(), i.to_string()];
    match r {
        Err(p) => rep.violation(&format!("{}|panic", ID), J::obj().with("what", J::s(p.message)).with("stream_len", J::U(stream.len() as u64)), rp),
        Ok(Err(e)) => rep.violation(&format!("{}|{}", ID, classify(&e)), J::obj().with("what", J::s(e)).with("stream_len", J::U(stream.len() as u64)).with("stream_head", J::s(hex(&stream[..stream.len().min(64)]))), rp),
        Ok(Ok(st)) => {
            rep.seen(ch.borrow().hash());
            for s in st.states {
                if states.len() < 100_000 {
                    states.insert(s);
                }
            }
        }
    }
}

pub fn run(a: &Args, rep: &mut Report) {
    let mut states: HashSet<(u8, usize, usize)> = HashSet::new();
    // 1a. exhaustive exploration of single-frame streams (every truncation point is its own stream)
    let (b, cap) = if a.thorough() { (Bounds { pendings: 2, errors: 1, drops: 3, zeros: 0, base: 0 }, 10_000_000u64) } else { (Bounds { pendings: 1, errors: 1, drops: 2, zeros: 0, base: 0 }, 3_000_000u64) };
    let mut idx = 0u64;
    let mut total = 0u64;
    let mut all_exhausted = true;
    let singles: Vec<Vec<u8>> = [vec![0x80u8], vec![0x81, 0x05], vec![0x61, 0x61], vec![]].iter().map(|p| { let mut s = Vec::new(); frame(p, &mut s); s }).collect();
    for s in &singles {
        for cut in 0..=s.len() {
            idx += 1;
            if !a.mine(idx) {
                continue;
            }
            let t = &s[..cut];
            mon::set_case(hex(t).as_bytes());
            let (n, ex) = explore(rep, t, b, 64, cap, None, &mut states);
            total += n;
            all_exhausted &= ex;
            rep.max("schedules of one stream (exhaustive)", n as f64);
        }
    }
    if all_exhausted {
        rep.exhaustive.push(format!("all schedules (deliver 1/2/all, <= {} consecutive Pending, <= {} transient error, <= {} drop+re-issue) of every prefix of the single-frame streams", b.pendings, b.errors, b.drops));
    } else {
        rep.note(format!("exhaustive schedule tree of some single-frame streams capped at {} schedules", cap));
    }
    // 1b. deviation-bounded exploration of 2- and 3-frame streams: all schedules with at
    //     most K non-default choices, from two base policies (deliver everything / one byte at a time)
    let k = if a.thorough() { 7 } else { 5 };
    let mut all_bounded = true;
    for s in streams(true) {
        for cut in 0..=s.len() {
            idx += 1;
            if !a.mine(idx) {
                continue;
            }
            let t = &s[..cut];
            mon::set_case(hex(t).as_bytes());
            for base in [0u8, 1] {
                let bb = Bounds { base, ..b };
                let (n, ex) = explore(rep, t, bb, 64, cap, Some(k), &mut states);
                total += n;
                all_bounded &= ex;
                rep.max("schedules of one stream (deviation-bounded)", n as f64);
            }
        }
    }
    rep.evals(total);
    rep.enumerated(total);
    rep.count_n("schedules/systematic exploration", total);
    if all_bounded {
        rep.exhaustive.push(format!("all schedules with <= {} deviations from the base policies 'deliver everything' and 'one byte at a time' for every prefix of all {}-frame streams (<= 14 bytes)", k, "2- and 3"));
    }
    // max_len below a frame size: InvalidLen must come out under every schedule
    {
        let mut s = Vec::new();
        frame(&[0x81, 0x05], &mut s);
        frame(&[0x80], &mut s);
        if a.mine(0) {
            let (n, _) = explore(rep, &s, Bounds { pendings: 1, errors: 1, drops: 1, zeros: 0, base: 0 }, 1, 500_000, Some(5), &mut states);
            rep.evals(n);
            rep.enumerated(n);
        }
    }
    // 2. random walks over long streams
    let nrand: u64 = if a.thorough() { 600_000 } else { 30_000 };
    let rb = Bounds { pendings: 3, errors: 2, drops: 8, zeros: 0, base: 0 };
    for i in 0..nrand {
        if !a.mine(i) {
            continue;
        }
        walk(rep, a.seed, i, rb, &mut states);
        if i & 0xff == 0 {
            mon::tick()
        }
    }
    rep.count_n("distinct reader states (state tag, offset, buffer length) observed at quiescent points", states.len() as u64);
    let mut smp: Vec<&(u8, usize, usize)> = states.iter().take(6).collect();
    smp.sort();
    rep.sample(J::obj().with("stream", J::s("0000000180000000028105")).with("schedule", J::s("choice vector, e.g. 3 1 0 1 4 0 … (0=all requested, 1=one byte, 2=two bytes, 3=Pending, 4=transient error; after Pending: 0=poll again, 1=drop and re-issue)")).with("states_seen", J::s(format!("{:?}", smp))));
}

pub fn replay(a: &Args, rep: &mut Report) {
    if a.replay[0] == "walk" {
        let mut states = HashSet::new();
        walk(rep, a.seed, a.replay[1].parse().unwrap(), Bounds { pendings: 3, errors: 2, drops: 8, zeros: 0, base: 0 }, &mut states);
        return;
    }
    let stream = vcore::json::unhex(&a.replay[0]).expect("hex");
    let path: Vec<u8> = a.replay[1].split(',').filter(|s| !s.is_empty()).map(|s| s.parse().unwrap()).collect();
    let bb: Vec<u8> = a.replay[2].split(',').map(|s| s.parse().unwrap()).collect();
    let b = Bounds { pendings: bb[0], errors: bb[1], drops: bb[2], zeros: 0, base: *bb.get(3).unwrap_or(&0) };
    let max_len: usize = a.replay[3].parse().unwrap();
    let ch: Choices = Rc::new(RefCell::new(Chooser::from_path(&path)));
    ch.borrow_mut().begin_run();
    rep.eval();
    match mon::guarded(|| run_schedule(&stream, &ch, b, max_len)) {
        Err(p) => fail(rep, "panic", p.message, &stream, &path, b, max_len),
        Ok(Err(e)) => fail(rep, classify(&e), e, &stream, &path, b, max_len),
        Ok(Ok(st)) => println!("schedule replayed without violation ({} polls)", st.polls),
    }
}
