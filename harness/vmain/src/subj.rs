//! The registry of built-in codec types ("subjects") with boundary-dense
//! value generators and the equality the properties prescribe (floats
//! bitwise, unordered collections as sets/multisets).

use minicbor::bytes::{ByteArray, ByteVec};
use minicbor::data::{Int, Tag, Tagged};
use std::borrow::Cow;
use std::cell::{Cell, RefCell};
use std::collections::{BTreeMap, BTreeSet, BinaryHeap, HashMap, HashSet, LinkedList, VecDeque};
use std::ffi::CString;
use std::marker::PhantomData;
use std::net::{IpAddr, Ipv4Addr, Ipv6Addr, SocketAddr, SocketAddrV4, SocketAddrV6};
use std::num::*;
use std::ops::{Bound, Range, RangeFrom, RangeInclusive, RangeTo, RangeToInclusive};
use std::path::{Path, PathBuf};
use std::sync::atomic::*;
use std::time::{Duration, SystemTime, UNIX_EPOCH};
use vcore::gen;
use vcore::refcbor::Item;
use vcore::rng::Rng;

pub trait Subject: Sized {
    fn gen(rng: &mut Rng) -> Self;
    fn same(&self, other: &Self) -> bool;
    fn show(&self) -> String;
    /// The encoder is documented to refuse this value.
    fn refused(&self) -> bool {
        false
    }
    /// The canonical CBOR item for this value, if the type has a canonical
    /// mapping in the RFC 8949 data model (used by C03); `None` for std types
    /// whose shape is a convention of the crate.
    fn item(&self) -> Option<Item> {
        None
    }
    /// Items of unordered collections are compared as multisets.
    fn unordered() -> bool {
        false
    }
    /// The type encodes only an item head, not a complete item (`Tag`).
    fn head_only(&self) -> Option<Vec<u8>> {
        None
    }
}

pub fn small_len(rng: &mut Rng) -> usize {
    match rng.below(16) {
        0..=2 => 0,
        3..=5 => 1,
        6 => 23,
        7 => 24,
        8 => 25,
        9 if rng.chance(1, 8) => 256,
        _ => rng.below(8) as usize,
    }
}

macro_rules! subj_int {
    ($($t:ty, $bits:expr, $signed:expr);*) => {$(
        impl Subject for $t {
            fn gen(rng: &mut Rng) -> Self { gen::gen_int(rng, $bits, $signed) as $t }
            fn same(&self, o: &Self) -> bool { self == o }
            fn show(&self) -> String { format!("{}", self) }
            fn item(&self) -> Option<Item> { Some(Item::int(*self as i128)) }
        }
    )*}
}
subj_int!(u8,8,false; u16,16,false; u32,32,false; u64,64,false; usize,64,false; i8,8,true; i16,16,true; i32,32,true; i64,64,true; isize,64,true);

macro_rules! subj_nonzero {
    ($($t:ty, $p:ty);*) => {$(
        impl Subject for $t {
            fn gen(rng: &mut Rng) -> Self { loop { if let Some(x) = <$t>::new(<$p as Subject>::gen(rng)) { break x } } }
            fn same(&self, o: &Self) -> bool { self == o }
            fn show(&self) -> String { format!("{}", self) }
            fn item(&self) -> Option<Item> { Some(Item::int(self.get() as i128)) }
        }
    )*}
}
subj_nonzero!(NonZeroU8,u8; NonZeroU16,u16; NonZeroU32,u32; NonZeroU64,u64; NonZeroUsize,usize; NonZeroI8,i8; NonZeroI16,i16; NonZeroI32,i32; NonZeroI64,i64; NonZeroIsize,isize);

macro_rules! subj_atomic {
    ($($t:ty, $p:ty);*) => {$(
        impl Subject for $t {
            fn gen(rng: &mut Rng) -> Self { <$t>::new(<$p as Subject>::gen(rng)) }
            fn same(&self, o: &Self) -> bool { self.load(Ordering::SeqCst) == o.load(Ordering::SeqCst) }
            fn show(&self) -> String { format!("{:?}", self.load(Ordering::SeqCst)) }
            fn item(&self) -> Option<Item> { self.load(Ordering::SeqCst).item() }
        }
    )*}
}
subj_atomic!(AtomicBool,bool; AtomicU8,u8; AtomicU16,u16; AtomicU32,u32; AtomicU64,u64; AtomicUsize,usize; AtomicI8,i8; AtomicI16,i16; AtomicI32,i32; AtomicI64,i64; AtomicIsize,isize);

impl Subject for bool {
    fn gen(rng: &mut Rng) -> Self {
        rng.bool()
    }
    fn same(&self, o: &Self) -> bool {
        self == o
    }
    fn show(&self) -> String {
        format!("{}", self)
    }
    fn item(&self) -> Option<Item> {
        Some(Item::bool(*self))
    }
}

impl Subject for char {
    fn gen(rng: &mut Rng) -> Self {
        gen::gen_char(rng)
    }
    fn same(&self, o: &Self) -> bool {
        self == o
    }
    fn show(&self) -> String {
        format!("U+{:04X}", *self as u32)
    }
    fn item(&self) -> Option<Item> {
        Some(Item::uint(*self as u64))
    }
}

impl Subject for f32 {
    fn gen(rng: &mut Rng) -> Self {
        f32::from_bits(gen::gen_f32_bits(rng))
    }
    fn same(&self, o: &Self) -> bool {
        self.to_bits() == o.to_bits()
    }
    fn show(&self) -> String {
        format!("f32:{:08x}", self.to_bits())
    }
    fn item(&self) -> Option<Item> {
        Some(Item::F32(self.to_bits()))
    }
}

impl Subject for f64 {
    fn gen(rng: &mut Rng) -> Self {
        f64::from_bits(gen::gen_f64_bits(rng))
    }
    fn same(&self, o: &Self) -> bool {
        self.to_bits() == o.to_bits()
    }
    fn show(&self) -> String {
        format!("f64:{:016x}", self.to_bits())
    }
    fn item(&self) -> Option<Item> {
        Some(Item::F64(self.to_bits()))
    }
}

fn show_str(s: &str) -> String {
    if s.len() > 40 {
        format!("str[{}]:{:?}…", s.len(), s.chars().take(16).collect::<String>())
    } else {
        format!("{:?}", s)
    }
}

impl Subject for String {
    fn gen(rng: &mut Rng) -> Self {
        { let big = rng.chance(1, 64); gen::gen_string(rng, big) }
    }
    fn same(&self, o: &Self) -> bool {
        self == o
    }
    fn show(&self) -> String {
        show_str(self)
    }
    fn item(&self) -> Option<Item> {
        Some(Item::text(self))
    }
}

impl Subject for Box<str> {
    fn gen(rng: &mut Rng) -> Self {
        String::gen(rng).into_boxed_str()
    }
    fn same(&self, o: &Self) -> bool {
        self == o
    }
    fn show(&self) -> String {
        show_str(self)
    }
    fn item(&self) -> Option<Item> {
        Some(Item::text(self))
    }
}

impl Subject for Cow<'static, str> {
    fn gen(rng: &mut Rng) -> Self {
        Cow::Owned(String::gen(rng))
    }
    fn same(&self, o: &Self) -> bool {
        self == o
    }
    fn show(&self) -> String {
        show_str(self)
    }
    fn item(&self) -> Option<Item> {
        Some(Item::text(self))
    }
}

impl Subject for CString {
    fn gen(rng: &mut Rng) -> Self {
        let mut b = gen::gen_bytes(rng, false);
        b.retain(|x| *x != 0);
        CString::new(b).unwrap()
    }
    fn same(&self, o: &Self) -> bool {
        self == o
    }
    fn show(&self) -> String {
        format!("cstr[{}]", self.as_bytes().len())
    }
    fn item(&self) -> Option<Item> {
        Some(Item::bytes(self.as_bytes_with_nul()))
    }
}

impl Subject for ByteVec {
    fn gen(rng: &mut Rng) -> Self {
        { let big = rng.chance(1, 64); gen::gen_bytes(rng, big).into() }
    }
    fn same(&self, o: &Self) -> bool {
        self == o
    }
    fn show(&self) -> String {
        format!("bytes[{}]", self.len())
    }
    fn item(&self) -> Option<Item> {
        Some(Item::bytes(self))
    }
}

impl Subject for Cow<'static, minicbor::bytes::ByteSlice> {
    fn gen(rng: &mut Rng) -> Self {
        Cow::Owned(ByteVec::gen(rng))
    }
    fn same(&self, o: &Self) -> bool {
        self == o
    }
    fn show(&self) -> String {
        format!("bytes[{}]", self.len())
    }
    fn item(&self) -> Option<Item> {
        Some(Item::bytes(self))
    }
}

impl<const N: usize> Subject for ByteArray<N> {
    fn gen(rng: &mut Rng) -> Self {
        let mut a = [0u8; N];
        let b = rng.bytes(N);
        a.copy_from_slice(&b);
        a.into()
    }
    fn same(&self, o: &Self) -> bool {
        self == o
    }
    fn show(&self) -> String {
        format!("bytearray<{}>", N)
    }
    fn item(&self) -> Option<Item> {
        Some(Item::bytes(&self[..]))
    }
}

impl<T: Subject> Subject for Option<T> {
    fn gen(rng: &mut Rng) -> Self {
        if rng.chance(1, 3) {
            None
        } else {
            Some(T::gen(rng))
        }
    }
    fn same(&self, o: &Self) -> bool {
        match (self, o) {
            (None, None) => true,
            (Some(a), Some(b)) => a.same(b),
            _ => false,
        }
    }
    fn show(&self) -> String {
        match self {
            None => "None".into(),
            Some(x) => format!("Some({})", x.show()),
        }
    }
    fn refused(&self) -> bool {
        self.as_ref().map(|x| x.refused()).unwrap_or(false)
    }
    fn item(&self) -> Option<Item> {
        match self {
            None => Some(Item::null()),
            Some(x) => x.item(),
        }
    }
}

impl<T: Subject, E: Subject> Subject for Result<T, E> {
    fn gen(rng: &mut Rng) -> Self {
        if rng.bool() {
            Ok(T::gen(rng))
        } else {
            Err(E::gen(rng))
        }
    }
    fn same(&self, o: &Self) -> bool {
        match (self, o) {
            (Ok(a), Ok(b)) => a.same(b),
            (Err(a), Err(b)) => a.same(b),
            _ => false,
        }
    }
    fn show(&self) -> String {
        match self {
            Ok(x) => format!("Ok({})", x.show()),
            Err(x) => format!("Err({})", x.show()),
        }
    }
    fn refused(&self) -> bool {
        match self {
            Ok(x) => x.refused(),
            Err(x) => x.refused(),
        }
    }
}

impl<T: Subject> Subject for Box<T> {
    fn gen(rng: &mut Rng) -> Self {
        Box::new(T::gen(rng))
    }
    fn same(&self, o: &Self) -> bool {
        (**self).same(&**o)
    }
    fn show(&self) -> String {
        (**self).show()
    }
    fn refused(&self) -> bool {
        (**self).refused()
    }
    fn item(&self) -> Option<Item> {
        (**self).item()
    }
}

impl Subject for () {
    fn gen(_: &mut Rng) -> Self {}
    fn same(&self, _: &Self) -> bool {
        true
    }
    fn show(&self) -> String {
        "()".into()
    }
    fn item(&self) -> Option<Item> {
        Some(Item::array(vec![]))
    }
}

impl<T> Subject for PhantomData<T> {
    fn gen(_: &mut Rng) -> Self {
        PhantomData
    }
    fn same(&self, _: &Self) -> bool {
        true
    }
    fn show(&self) -> String {
        "PhantomData".into()
    }
    fn item(&self) -> Option<Item> {
        Some(Item::array(vec![]))
    }
}

impl<T: Subject> Subject for Wrapping<T> {
    fn gen(rng: &mut Rng) -> Self {
        Wrapping(T::gen(rng))
    }
    fn same(&self, o: &Self) -> bool {
        self.0.same(&o.0)
    }
    fn show(&self) -> String {
        self.0.show()
    }
    fn item(&self) -> Option<Item> {
        self.0.item()
    }
}

impl<T: Subject + Copy> Subject for Cell<T> {
    fn gen(rng: &mut Rng) -> Self {
        Cell::new(T::gen(rng))
    }
    fn same(&self, o: &Self) -> bool {
        self.get().same(&o.get())
    }
    fn show(&self) -> String {
        self.get().show()
    }
    fn item(&self) -> Option<Item> {
        self.get().item()
    }
}

impl<T: Subject> Subject for RefCell<T> {
    fn gen(rng: &mut Rng) -> Self {
        RefCell::new(T::gen(rng))
    }
    fn same(&self, o: &Self) -> bool {
        self.borrow().same(&o.borrow())
    }
    fn show(&self) -> String {
        self.borrow().show()
    }
    fn item(&self) -> Option<Item> {
        self.borrow().item()
    }
}

fn seq_item<'a, T: Subject + 'a>(it: impl Iterator<Item = &'a T>) -> Option<Item> {
    let mut v = Vec::new();
    for x in it {
        v.push(x.item()?)
    }
    Some(Item::array(v))
}

fn show_seq<'a, T: Subject + 'a>(name: &str, n: usize, mut it: impl Iterator<Item = &'a T>) -> String {
    let first: Vec<String> = it.by_ref().take(3).map(|x| x.show()).collect();
    format!("{}[{}]{{{}{}}}", name, n, first.join(","), if n > 3 { ",…" } else { "" })
}

macro_rules! subj_seq {
    ($($t:ident, $push:ident);*) => {$(
        impl<T: Subject> Subject for $t<T> {
            fn gen(rng: &mut Rng) -> Self {
                let n = small_len(rng);
                let mut v = $t::new();
                for _ in 0..n { v.$push(T::gen(rng)) }
                v
            }
            fn same(&self, o: &Self) -> bool { self.len() == o.len() && self.iter().zip(o.iter()).all(|(a, b)| a.same(b)) }
            fn show(&self) -> String { show_seq(stringify!($t), self.len(), self.iter()) }
            fn refused(&self) -> bool { self.iter().any(|x| x.refused()) }
            fn item(&self) -> Option<Item> { seq_item(self.iter()) }
        }
    )*}
}
subj_seq!(Vec, push; LinkedList, push_back);

impl<T: Subject> Subject for VecDeque<T> {
    fn gen(rng: &mut Rng) -> Self {
        // build the ring buffer so that it is often wrapped (two non-empty slices)
        let n = small_len(rng);
        let mut v = VecDeque::with_capacity(n.max(1));
        let front = rng.below(n as u64 + 1) as usize;
        for _ in 0..(n - front) {
            v.push_back(T::gen(rng))
        }
        for _ in 0..front {
            v.push_front(T::gen(rng))
        }
        if n > 0 && rng.chance(1, 4) {
            let x = v.pop_front().unwrap();
            v.push_back(x)
        }
        v
    }
    fn same(&self, o: &Self) -> bool { self.len() == o.len() && self.iter().zip(o.iter()).all(|(a, b)| a.same(b)) }
    fn show(&self) -> String { show_seq("VecDeque", self.len(), self.iter()) }
    fn refused(&self) -> bool { self.iter().any(|x| x.refused()) }
    fn item(&self) -> Option<Item> { seq_item(self.iter()) }
}

impl<T: Subject + Ord + Clone> Subject for BinaryHeap<T> {
    fn gen(rng: &mut Rng) -> Self {
        Vec::<T>::gen(rng).into()
    }
    fn same(&self, o: &Self) -> bool {
        let a = self.clone().into_sorted_vec();
        let b = o.clone().into_sorted_vec();
        a.same(&b)
    }
    fn show(&self) -> String {
        show_seq("BinaryHeap", self.len(), self.iter())
    }
    fn item(&self) -> Option<Item> {
        seq_item(self.iter())
    }
    fn unordered() -> bool {
        true
    }
}

impl<T: Subject + Ord> Subject for BTreeSet<T> {
    fn gen(rng: &mut Rng) -> Self {
        Vec::<T>::gen(rng).into_iter().collect()
    }
    fn same(&self, o: &Self) -> bool {
        self == o
    }
    fn show(&self) -> String {
        show_seq("BTreeSet", self.len(), self.iter())
    }
    fn item(&self) -> Option<Item> {
        seq_item(self.iter())
    }
}

impl<T: Subject + Eq + std::hash::Hash> Subject for HashSet<T> {
    fn gen(rng: &mut Rng) -> Self {
        Vec::<T>::gen(rng).into_iter().collect()
    }
    fn same(&self, o: &Self) -> bool {
        self == o
    }
    fn show(&self) -> String {
        show_seq("HashSet", self.len(), self.iter())
    }
    fn item(&self) -> Option<Item> {
        seq_item(self.iter())
    }
    fn unordered() -> bool {
        true
    }
}

fn map_item<'a, K: Subject + 'a, V: Subject + 'a>(it: impl Iterator<Item = (&'a K, &'a V)>) -> Option<Item> {
    let mut v = Vec::new();
    for (k, x) in it {
        v.push((k.item()?, x.item()?))
    }
    Some(Item::map(v))
}

impl<K: Subject + Ord, V: Subject> Subject for BTreeMap<K, V> {
    fn gen(rng: &mut Rng) -> Self {
        let n = small_len(rng);
        (0..n).map(|_| (K::gen(rng), V::gen(rng))).collect()
    }
    fn same(&self, o: &Self) -> bool {
        self.len() == o.len() && self.iter().zip(o.iter()).all(|((a, b), (c, d))| a.same(c) && b.same(d))
    }
    fn show(&self) -> String {
        format!("BTreeMap[{}]", self.len())
    }
    fn refused(&self) -> bool {
        self.values().any(|x| x.refused())
    }
    fn item(&self) -> Option<Item> {
        map_item(self.iter())
    }
}

impl<K: Subject + Eq + std::hash::Hash, V: Subject> Subject for HashMap<K, V> {
    fn gen(rng: &mut Rng) -> Self {
        let n = small_len(rng);
        (0..n).map(|_| (K::gen(rng), V::gen(rng))).collect()
    }
    fn same(&self, o: &Self) -> bool {
        self.len() == o.len() && self.iter().all(|(k, v)| o.get(k).map(|w| v.same(w)).unwrap_or(false))
    }
    fn show(&self) -> String {
        format!("HashMap[{}]", self.len())
    }
    fn item(&self) -> Option<Item> {
        map_item(self.iter())
    }
    fn unordered() -> bool {
        true
    }
}

impl<T: Subject, const N: usize> Subject for [T; N] {
    fn gen(rng: &mut Rng) -> Self {
        std::array::from_fn(|_| T::gen(rng))
    }
    fn same(&self, o: &Self) -> bool {
        self.iter().zip(o.iter()).all(|(a, b)| a.same(b))
    }
    fn show(&self) -> String {
        show_seq("array", N, self.iter())
    }
    fn item(&self) -> Option<Item> {
        seq_item(self.iter())
    }
}

macro_rules! subj_tuple {
    ($( ($($T:ident $i:tt),+) )+) => {$(
        impl<$($T: Subject),+> Subject for ($($T,)+) {
            fn gen(rng: &mut Rng) -> Self { ($($T::gen(rng),)+) }
            fn same(&self, o: &Self) -> bool { true $(&& self.$i.same(&o.$i))+ }
            fn show(&self) -> String { let v: Vec<String> = vec![$(self.$i.show()),+]; format!("({})", v.join(",")) }
            fn refused(&self) -> bool { false $(|| self.$i.refused())+ }
            fn item(&self) -> Option<Item> { Some(Item::array(vec![$(self.$i.item()?),+])) }
        }
    )+}
}
subj_tuple! {
    (A 0)
    (A 0, B 1)
    (A 0, B 1, C 2)
    (A 0, B 1, C 2, D 3)
    (A 0, B 1, C 2, D 3, E 4)
    (A 0, B 1, C 2, D 3, E 4, F 5)
    (A 0, B 1, C 2, D 3, E 4, F 5, G 6)
    (A 0, B 1, C 2, D 3, E 4, F 5, G 6, H 7)
    (A 0, B 1, C 2, D 3, E 4, F 5, G 6, H 7, I 8)
    (A 0, B 1, C 2, D 3, E 4, F 5, G 6, H 7, I 8, J 9)
    (A 0, B 1, C 2, D 3, E 4, F 5, G 6, H 7, I 8, J 9, K 10)
    (A 0, B 1, C 2, D 3, E 4, F 5, G 6, H 7, I 8, J 9, K 10, L 11)
    (A 0, B 1, C 2, D 3, E 4, F 5, G 6, H 7, I 8, J 9, K 10, L 11, M 12)
    (A 0, B 1, C 2, D 3, E 4, F 5, G 6, H 7, I 8, J 9, K 10, L 11, M 12, N 13)
    (A 0, B 1, C 2, D 3, E 4, F 5, G 6, H 7, I 8, J 9, K 10, L 11, M 12, N 13, O 14)
    (A 0, B 1, C 2, D 3, E 4, F 5, G 6, H 7, I 8, J 9, K 10, L 11, M 12, N 13, O 14, P 15)
}

macro_rules! subj_range1 {
    ($($t:ident, $f:ident);*) => {$(
        impl<T: Subject> Subject for $t<T> {
            fn gen(rng: &mut Rng) -> Self { $t { $f: T::gen(rng) } }
            fn same(&self, o: &Self) -> bool { self.$f.same(&o.$f) }
            fn show(&self) -> String { format!("{}({})", stringify!($t), self.$f.show()) }
        }
    )*}
}
subj_range1!(RangeFrom, start; RangeTo, end; RangeToInclusive, end);

impl<T: Subject> Subject for Range<T> {
    fn gen(rng: &mut Rng) -> Self {
        Range { start: T::gen(rng), end: T::gen(rng) }
    }
    fn same(&self, o: &Self) -> bool {
        self.start.same(&o.start) && self.end.same(&o.end)
    }
    fn show(&self) -> String {
        format!("{}..{}", self.start.show(), self.end.show())
    }
}

impl<T: Subject> Subject for RangeInclusive<T> {
    fn gen(rng: &mut Rng) -> Self {
        RangeInclusive::new(T::gen(rng), T::gen(rng))
    }
    fn same(&self, o: &Self) -> bool {
        self.start().same(o.start()) && self.end().same(o.end())
    }
    fn show(&self) -> String {
        format!("{}..={}", self.start().show(), self.end().show())
    }
}

impl<T: Subject> Subject for Bound<T> {
    fn gen(rng: &mut Rng) -> Self {
        match rng.below(3) {
            0 => Bound::Included(T::gen(rng)),
            1 => Bound::Excluded(T::gen(rng)),
            _ => Bound::Unbounded,
        }
    }
    fn same(&self, o: &Self) -> bool {
        match (self, o) {
            (Bound::Included(a), Bound::Included(b)) => a.same(b),
            (Bound::Excluded(a), Bound::Excluded(b)) => a.same(b),
            (Bound::Unbounded, Bound::Unbounded) => true,
            _ => false,
        }
    }
    fn show(&self) -> String {
        match self {
            Bound::Included(a) => format!("Included({})", a.show()),
            Bound::Excluded(a) => format!("Excluded({})", a.show()),
            Bound::Unbounded => "Unbounded".into(),
        }
    }
}

impl Subject for Duration {
    fn gen(rng: &mut Rng) -> Self {
        let nanos = match rng.below(4) {
            0 => 0,
            1 => 999_999_999,
            _ => rng.below(1_000_000_000) as u32,
        };
        Duration::new(gen::gen_u64(rng), nanos)
    }
    fn same(&self, o: &Self) -> bool {
        self == o
    }
    fn show(&self) -> String {
        format!("{}s+{}ns", self.as_secs(), self.subsec_nanos())
    }
}

impl Subject for SystemTime {
    fn gen(rng: &mut Rng) -> Self {
        // SystemTime on Linux holds an i64 of seconds; stay within it.
        let secs = gen::gen_u64(rng) & 0x3fff_ffff_ffff_ffff;
        let d = Duration::new(secs, rng.below(1_000_000_000) as u32);
        if rng.chance(1, 8) {
            UNIX_EPOCH.checked_sub(Duration::new(secs & 0xffff_ffff, 1)).unwrap_or(UNIX_EPOCH)
        } else {
            UNIX_EPOCH.checked_add(d).unwrap_or(UNIX_EPOCH)
        }
    }
    fn same(&self, o: &Self) -> bool {
        self == o
    }
    fn show(&self) -> String {
        format!("{:?}", self)
    }
    fn refused(&self) -> bool {
        *self < UNIX_EPOCH
    }
}

impl Subject for Ipv4Addr {
    fn gen(rng: &mut Rng) -> Self {
        // the special-purpose blocks std distinguishes, then uniform
        match rng.below(12) {
            0 => Ipv4Addr::new(0, 0, 0, 0),
            1 => Ipv4Addr::new(127, 0, 0, 1),
            2 => Ipv4Addr::new(255, 255, 255, 255),
            3 => Ipv4Addr::new(10, rng.next_u32() as u8, 0, 1),
            4 => Ipv4Addr::new(169, 254, rng.next_u32() as u8, rng.next_u32() as u8),
            5 => Ipv4Addr::new(224, 0, 0, rng.next_u32() as u8),
            6 => Ipv4Addr::new(192, 168, 0, rng.next_u32() as u8),
            _ => Ipv4Addr::from(rng.next_u32()),
        }
    }
    fn same(&self, o: &Self) -> bool {
        self == o
    }
    fn show(&self) -> String {
        format!("{}", self)
    }
    fn item(&self) -> Option<Item> {
        Some(Item::bytes(&self.octets()))
    }
}

impl Subject for Ipv6Addr {
    fn gen(rng: &mut Rng) -> Self {
        let v4 = Ipv4Addr::gen(rng).octets();
        let tail = |pre: [u8; 12]| {
            let mut a = [0u8; 16];
            a[..12].copy_from_slice(&pre);
            a[12..].copy_from_slice(&v4);
            Ipv6Addr::from(a)
        };
        // address classes with their own meaning (unspecified, loopback, IPv4-mapped,
        // IPv4-compatible, NAT64, link-local, multicast, documentation), sparse, uniform
        match rng.below(14) {
            0 => Ipv6Addr::UNSPECIFIED,
            1 => Ipv6Addr::LOCALHOST,
            2 | 3 => tail([0, 0, 0, 0, 0, 0, 0, 0, 0, 0, 0xff, 0xff]),
            4 => tail([0; 12]),
            5 => tail([0, 0x64, 0xff, 0x9b, 0, 0, 0, 0, 0, 0, 0, 0]),
            6 => Ipv6Addr::new(0xfe80, 0, 0, 0, rng.next_u32() as u16, 0, 0, 1),
            7 => Ipv6Addr::new(0xff02, 0, 0, 0, 0, 0, 0, rng.next_u32() as u16),
            8 => Ipv6Addr::new(0x2001, 0xdb8, 0, 0, 0, 0, 0, rng.next_u32() as u16),
            9 => Ipv6Addr::from([0xff; 16]),
            10 => {
                let mut a = [0u8; 16];
                a[rng.usize_below(16)] = rng.next_u32() as u8;
                Ipv6Addr::from(a)
            }
            _ => {
                let b = rng.bytes(16);
                let mut a = [0u8; 16];
                a.copy_from_slice(&b);
                Ipv6Addr::from(a)
            }
        }
    }
    fn same(&self, o: &Self) -> bool {
        self == o
    }
    fn show(&self) -> String {
        format!("{}", self)
    }
    fn item(&self) -> Option<Item> {
        Some(Item::bytes(&self.octets()))
    }
}

impl Subject for IpAddr {
    fn gen(rng: &mut Rng) -> Self {
        if rng.bool() {
            IpAddr::V4(Ipv4Addr::gen(rng))
        } else {
            IpAddr::V6(Ipv6Addr::gen(rng))
        }
    }
    fn same(&self, o: &Self) -> bool {
        self == o
    }
    fn show(&self) -> String {
        format!("{}", self)
    }
}

impl Subject for SocketAddrV4 {
    fn gen(rng: &mut Rng) -> Self {
        SocketAddrV4::new(Ipv4Addr::gen(rng), u16::gen(rng))
    }
    fn same(&self, o: &Self) -> bool {
        self == o
    }
    fn show(&self) -> String {
        format!("{}", self)
    }
}

impl Subject for SocketAddrV6 {
    fn gen(rng: &mut Rng) -> Self {
        // flow-info and scope-id are lossy by construction: generated as 0
        SocketAddrV6::new(Ipv6Addr::gen(rng), u16::gen(rng), 0, 0)
    }
    fn same(&self, o: &Self) -> bool {
        self == o
    }
    fn show(&self) -> String {
        format!("{}", self)
    }
}

impl Subject for SocketAddr {
    fn gen(rng: &mut Rng) -> Self {
        if rng.bool() {
            SocketAddr::V4(SocketAddrV4::gen(rng))
        } else {
            SocketAddr::V6(SocketAddrV6::gen(rng))
        }
    }
    fn same(&self, o: &Self) -> bool {
        self == o
    }
    fn show(&self) -> String {
        format!("{}", self)
    }
}

fn gen_path(rng: &mut Rng) -> PathBuf {
    if rng.chance(1, 10) {
        use std::os::unix::ffi::OsStringExt;
        let mut b = gen::gen_bytes(rng, false);
        b.push(0xff); // certainly not UTF-8
        PathBuf::from(std::ffi::OsString::from_vec(b))
    } else {
        PathBuf::from(String::gen(rng))
    }
}

impl Subject for PathBuf {
    fn gen(rng: &mut Rng) -> Self {
        gen_path(rng)
    }
    fn same(&self, o: &Self) -> bool {
        self == o
    }
    fn show(&self) -> String {
        format!("path[{}]", self.as_os_str().len())
    }
    fn refused(&self) -> bool {
        self.to_str().is_none()
    }
    fn item(&self) -> Option<Item> {
        self.to_str().map(Item::text)
    }
}

impl Subject for Box<Path> {
    fn gen(rng: &mut Rng) -> Self {
        gen_path(rng).into_boxed_path()
    }
    fn same(&self, o: &Self) -> bool {
        self == o
    }
    fn show(&self) -> String {
        format!("path[{}]", self.as_os_str().len())
    }
    fn refused(&self) -> bool {
        self.to_str().is_none()
    }
    fn item(&self) -> Option<Item> {
        self.to_str().map(Item::text)
    }
}

impl Subject for Int {
    fn gen(rng: &mut Rng) -> Self {
        Int::try_from(gen::gen_cbor_int(rng)).unwrap()
    }
    fn same(&self, o: &Self) -> bool {
        self == o
    }
    fn show(&self) -> String {
        format!("{}", self)
    }
    fn item(&self) -> Option<Item> {
        Some(Item::int(i128::from(*self)))
    }
}

impl Subject for Tag {
    fn gen(rng: &mut Rng) -> Self {
        Tag::new(gen::gen_u64(rng))
    }
    fn same(&self, o: &Self) -> bool {
        self == o
    }
    fn show(&self) -> String {
        format!("tag({})", self.as_u64())
    }
    fn head_only(&self) -> Option<Vec<u8>> {
        let mut h = Vec::new();
        vcore::refcbor::head(6, vcore::refcbor::min_width(self.as_u64()), self.as_u64(), &mut h);
        Some(h)
    }
}

impl<const N: u64, T: Subject> Subject for Tagged<N, T> {
    fn gen(rng: &mut Rng) -> Self {
        Tagged::new(T::gen(rng))
    }
    fn same(&self, o: &Self) -> bool {
        self.value().same(o.value())
    }
    fn show(&self) -> String {
        format!("{}({})", N, self.value().show())
    }
    fn refused(&self) -> bool {
        self.value().refused()
    }
    fn item(&self) -> Option<Item> {
        Some(Item::tag(N, self.value().item()?))
    }
}

/// Invoke `$m!(Type)` for every owned built-in subject type.
#[macro_export]
macro_rules! for_each_subject {
    ($m:ident) => {
        $m!(u8); $m!(u16); $m!(u32); $m!(u64); $m!(usize);
        $m!(i8); $m!(i16); $m!(i32); $m!(i64); $m!(isize);
        $m!(bool); $m!(char); $m!(f32); $m!(f64);
        $m!(String); $m!(Box<str>); $m!(std::borrow::Cow<'static, str>); $m!(std::ffi::CString);
        $m!(minicbor::bytes::ByteVec); $m!(std::borrow::Cow<'static, minicbor::bytes::ByteSlice>);
        $m!(minicbor::bytes::ByteArray<0>); $m!(minicbor::bytes::ByteArray<4>); $m!(minicbor::bytes::ByteArray<16>); $m!(minicbor::bytes::ByteArray<33>);
        $m!(Option<u8>); $m!(Option<String>); $m!(Option<Vec<u8>>); $m!(Option<bool>); $m!(Option<f64>); $m!(Option<Vec<Option<u8>>>);
        $m!(Result<u8, String>); $m!(Result<(), i64>); $m!(Result<Vec<u16>, Option<bool>>);
        $m!(Box<u32>); $m!(Box<Vec<i8>>);
        $m!(()); $m!(std::marker::PhantomData<u8>);
        // zero-sized element types inside every collection / wrapper
        $m!(Vec<()>); $m!(std::collections::VecDeque<()>); $m!(std::collections::LinkedList<()>); $m!(std::collections::BinaryHeap<()>);
        $m!(std::collections::BTreeSet<()>); $m!(std::collections::HashSet<()>); $m!(std::collections::HashMap<(), ()>); $m!(std::collections::BTreeMap<u8, ()>);
        $m!(Vec<std::marker::PhantomData<u8>>); $m!([(); 3]); $m!(Option<()>); $m!(Box<()>); $m!(((), u8, ()));
        $m!(std::num::Wrapping<u16>); $m!(std::num::Wrapping<i64>);
        $m!((u8,)); $m!((u8, String)); $m!((i64, bool, f32)); $m!((u8, u8, u8, u8));
        $m!((u8, i8, u16, i16, u32));
        $m!((u8, i8, u16, i16, u32, i32));
        $m!((u8, i8, u16, i16, u32, i32, u64));
        $m!((u8, i8, u16, i16, u32, i32, u64, i64));
        $m!((u8, i8, u16, i16, u32, i32, u64, i64, bool));
        $m!((u8, i8, u16, i16, u32, i32, u64, i64, bool, char));
        $m!((u8, i8, u16, i16, u32, i32, u64, i64, bool, char, f32));
        $m!((u8, i8, u16, i16, u32, i32, u64, i64, bool, char, f32, f64));
        $m!((u8, i8, u16, i16, u32, i32, u64, i64, bool, char, f32, f64, String));
        $m!((u8, i8, u16, i16, u32, i32, u64, i64, bool, char, f32, f64, String, ()));
        $m!((u8, i8, u16, i16, u32, i32, u64, i64, bool, char, f32, f64, String, (), Option<u8>));
        $m!((u8, i8, u16, i16, u32, i32, u64, i64, bool, char, f32, f64, String, (), Option<u8>, Vec<u8>));
        $m!([u8; 0]); $m!([u16; 1]); $m!([i32; 3]); $m!([u8; 32]); $m!([String; 2]); $m!([Option<u8>; 4]);
        $m!(Vec<u8>); $m!(Vec<u64>); $m!(Vec<String>); $m!(Vec<Vec<i16>>); $m!(Vec<f32>); $m!(Vec<bool>);
        $m!(std::collections::VecDeque<i32>); $m!(std::collections::LinkedList<u16>);
        $m!(std::collections::BinaryHeap<u32>); $m!(std::collections::BTreeSet<i64>);
        $m!(std::collections::HashSet<u16>); $m!(std::collections::HashSet<String>);
        $m!(std::collections::BTreeMap<u8, String>); $m!(std::collections::BTreeMap<String, Vec<(u8, Option<i64>)>>);
        $m!(std::collections::HashMap<u64, bool>); $m!(std::collections::HashMap<String, i8>);
        $m!(std::ops::Range<u8>); $m!(std::ops::RangeFrom<i16>); $m!(std::ops::RangeTo<u32>);
        $m!(std::ops::RangeToInclusive<i64>); $m!(std::ops::RangeInclusive<u64>);
        $m!(std::ops::Bound<u16>); $m!(std::ops::Bound<String>);
        // struct-like built-ins whose fields can hold null
        $m!(std::ops::Range<Option<u8>>); $m!(std::ops::RangeInclusive<Option<i16>>); $m!(std::ops::RangeFrom<Option<bool>>); $m!(std::ops::RangeTo<Option<u8>>);
        $m!(std::ops::Bound<Option<u8>>); $m!(Result<Option<u8>, Option<bool>>);
        $m!(std::time::Duration); $m!(std::time::SystemTime); $m!(Option<std::time::Duration>); $m!(Vec<std::time::Duration>);
        $m!(std::net::IpAddr); $m!(std::net::Ipv4Addr); $m!(std::net::Ipv6Addr);
        $m!(std::net::SocketAddr); $m!(std::net::SocketAddrV4); $m!(std::net::SocketAddrV6);
        $m!(std::path::PathBuf); $m!(Box<std::path::Path>);
        $m!(std::num::NonZeroU8); $m!(std::num::NonZeroU16); $m!(std::num::NonZeroU32); $m!(std::num::NonZeroU64); $m!(std::num::NonZeroUsize);
        $m!(std::num::NonZeroI8); $m!(std::num::NonZeroI16); $m!(std::num::NonZeroI32); $m!(std::num::NonZeroI64); $m!(std::num::NonZeroIsize);
        $m!(std::cell::Cell<u32>); $m!(std::cell::RefCell<String>);
        $m!(std::sync::atomic::AtomicBool); $m!(std::sync::atomic::AtomicU8); $m!(std::sync::atomic::AtomicU16); $m!(std::sync::atomic::AtomicU32);
        $m!(std::sync::atomic::AtomicU64); $m!(std::sync::atomic::AtomicUsize); $m!(std::sync::atomic::AtomicI8); $m!(std::sync::atomic::AtomicI16);
        $m!(std::sync::atomic::AtomicI32); $m!(std::sync::atomic::AtomicI64); $m!(std::sync::atomic::AtomicIsize);
        $m!(minicbor::data::Int); $m!(minicbor::data::Tag);
        $m!(minicbor::data::Tagged<7, u8>); $m!(minicbor::data::Tagged<55799, String>); $m!(minicbor::data::Tagged<{ u64::MAX }, Vec<u8>>);
        $m!(minicbor::data::Tagged<24, minicbor::data::Tagged<0, Option<i32>>>);
        // nil-capable values behind wrappers that are not nil themselves, inside an Option
        $m!(Option<minicbor::data::Tagged<7, Option<u8>>>); $m!(minicbor::data::Tagged<3, Option<String>>); $m!(Vec<minicbor::data::Tagged<1, Option<u8>>>);
        $m!(Option<(Option<u8>,)>); $m!(Option<[Option<u8>; 1]>); $m!(Option<Vec<Option<bool>>>);
    };
}
