//! Iterator laws for the library's iterators (`ArrayIter`, `MapIter`, `BytesIter`, `StrIter`,
//! `Tokenizer`): whatever `Iterator` method a caller uses (`nth`, `skip`, `step_by`, `count`,
//! `last`, `fold`, `size_hint` ...) must agree with driving the same iterator through `next()`
//! alone, and must leave the decoder at the same position.  The reference is the library's own
//! `next()` on a fresh decoder (whose values C04 checks against the data model), so this is a
//! differential check between the trait methods and their default meaning.

use minicbor::data::Token;
use minicbor::decode::{self, Decoder, Tokenizer};
use minicbor::Decode;
use vcore::json::{hex, J};
use vcore::mon;
use vcore::refcbor::Item;
use vcore::report::Report;

/// Any data item, decoded by skipping it: the byte span it occupies.
#[derive(Clone, Debug, PartialEq, Eq)]
pub struct Span(pub usize, pub usize);

impl<'b, C> Decode<'b, C> for Span {
    fn decode(d: &mut Decoder<'b>, _: &mut C) -> Result<Self, decode::Error> {
        let s = d.position();
        d.skip()?;
        Ok(Span(s, d.position()))
    }
}

/// One element as observed: value rendering or error class.
type Obs = Result<String, String>;

fn eobs(e: &decode::Error) -> String {
    if e.is_end_of_input() {
        "end_of_input".into()
    } else if e.is_type_mismatch() {
        "type_mismatch".into()
    } else if e.is_message() {
        "message".into()
    } else {
        "other".into()
    }
}

fn tok(t: Result<Token, decode::Error>) -> Obs {
    match t {
        Ok(Token::F16(x)) | Ok(Token::F32(x)) => Ok(format!("f{:08x}", x.to_bits())),
        Ok(Token::F64(x)) => Ok(format!("d{:016x}", x.to_bits())),
        Ok(t) => Ok(format!("{:?}", t)),
        Err(e) => Err(eobs(&e)),
    }
}

/// What a way of driving an iterator produced: the items it handed out and where the decoder stands.
#[derive(Debug, PartialEq)]
struct Run {
    items: Vec<Obs>,
    pos: usize,
}

macro_rules! laws {
    ($rep:expr, $input:expr, $what:expr, |$d:ident| $mk:expr, $conv:expr) => {{
        // $mk: |d: &mut Decoder| -> Result<Iterator, Error>;  $conv: item -> Obs
        let input: &[u8] = $input;
        let cap = 4 * input.len() + 8;
        let baseline = mon::guarded(|| {
            let mut d = Decoder::new(input);
            let made = {
                let $d = &mut d;
                $mk
            };
            let r = match made {
                Err(e) => return (Err(eobs(&e)), 0usize),
                Ok(mut it) => {
                    let mut v: Vec<Obs> = Vec::new();
                    while let Some(x) = it.next() {
                        let o: Obs = $conv(x);
                        let stop = o.is_err();
                        v.push(o);
                        if stop || v.len() > cap {
                            break;
                        }
                    }
                    v
                }
            };
            let p = d.position();
            (Ok(r), p)
        });
        let (base, base_pos) = match baseline {
            Err(p) => {
                fail($rep, $what, "next-panic", p.message, input);
                return;
            }
            Ok((Err(_), _)) => return, // the iterator cannot be created on this item
            Ok((Ok(v), p)) => (v, p),
        };
        let clean = base.iter().all(|o| o.is_ok());
        let n = base.len();
        macro_rules! variant {
            ($name:expr, |$it:ident| $body:expr) => {{
                $rep.eval();
                let r = mon::guarded(|| {
                    let mut d = Decoder::new(input);
                    let made = {
                        let $d = &mut d;
                        $mk
                    };
                    let items: Vec<Obs> = match made {
                        Err(e) => vec![Err(eobs(&e))],
                        Ok(it0) => {
                            // the methods are called on the concrete iterator type, so that the
                            // library's own overrides (if any) are what runs
                            #[allow(unused_mut)]
                            let mut $it = it0;
                            $body
                        }
                    };
                    Run { items, pos: d.position() }
                });
                match r {
                    Err(p) => {
                        fail($rep, $what, concat!($name, "-panic"), format!("{} at {}", p.message, p.location), input);
                        Run { items: vec![Err("panic".into())], pos: usize::MAX }
                    }
                    Ok(run) => run,
                }
            }};
        }
        // size_hint brackets the number of items still to come (only judged on clean iterations)
        {
            $rep.eval();
            let r = mon::guarded(|| {
                let mut d = Decoder::new(input);
                let mut bad: Option<String> = None;
                let made = {
                    let $d = &mut d;
                    $mk
                };
                if let Ok(mut it) = made {
                    let mut taken = 0usize;
                    loop {
                        let (lo, hi) = it.size_hint();
                        let remaining = n - taken.min(n);
                        if clean && (lo > remaining || hi.map(|h| h < remaining).unwrap_or(false)) {
                            bad = Some(format!("after {} items size_hint() = ({}, {:?}) but {} items remain", taken, lo, hi, remaining));
                            break;
                        }
                        match it.next() {
                            Some(x) => {
                                let o: Obs = $conv(x);
                                taken += 1;
                                if o.is_err() || taken > cap {
                                    break;
                                }
                            }
                            None => break,
                        }
                    }
                }
                bad
            });
            match r {
                Err(p) => fail($rep, $what, "size_hint-panic", format!("{} at {}", p.message, p.location), input),
                Ok(Some(b)) => fail($rep, $what, "size_hint", b, input),
                Ok(None) => {}
            }
        }
        if !clean {
            // with an error in the stream only totality is required of the other methods
            let _ = variant!("count", |it| { let _ = it.take(cap).count(); vec![] });
            let _ = variant!("last", |it| { let _ = it.take(cap).last().map($conv); vec![] });
            let _ = variant!("nth", |it| { let _ = it.nth(1).map($conv); vec![] });
            return;
        }
        // nth(k), then the rest through next()
        for k in 0..=(n + 1).min(6) {
            let run = variant!("nth", |it| {
                let mut v: Vec<Obs> = Vec::new();
                if let Some(x) = it.nth(k) {
                    v.push($conv(x));
                    for y in it.take(cap) {
                        v.push($conv(y))
                    }
                }
                v
            });
            let want: Vec<Obs> = base.iter().skip(k).cloned().collect();
            if run.items != want || (k < n && run.pos != base_pos) {
                fail($rep, $what, "nth", format!("nth({}) then next(): {:?} at position {}; through next() alone the items from index {} are {:?} and the decoder ends at {}", k, run.items, run.pos, k, want, base_pos), input);
            }
        }
        for k in [1usize, 2, 3] {
            let run = variant!("skip", |it| it.skip(k).take(cap).map($conv).collect());
            let want: Vec<Obs> = base.iter().skip(k).cloned().collect();
            if run.items != want || (k < n && run.pos != base_pos) {
                fail($rep, $what, "skip", format!("skip({}): {:?} at {}, expected {:?} at {}", k, run.items, run.pos, want, base_pos), input);
            }
            let run = variant!("step_by", |it| it.step_by(k + 1).take(cap).map($conv).collect());
            let want: Vec<Obs> = base.iter().step_by(k + 1).cloned().collect();
            if run.items != want {
                fail($rep, $what, "step_by", format!("step_by({}): {:?}, expected {:?}", k + 1, run.items, want), input);
            }
        }
        let run = variant!("count", |it| vec![Ok(it.count().to_string())]);
        if run.items != vec![Ok::<String, String>(n.to_string())] || run.pos != base_pos {
            fail($rep, $what, "count", format!("count() = {:?} at {}, next() alone yields {} items and ends at {}", run.items, run.pos, n, base_pos), input);
        }
        let run = variant!("last", |it| it.last().map($conv).into_iter().collect());
        let want: Vec<Obs> = base.last().cloned().into_iter().collect();
        if run.items != want || run.pos != base_pos {
            fail($rep, $what, "last", format!("last() = {:?} at {}, expected {:?} at {}", run.items, run.pos, want, base_pos), input);
        }
        let run = variant!("fold", |it| it.fold(Vec::new(), |mut a, x| { a.push($conv(x)); a }));
        if run.items != base || run.pos != base_pos {
            fail($rep, $what, "fold", format!("fold: {:?} at {}, expected {:?} at {}", run.items, run.pos, base, base_pos), input);
        }
        // the iterators themselves need not be fused (nothing above polls again after `None`), but
        // `fuse()` must make them so: Fuse trusts a FusedIterator impl, so a type that claims to be
        // fused and is not shows up here as items after the end
        let run = variant!("fuse", |it| {
            let mut f = it.fuse();
            let mut v: Vec<Obs> = Vec::new();
            while let Some(x) = f.next() {
                v.push($conv(x));
                if v.len() > cap {
                    break;
                }
            }
            for _ in 0..3 {
                if let Some(x) = f.next() {
                    v.push(Err(format!("after None: {:?}", $conv(x))));
                }
            }
            v
        });
        if run.items != base || run.pos != base_pos {
            fail($rep, $what, "fuse", format!("fuse() polled 3 more times after None: {:?} at {}, expected {:?} at {}", run.items, run.pos, base, base_pos), input);
        }
        let run = variant!("take-then-rest", |it| {
            let mut v: Vec<Obs> = Vec::new();
            if n >= 2 {
                v.extend(it.by_ref().take(1).map($conv));
                v.extend(it.take(cap).map($conv));
            } else {
                v.extend(it.take(cap).map($conv));
            }
            v
        });
        if run.items != base || run.pos != base_pos {
            fail($rep, $what, "by_ref", format!("by_ref().take(1) then the rest: {:?} at {}, expected {:?} at {}", run.items, run.pos, base, base_pos), input);
        }
        $rep.count(&format!("iterator laws held/{}", $what));
    }};
}

fn fail(rep: &mut Report, what: &str, kind: &str, msg: String, input: &[u8]) {
    rep.violation(
        &format!("C04|iterator-laws|{}|{}", what, kind),
        J::obj().with("iterator", J::s(what)).with("what", J::s(msg.chars().take(600).collect::<String>())).with("input", J::s(hex(&input[..input.len().min(200)]))),
        if input.len() <= 2000 { vec!["c04".into(), "--replay".into(), "iterlaws".into(), hex(input)] } else { vec![] },
    );
}

fn arr(rep: &mut Report, input: &[u8]) {
    laws!(rep, input, "array_iter", |d| d.array_iter::<Span>(), |x: Result<Span, decode::Error>| x.map(|s| format!("{:?}", s)).map_err(|e| eobs(&e)));
}
fn map(rep: &mut Report, input: &[u8]) {
    laws!(rep, input, "map_iter", |d| d.map_iter::<Span, Span>(), |x: Result<(Span, Span), decode::Error>| x.map(|s| format!("{:?}", s)).map_err(|e| eobs(&e)));
}
fn bytes(rep: &mut Report, input: &[u8]) {
    laws!(rep, input, "bytes_iter", |d| d.bytes_iter(), |x: Result<&[u8], decode::Error>| x.map(hex).map_err(|e| eobs(&e)));
}
fn strs(rep: &mut Report, input: &[u8]) {
    laws!(rep, input, "str_iter", |d| d.str_iter(), |x: Result<&str, decode::Error>| x.map(|s| s.to_string()).map_err(|e| eobs(&e)));
}
fn toks(rep: &mut Report, input: &[u8]) {
    laws!(rep, input, "tokens", |d| Ok::<_, decode::Error>(d.tokens()), tok);
}
fn tokenizer(rep: &mut Report, input: &[u8]) {
    laws!(rep, input, "Tokenizer::new", |_d| Ok::<_, decode::Error>(Tokenizer::new(input)), tok);
}

/// Run the laws of every iterator that applies to this item.
pub fn check_item(rep: &mut Report, it: &Item, enc: &[u8]) {
    if enc.len() > 600 {
        return;
    }
    // alone, and with sibling items behind it (what an iterator that runs past its end would yield)
    let mut followed = enc.to_vec();
    followed.extend_from_slice(&[0x42, 0x61, 0x62, 0x61, 0x63, 0x01, 0x81, 0x02]);
    for input in [enc, &followed[..]] {
        match it {
            Item::Array { .. } => arr(rep, input),
            Item::Map { .. } => map(rep, input),
            Item::Bytes { .. } | Item::BytesIndef(_) => bytes(rep, input),
            Item::Text { .. } | Item::TextIndef(_) => strs(rep, input),
            _ => {}
        }
    }
    toks(rep, enc);
    tokenizer(rep, enc);
}

/// On arbitrary bytes (replay and hostile inputs): every applicable iterator.
pub fn check_bytes(rep: &mut Report, input: &[u8]) {
    arr(rep, input);
    map(rep, input);
    bytes(rep, input);
    strs(rep, input);
    toks(rep, input);
}
