//! C20 — same behaviour in every feature configuration, up to the documented
//! differences — and the no-alloc half of C06.
//!
//! Online differential monitor.  Six separately built `vcfg` binaries (one per
//! configuration {none, alloc, std} x {half off, on}) run as servers; this
//! driver generates the corpus, sends every input to all of them and compares,
//! operation by operation, (class, value digest, decoder position, error
//! position) between every pair of configurations that has the operation.  A
//! difference is accepted only under one of the documented rules:
//!
//!  R1  without alloc, an operation that skips may fail with the documented
//!      "requires feature flag `alloc`" refusal — accepted only if the input
//!      can contain an indefinite array/map after a definite container head;
//!  R2  without half, a half-precision item is a type error — accepted only if
//!      the reported error position points at a 0xf9 byte;
//!  R3  without alloc, the serde bridge rejects indefinite-length strings in
//!      `deserialize_any` — accepted only for serde operations with a type
//!      error positioned at 0x5f / 0x7f;
//!  R4  without alloc, `collect_str` is refused (operation serde.ser.collect_str, accepted only
//!      if the no-alloc outcome is that refusal: a message-class encode error).
//!
//! Error *texts* are never compared.
//!
//! `c06n` uses the same servers: for well-formed items (boundary known from
//! the reference parser) `skip` in the no-alloc builds must stop exactly at
//! the item end or fail with the documented refusal, and must fail on every
//! strict prefix.

use crate::corpus;
use std::collections::BTreeMap;
use std::io::{BufRead, BufReader, Write};
use std::process::{Child, ChildStdin, ChildStdout, Command, Stdio};
use vcore::gen;
use vcore::json::{hex, unhex, J};
use vcore::mon;
use vcore::refcbor::{self, Item};
use vcore::report::{Args, Report};
use vcore::rng::{fnv64, Rng};

pub const CONFIGS: [&str; 6] = ["none", "none+half", "alloc", "alloc+half", "std", "std+half"];

#[derive(Clone, Debug, PartialEq)]
pub struct Outc {
    pub class: String,
    pub dig: u64,
    pub pos: usize,
    pub epos: Option<usize>,
    pub flag: char,
}

pub struct Server {
    pub name: String,
    pub alloc: bool,
    pub half: bool,
    child: Child,
    stdin: ChildStdin,
    stdout: BufReader<ChildStdout>,
    pub answered: u64,
}

impl Server {
    fn spawn(name: &str, path: &str, only: Option<&str>) -> Result<Server, String> {
        let mut cmd = Command::new(path);
        cmd.arg("serve");
        if let Some(p) = only {
            cmd.arg(p);
        }
        let mut child = cmd.stdin(Stdio::piped()).stdout(Stdio::piped()).stderr(Stdio::null()).spawn().map_err(|e| format!("cannot start {}: {}", path, e))?;
        let stdin = child.stdin.take().unwrap();
        let stdout = BufReader::with_capacity(1 << 16, child.stdout.take().unwrap());
        Ok(Server { name: name.to_string(), alloc: !name.starts_with("none"), half: name.ends_with("half"), child, stdin, stdout, answered: 0 })
    }

    fn send(&mut self, input: &[u8]) -> Result<(), String> {
        let mut line = hex(input);
        line.push('\n');
        self.stdin.write_all(line.as_bytes()).and_then(|_| self.stdin.flush()).map_err(|e| format!("{}: write failed: {}", self.name, e))
    }

    fn recv(&mut self) -> Result<Vec<(String, Outc)>, String> {
        let mut v = Vec::with_capacity(200);
        let mut line = String::new();
        loop {
            line.clear();
            let n = self.stdout.read_line(&mut line).map_err(|e| format!("{}: read failed: {}", self.name, e))?;
            if n == 0 {
                return Err(format!("{}: server ended unexpectedly", self.name));
            }
            let l = line.trim_end_matches('\n');
            if l == "." {
                break;
            }
            let mut f = l.split('\t');
            let (op, class, dig, pos, epos, flag) = (f.next(), f.next(), f.next(), f.next(), f.next(), f.next());
            match (op, class, dig, pos, epos, flag) {
                (Some(op), Some(class), Some(dig), Some(pos), Some(epos), Some(flag)) => v.push((
                    op.to_string(),
                    Outc {
                        class: class.to_string(),
                        dig: u64::from_str_radix(dig, 16).map_err(|_| format!("{}: bad digest", self.name))?,
                        pos: pos.parse().map_err(|_| format!("{}: bad position", self.name))?,
                        epos: if epos == "-" { None } else { Some(epos.parse().map_err(|_| format!("{}: bad error position", self.name))?) },
                        flag: flag.chars().next().unwrap_or('-'),
                    },
                )),
                _ => return Err(format!("{}: malformed answer line {:?}", self.name, l)),
            }
        }
        self.answered += 1;
        Ok(v)
    }
}

impl Drop for Server {
    fn drop(&mut self) {
        let _ = self.child.kill();
        let _ = self.child.wait();
    }
}

pub fn bins_of(a: &Args) -> Vec<(String, String)> {
    match a.extra("bins") {
        Some(s) => s.split(',').filter_map(|kv| kv.split_once('=')).map(|(k, v)| (k.to_string(), v.to_string())).collect(),
        None => CONFIGS.iter().map(|c| (c.to_string(), format!("target/cfg-{}/release/vcfg", c))).collect(),
    }
}

pub fn start(a: &Args, rep: &mut Report, only: Option<&str>, want: &dyn Fn(&str) -> bool) -> Option<Vec<Server>> {
    let mut v = Vec::new();
    for (name, path) in bins_of(a) {
        if !want(&name) {
            continue;
        }
        match Server::spawn(&name, &path, only) {
            Ok(s) => v.push(s),
            Err(e) => {
                rep.inconclusive.push(e);
                return None;
            }
        }
    }
    Some(v)
}

/// Can `b` contain an indefinite array/map head after a definite container head?
/// (necessary for the documented no-alloc refusal of skip)
fn nested_indef_possible(b: &[u8]) -> bool {
    let mut seen_def = false;
    for x in b {
        match *x {
            0x81..=0x9b | 0xa1..=0xbb => seen_def = true,
            0x9f | 0xbf if seen_def => return true,
            _ => {}
        }
    }
    false
}

/// Is the difference between `lo` (the configuration lacking a feature) and the
/// other side one of the documented ones?  Returns the rule name.
fn permitted(op: &str, input: &[u8], lo: &Outc, lo_alloc: bool, lo_half: bool, hi_alloc: bool, hi_half: bool) -> Option<&'static str> {
    if !lo_alloc && hi_alloc {
        if lo.flag == 'A' && lo.class == "message" && nested_indef_possible(input) {
            return Some("R1 no-alloc skip refusal");
        }
        if op.starts_with("serde.") && lo.class == "type_mismatch" {
            if let Some(p) = lo.epos {
                if matches!(input.get(p), Some(0x5f) | Some(0x7f)) {
                    return Some("R3 no-alloc serde indefinite string");
                }
            }
        }
        // the documented difference is the *refusal* (a message-class encode error), not other output
        if op == "serde.ser.collect_str" && lo.class == "enc_message" {
            return Some("R4 no-alloc collect_str");
        }
    }
    // R2 is about *decoding* a half float; operations that only step over items (skip, probe,
    // ignored_any) never interpret a float and must not differ
    let steps_over = op.starts_with("acc.skip") || op.starts_with("acc.probe") || op.starts_with("serde.ignored") || op.starts_with("serde.(ignored");
    if !lo_half && hi_half && !steps_over {
        if lo.class == "type_mismatch" {
            if let Some(p) = lo.epos {
                if input.get(p) == Some(&0xf9) {
                    return Some("R2 no-half f16 type error");
                }
            }
        }
    }
    None
}

fn diff_kind(x: &Outc, y: &Outc) -> &'static str {
    if x.class != y.class {
        "class"
    } else if x.dig != y.dig {
        "value"
    } else if x.pos != y.pos {
        "position"
    } else {
        "error-position"
    }
}

pub struct Driver {
    pub servers: Vec<Server>,
    pub inputs: u64,
}

impl Driver {
    /// Send one input to every server and compare the answers.
    pub fn compare(&mut self, rep: &mut Report, input: &[u8], origin: &str) -> bool {
        for s in self.servers.iter_mut() {
            if let Err(e) = s.send(input) {
                rep.inconclusive.push(e);
                return false;
            }
        }
        let mut answers: Vec<Vec<(String, Outc)>> = Vec::with_capacity(self.servers.len());
        for s in self.servers.iter_mut() {
            match s.recv() {
                Ok(a) => answers.push(a),
                Err(e) => {
                    rep.inconclusive.push(format!("{} (input {})", e, hex(input)));
                    return false;
                }
            }
        }
        self.inputs += 1;
        // op -> [(server index, outcome)]
        let mut by_op: BTreeMap<&str, Vec<(usize, &Outc)>> = BTreeMap::new();
        for (si, ans) in answers.iter().enumerate() {
            for (op, o) in ans {
                by_op.entry(op.as_str()).or_default().push((si, o));
            }
        }
        for (op, outs) in &by_op {
            rep.evals(outs.len() as u64);
            if outs.len() < 2 {
                continue;
            }
            for (_, o) in outs.iter() {
                if o.class == "panic" {
                    rep.violation(&format!("C20|{}|panic", op), J::obj().with("op", J::s(*op)).with("input", J::s(hex(input))).with("origin", J::s(origin)), vec!["c20".into(), "--replay".into(), hex(input), op.to_string()]);
                }
            }
            let first = outs[0].1;
            if outs.iter().all(|(_, o)| *o == first) {
                rep.count_n("compared/identical in all configurations", 1);
                continue;
            }
            for i in 0..outs.len() {
                for j in i + 1..outs.len() {
                    let (si, x) = outs[i];
                    let (sj, y) = outs[j];
                    if x == y {
                        continue;
                    }
                    let (sa, sb) = (&self.servers[si], &self.servers[sj]);
                    let rule = permitted(op, input, x, sa.alloc, sa.half, sb.alloc, sb.half).or_else(|| permitted(op, input, y, sb.alloc, sb.half, sa.alloc, sa.half));
                    match rule {
                        Some(r) => rep.count(&format!("documented difference/{}", r)),
                        None => {
                            let kind = diff_kind(x, y);
                            rep.violation(
                                &format!("C20|{}|{}", op, kind),
                                J::obj()
                                    .with("op", J::s(*op))
                                    .with("input", J::s(hex(input)))
                                    .with("origin", J::s(origin))
                                    .with(sa.name.clone(), outc_json(x))
                                    .with(sb.name.clone(), outc_json(y)),
                                vec!["c20".into(), "--replay".into(), hex(input), op.to_string()],
                            );
                        }
                    }
                }
            }
        }
        true
    }
}

fn outc_json(o: &Outc) -> J {
    J::obj()
        .with("class", J::s(o.class.clone()))
        .with("digest", J::s(format!("{:x}", o.dig)))
        .with("position", J::U(o.pos as u64))
        .with("error_position", match o.epos { Some(p) => J::U(p as u64), None => J::Null })
        .with("alloc_refusal", J::Bool(o.flag == 'A'))
}

// ------------------------------------------------------------------ corpus

fn read_samples(a: &Args, rep: &mut Report) -> Vec<(String, Vec<u8>)> {
    let bins = bins_of(a);
    let path = bins.iter().find(|(n, _)| n == "std+half").map(|(_, p)| p.clone());
    let mut v = Vec::new();
    if let Some(p) = path {
        match Command::new(&p).arg("samples").output() {
            Ok(o) if o.status.success() => {
                for l in String::from_utf8_lossy(&o.stdout).lines() {
                    if let Some((n, h)) = l.split_once('\t') {
                        if let Some(b) = unhex(h) {
                            v.push((n.to_string(), b))
                        }
                    }
                }
            }
            _ => rep.inconclusive.push(format!("cannot obtain samples from {}", p)),
        }
    }
    v
}

/// Add "unknown fields": extra array elements / map entries (forces the
/// derived and serde decoders through skip).
fn extend_unknown(rng: &mut Rng, it: &Item, p: u64) -> Item {
    match it {
        Item::Array { w, items } => {
            let mut v: Vec<Item> = items.iter().map(|x| extend_unknown(rng, x, p)).collect();
            if rng.chance(p, 100) {
                for _ in 0..1 + rng.below(2) {
                    v.push(gen::gen_hot_item(rng, 2))
                }
            }
            Item::Array { w: w.map(|_| refcbor::min_width(v.len() as u64)), items: v }
        }
        Item::Map { w, items } => {
            let mut v: Vec<(Item, Item)> = items.iter().map(|(k, x)| (k.clone(), extend_unknown(rng, x, p))).collect();
            if rng.chance(p, 100) {
                let text_keys = matches!(v.first(), Some((Item::Text { .. }, _)));
                for _ in 0..1 + rng.below(2) {
                    let k = if text_keys { Item::text(*rng.pick(&["zz", "unknown", "a0", ""])) } else { Item::uint(10 + rng.below(400)) };
                    let at = rng.usize_below(v.len() + 1);
                    v.insert(at, (k, gen::gen_hot_item(rng, 2)))
                }
            }
            Item::Map { w: w.map(|_| refcbor::min_width(v.len() as u64)), items: v }
        }
        Item::Tag { w, v, inner } => Item::Tag { w: *w, v: *v, inner: Box::new(extend_unknown(rng, inner, p)) },
        x => x.clone(),
    }
}

/// Replace a random leaf by another item (keeps the shape, changes one value).
fn replace_leaf(rng: &mut Rng, it: &Item) -> Item {
    match it {
        Item::Array { w, items } if !items.is_empty() => {
            let k = rng.usize_below(items.len());
            Item::Array { w: *w, items: items.iter().enumerate().map(|(i, x)| if i == k { replace_leaf(rng, x) } else { x.clone() }).collect() }
        }
        Item::Map { w, items } if !items.is_empty() => {
            let k = rng.usize_below(items.len());
            Item::Map { w: *w, items: items.iter().enumerate().map(|(i, (kk, x))| if i == k { (kk.clone(), replace_leaf(rng, x)) } else { (kk.clone(), x.clone()) }).collect() }
        }
        Item::Tag { w, v, inner } => Item::Tag { w: *w, v: *v, inner: Box::new(replace_leaf(rng, inner)) },
        _ => gen::gen_hot_item(rng, 1),
    }
}

pub fn run(a: &Args, rep: &mut Report) {
    let servers = match start(a, rep, None, &|_| true) {
        Some(s) => s,
        None => return,
    };
    if servers.len() < 2 {
        rep.inconclusive.push("fewer than two configurations available".into());
        return;
    }
    rep.note(format!("configurations: {}", servers.iter().map(|s| s.name.clone()).collect::<Vec<_>>().join(", ")));
    let mut drv = Driver { servers, inputs: 0 };
    let thorough = a.thorough();
    let mut idx = 0u64;
    let go = |drv: &mut Driver, rep: &mut Report, b: &[u8], origin: &str, hashed: bool| -> bool {
        if b.len() > 400 {
            return true;
        }
        if hashed {
            rep.seen(fnv64(b));
        }
        rep.count(&format!("inputs/{}", origin));
        if rep.want_sample() && b.len() > 4 && b.len() < 40 {
            rep.sample(J::obj().with("input", J::s(hex(b))).with("origin", J::s(origin)));
        }
        drv.compare(rep, b, origin)
    };

    // 1. all short byte strings
    let mut ok = true;
    let mut n = 0u64;
    corpus::all_short_strings(a, if thorough { 3 } else { 2 }, &mut |b| {
        // length 3 (thorough): every 8th string
        if ok && (b.len() < 3 || (b[1] as usize * 256 + b[2] as usize) % 8 == (b[0] as usize) % 8) {
            ok = go(&mut drv, rep, b, "short-strings", false);
            n += 1;
        }
    });
    rep.enumerated(n);
    rep.exhaustive.push("all byte strings of length <= 2 x every operation x every configuration".to_string());
    if !ok {
        return;
    }
    mon::tick();
    // 2. structured head sweep (every initial byte x argument width x boundary argument x filler)
    let mut n2 = 0u64;
    gen::head_sweep(&mut |b| {
        idx += 1;
        if a.mine(idx) && ok {
            ok = go(&mut drv, rep, b, "head-sweep", false);
            n2 += 1;
        }
    });
    rep.enumerated(n2);
    if !ok {
        return;
    }
    mon::tick();
    // 3. small trees (all head widths), bare and inside a definite array with a sibling
    let n3 = corpus::small_trees(a, if thorough { 4 } else { 3 }, 3, &mut |it| {
        if !ok {
            return;
        }
        let enc = it.encode();
        ok = go(&mut drv, rep, &enc, "small-trees", false);
        if ok && it.node_count() >= 2 {
            let wrapped = Item::array(vec![it.clone(), Item::uint(1)]).encode();
            ok = go(&mut drv, rep, &wrapped, "small-trees-in-array", false);
        }
    });
    rep.enumerated(n3);
    if !ok {
        return;
    }
    mon::tick();
    // 3b. nesting families: every depth 0..=48 of indefinite containers around a definite one that
    // holds an indefinite one, chains, alternating nesting (where the alloc / no-alloc twins of skip differ)
    {
        let mut r0 = Rng::derive("c20/nest", a.seed, 0, 0);
        let fam = corpus::nesting_families(&mut r0, 150);
        let mut n = 0u64;
        for (k, (_name, b)) in fam.iter().enumerate() {
            if a.mine(k as u64) && b.len() <= 400 {
                if !go(&mut drv, rep, b, "nesting-families", false) {
                    return;
                }
                n += 1;
                // the same item as an unknown trailing element of a definite array
                let mut w = vec![0x82, 0x01];
                w.extend_from_slice(b);
                if w.len() <= 400 && !go(&mut drv, rep, &w, "nesting-families-in-array", false) {
                    return;
                }
            }
        }
        rep.enumerated(n);
    }
    mon::tick();
    // 4. samples of the derived / serde types and their variations
    let samples = read_samples(a, rep);
    let parsed: Vec<(String, Vec<u8>, Option<Item>)> = samples.into_iter().map(|(n, b)| { let it = refcbor::parse(&b).ok().map(|x| x.0); (n, b, it) }).collect();
    rep.note(format!("{} sample encodings of derived/serde types", parsed.len()));
    let per_sample: u64 = if thorough { 6000 } else { 260 };
    for (si, (name, bytes, item)) in parsed.iter().enumerate() {
        let origin = format!("sample/{}", name);
        for i in 0..per_sample {
            idx += 1;
            if !a.mine(idx) {
                continue;
            }
            let mut rng = Rng::derive("c20/sample", a.seed, si as u64, i);
            let b: Vec<u8> = match (i % 8, item) {
                (0, _) if i == 0 => bytes.clone(),
                (0, _) => { let k = rng.usize_below(bytes.len().max(1)); bytes[..k].to_vec() }
                (1, Some(it)) => gen::widen(&mut rng, it).encode(),
                (2, Some(it)) => gen::indefinite_containers(&mut rng, it, 50).encode(),
                (3, Some(it)) | (4, Some(it)) => extend_unknown(&mut rng, it, 60).encode(),
                (5, Some(it)) => replace_leaf(&mut rng, it).encode(),
                (6, Some(it)) => { let x = extend_unknown(&mut rng, it, 40); let x = gen::indefinite_containers(&mut rng, &x, 30); gen::widen(&mut rng, &x).encode() }
                _ => { let other = &parsed[rng.usize_below(parsed.len())].1; gen::mutate(&mut rng, bytes, other).0 }
            };
            if !go(&mut drv, rep, &b, &origin, true) {
                return;
            }
        }
        mon::tick();
    }
    // 5. random trees, shape-directed items, hot items and their mutants
    let nrand: u64 = if thorough { 1_600_000 } else { 64_000 };
    for i in 0..nrand {
        if !a.mine(i) {
            continue;
        }
        let mut rng = Rng::derive("c20/rand", a.seed, 0, i);
        let (b, origin): (Vec<u8>, &str) = match i % 6 {
            0 => (corpus::random_tree("c20/tree", a.seed, i, true).0.encode(), "random-tree"),
            1 => (crate::c04::shaped_item(&mut rng).encode(), "shaped"),
            2 => (gen::gen_hot_item(&mut rng, 3).encode(), "hot"),
            3 => (Item::array(vec![gen::gen_hot_item(&mut rng, 2), Item::uint(rng.below(30))]).encode(), "hot-in-array"),
            4 => {
                let v = crate::c04::shaped_item(&mut rng).encode();
                let o = gen::gen_hot_item(&mut rng, 2).encode();
                (gen::mutate(&mut rng, &v, &o).0, "mutant")
            }
            _ => { let n = 1 + rng.usize_below(12); (rng.bytes(n), "random-bytes") }
        };
        if !go(&mut drv, rep, &b, origin, true) {
            return;
        }
        if i & 0x3ff == 0 {
            mon::tick()
        }
    }
    for s in &drv.servers {
        rep.count_n(&format!("answered/{}", s.name), s.answered);
    }
    rep.count_n("inputs sent to every configuration", drv.inputs);
}

pub fn replay(a: &Args, rep: &mut Report) {
    // --replay <hex input> [op]
    let input = a.replay.first().and_then(|h| unhex(h)).unwrap_or_default();
    let op = a.replay.get(1).cloned();
    let servers = match start(a, rep, op.as_deref(), &|_| true) {
        Some(s) => s,
        None => return,
    };
    let mut drv = Driver { servers, inputs: 0 };
    drv.compare(rep, &input, "replay");
}

// ------------------------------------------------------------------ C06, no-alloc half

fn skip_of(ans: &[(String, Outc)]) -> Option<&Outc> {
    ans.iter().find(|(n, _)| n == "acc.skip").map(|(_, o)| o)
}

fn c06n_item(servers: &mut [Server], rep: &mut Report, it: &Item, rng: &mut Rng) -> bool {
    let enc = it.encode();
    if enc.len() > 3000 {
        return true;
    }
    let end = enc.len();
    let suffixes: [&[u8]; 4] = [&[], &[0xff], &[0x00], &[0x9f]];
    let mut inputs: Vec<(Vec<u8>, bool)> = Vec::new(); // (input, is the complete item)
    let mut full = enc.clone();
    full.extend_from_slice(suffixes[rng.usize_below(4)]);
    inputs.push((full, true));
    if end <= 40 {
        for k in 0..end {
            inputs.push((enc[..k].to_vec(), false));
        }
    } else {
        for _ in 0..6 {
            inputs.push((enc[..rng.usize_below(end)].to_vec(), false));
        }
    }
    for (inp, complete) in &inputs {
        for s in servers.iter_mut() {
            if let Err(e) = s.send(inp) {
                rep.inconclusive.push(e);
                return false;
            }
        }
        for si in 0..servers.len() {
            let ans = match servers[si].recv() {
                Ok(a) => a,
                Err(e) => {
                    rep.inconclusive.push(e);
                    return false;
                }
            };
            let name = servers[si].name.clone();
            let noalloc = !servers[si].alloc;
            let o = match skip_of(&ans) {
                Some(o) => o,
                None => {
                    rep.inconclusive.push(format!("{}: no acc.skip answer", name));
                    return false;
                }
            };
            rep.eval();
            let build = if noalloc { "noalloc" } else { "alloc" };
            let replay = vec!["c06n".to_string(), "--replay".to_string(), hex(inp), if *complete { end.to_string() } else { "prefix".to_string() }];
            if *complete {
                if o.class == "ok" {
                    rep.count(&format!("{}/complete item skipped", build));
                    if o.pos != end {
                        rep.violation(&format!("C06|{}|wrong-position", build), J::obj().with("input", J::s(hex(inp))).with("item_end", J::U(end as u64)).with("position", J::U(o.pos as u64)).with("config", J::s(name.clone())), replay);
                    }
                } else if noalloc && o.flag == 'A' && o.class == "message" && nested_indef_possible(&enc) {
                    rep.count("noalloc/documented refusal (indefinite inside definite)");
                } else {
                    rep.violation(&format!("C06|{}|error-on-complete-item", build), J::obj().with("input", J::s(hex(inp))).with("class", J::s(o.class.clone())).with("config", J::s(name.clone())), replay);
                }
            } else if o.class == "ok" {
                rep.violation(&format!("C06|{}|prefix-accepted", build), J::obj().with("input", J::s(hex(inp))).with("position", J::U(o.pos as u64)).with("config", J::s(name.clone())), replay);
            } else {
                rep.count(&format!("{}/strict prefix refused", build));
            }
        }
    }
    true
}

/// skip() in the separately built no-alloc (and, for comparison, alloc) configurations
/// against the reference item boundary.
pub fn run_c06n(a: &Args, rep: &mut Report) {
    let mut servers = match start(a, rep, Some("acc.skip"), &|n| n == "none" || n == "none+half" || n == "alloc") {
        Some(s) => s,
        None => return,
    };
    if !servers.iter().any(|s| !s.alloc) {
        rep.inconclusive.push("no no-alloc configuration available".into());
        return;
    }
    rep.note(format!("configurations: {}", servers.iter().map(|s| s.name.clone()).collect::<Vec<_>>().join(", ")));
    let mut rng = Rng::derive("c06n", a.seed, a.shard, 0);
    let mut ok = true;
    let n = corpus::small_trees(a, if a.thorough() { 5 } else { 4 }, 2, &mut |it| {
        if ok {
            ok = c06n_item(&mut servers, rep, it, &mut rng);
        }
    });
    rep.enumerated(n);
    rep.exhaustive.push(format!("no-alloc build: all item trees with <= {} nodes, complete and every strict prefix", if a.thorough() { 5 } else { 4 }));
    if !ok {
        return;
    }
    let nrand: u64 = if a.thorough() { 400_000 } else { 24_000 };
    for i in 0..nrand {
        if !a.mine(i) {
            continue;
        }
        let (it, mut r) = if i % 3 == 0 {
            let mut r = Rng::derive("c06n/hot", a.seed, 0, i);
            (gen::gen_hot_item(&mut r, 4), r)
        } else {
            corpus::random_tree("c06n/tree", a.seed, i, true)
        };
        if !it.text_valid() {
            continue;
        }
        rep.seen(fnv64(&it.encode()));
        if !c06n_item(&mut servers, rep, &it, &mut r) {
            return;
        }
        if i & 0xff == 0 {
            mon::tick()
        }
    }
    let fam = corpus::nesting_families(&mut rng, if a.thorough() { 2000 } else { 300 });
    for (k, (_name, enc)) in fam.iter().enumerate() {
        if !a.mine(k as u64) {
            continue;
        }
        if let Ok((it, used)) = refcbor::parse(enc) {
            if used == enc.len() && enc.len() <= 3000 {
                rep.seen(fnv64(enc));
                if !c06n_item(&mut servers, rep, &it, &mut rng) {
                    return;
                }
            }
        }
    }
}

pub fn replay_c06n(a: &Args, rep: &mut Report) {
    let input = a.replay.first().and_then(|h| unhex(h)).unwrap_or_default();
    let what = a.replay.get(1).cloned().unwrap_or_default();
    let mut servers = match start(a, rep, Some("acc.skip"), &|n| n == "none" || n == "none+half" || n == "alloc") {
        Some(s) => s,
        None => return,
    };
    for s in servers.iter_mut() {
        if s.send(&input).is_err() {
            return;
        }
        if let Ok(ans) = s.recv() {
            if let Some(o) = skip_of(&ans) {
                rep.eval();
                let build = if s.alloc { "alloc" } else { "noalloc" };
                if what == "prefix" {
                    if o.class == "ok" {
                        rep.violation(&format!("C06|{}|prefix-accepted", build), J::obj().with("input", J::s(hex(&input))).with("config", J::s(s.name.clone())), vec![]);
                    }
                } else if let Ok(end) = what.parse::<usize>() {
                    if o.class == "ok" && o.pos != end {
                        rep.violation(&format!("C06|{}|wrong-position", build), J::obj().with("input", J::s(hex(&input))).with("position", J::U(o.pos as u64)).with("config", J::s(s.name.clone())), vec![]);
                    } else if o.class != "ok" && !(o.flag == 'A' && !s.alloc) {
                        rep.violation(&format!("C06|{}|error-on-complete-item", build), J::obj().with("input", J::s(hex(&input))).with("class", J::s(o.class.clone())).with("config", J::s(s.name.clone())), vec![]);
                    }
                }
            }
        }
    }
}
