//! C07 — `CborLen` is exact (built-in impls and tokens; the derived impls are
//! checked by the generated-schema crates, see run.py).

use crate::c01::{gen_token, Arena};
use crate::subj::Subject;
use minicbor::data::Token;
use minicbor::{CborLen, Encode};
use std::any::type_name;
use vcore::json::{hex, J};
use vcore::mon::{self, Canary};
use vcore::refnum;
use vcore::report::{Args, Report};
use vcore::rng::{fnv64, hash_mix, Rng};

const ID: &str = "C07";

pub fn check_len<T: Encode<()> + CborLen<()>>(ty: &str, sig: &str, v: &T, show: &str, rep: &mut Report, replay: &[String]) {
    rep.eval();
    let r = mon::guarded(|| {
        let bytes = match minicbor::to_vec(v) {
            Ok(b) => b,
            Err(_) => return Ok(None),
        };
        let n = minicbor::len(v);
        if n != bytes.len() {
            return Err(format!("len() = {} but {} bytes are written ({})", n, bytes.len(), hex(&bytes[..bytes.len().min(48)])));
        }
        // a buffer of exactly that size suffices, one byte less does not
        let mut c = Canary::new(n, 8);
        if minicbor::encode(v, c.sink()).is_err() || c.content() != &bytes[..] || !c.intact() {
            return Err(format!("a buffer of exactly len() = {} bytes does not take the encoding", n));
        }
        if n > 0 {
            let mut c = Canary::new(n - 1, 8);
            if minicbor::encode(v, c.sink()).is_ok() {
                return Err(format!("a buffer of len() - 1 = {} bytes took the encoding", n - 1));
            }
            if !c.intact() {
                return Err("overrun".to_string());
            }
        }
        Ok(Some(bytes))
    });
    match r {
        Err(p) => rep.violation(&format!("{}|{}|panic", ID, sig), J::obj().with("type", J::s(ty)).with("value", J::s(show)).with("what", J::s(p.message)), replay.to_vec()),
        Ok(Err(e)) => rep.violation(&format!("{}|{}", ID, sig), J::obj().with("type", J::s(ty)).with("value", J::s(show)).with("what", J::s(e)), replay.to_vec()),
        Ok(Ok(None)) => rep.count("encoder refused the value"),
        Ok(Ok(Some(b))) => {
            rep.seen(hash_mix(fnv64(ty.as_bytes()), fnv64(&b)));
            if rep.want_sample() && b.len() > 4 && b.len() < 40 {
                rep.sample(J::obj().with("type", J::s(ty)).with("value", J::s(show)).with("len", J::U(b.len() as u64)));
            }
        }
    }
}

fn run_type<T: Subject + Encode<()> + CborLen<()>>(a: &Args, rep: &mut Report, n: u64) {
    let ty = type_name::<T>();
    let label = format!("c07/{}", ty);
    for i in 0..n {
        if !a.mine(i) {
            continue;
        }
        let mut rng = Rng::derive(&label, a.seed, 0, i);
        let v = T::gen(&mut rng);
        let rp = vec!["c07".into(), "--seed".into(), a.seed.to_string(), "--replay".into(), "value".into(), ty.to_string(), i.to_string()];
        check_len::<T>(ty, &format!("builtin|{}", ty), &v, &v.show(), rep, &rp);
    }
    mon::tick();
}

fn token_sig(t: &Token) -> &'static str {
    match t {
        Token::Bool(_) => "Token::Bool",
        Token::U8(_) => "Token::U8",
        Token::U16(_) => "Token::U16",
        Token::U32(_) => "Token::U32",
        Token::U64(_) => "Token::U64",
        Token::I8(_) => "Token::I8",
        Token::I16(_) => "Token::I16",
        Token::I32(_) => "Token::I32",
        Token::I64(_) => "Token::I64",
        Token::Int(_) => "Token::Int",
        Token::F16(_) => "Token::F16",
        Token::F32(_) => "Token::F32",
        Token::F64(_) => "Token::F64",
        Token::Bytes(_) => "Token::Bytes",
        Token::String(_) => "Token::String",
        Token::Array(_) => "Token::Array",
        Token::Map(_) => "Token::Map",
        Token::Tag(_) => "Token::Tag",
        Token::Simple(_) => "Token::Simple",
        Token::Break => "Token::Break",
        Token::Null => "Token::Null",
        Token::Undefined => "Token::Undefined",
        Token::BeginBytes => "Token::BeginBytes",
        Token::BeginString => "Token::BeginString",
        Token::BeginArray => "Token::BeginArray",
        Token::BeginMap => "Token::BeginMap",
    }
}

pub fn run(a: &Args, rep: &mut Report) {
    let n: u64 = if a.thorough() { 1_500_000 } else { 240_000 };
    macro_rules! m {
        ($t:ty) => {
            run_type::<$t>(a, rep, n)
        };
    }
    for_each_subject!(m);
    // strings whose length needs the 8-byte head: len() against the reference head length
    // (payload = read-only anonymous zero mapping, nothing is written anywhere)
    if a.shard == 2 % a.nshards {
        for n in [(1u64 << 32) - 1, 1 << 32, (1 << 32) + 1] {
            if let Some(region) = mon::ZeroRegion::new(n as usize) {
                let data = region.as_slice();
                let want = 1 + vcore::refcbor::min_width(n) as u64 + n;
                let bs: &minicbor::bytes::ByteSlice = data.into();
                let s = unsafe { std::str::from_utf8_unchecked(data) };
                for (what, got) in [("&ByteSlice", minicbor::len(bs) as u64), ("&str", minicbor::len(s) as u64)] {
                    rep.eval();
                    if got != want {
                        rep.violation(&format!("{}|builtin|{}|huge", ID, what), J::obj().with("what", J::s(format!("len() of a {} byte {} is {}, the encoding has {} bytes", n, what, got, want))), vec![]);
                    } else {
                        rep.count("len() of strings of 2^32-1 .. 2^32+1 bytes");
                    }
                }
                rep.enumerated(2);
            }
        }
    }
    // IPv6 socket addresses with non-zero flow-info / scope-id (outside the round-trip property,
    // inside this one: len() counts what the encoder writes for *every* value)
    for i in 0..n / 16 {
        if !a.mine(i) {
            continue;
        }
        let mut rng = Rng::derive("c07/sockaddr6", a.seed, 0, i);
        let ip = <std::net::Ipv6Addr as Subject>::gen(&mut rng);
        let flow = *rng.pick(&[0u32, 1, 23, 24, 255, 256, 65536, u32::MAX]);
        let scope = *rng.pick(&[0u32, 1, 23, 24, 255, 256, 65536, u32::MAX]);
        let sa = std::net::SocketAddrV6::new(ip, rng.next_u32() as u16, flow, scope);
        check_len::<std::net::SocketAddrV6>("SocketAddrV6", "builtin|SocketAddrV6(flow,scope)", &sa, &format!("{:?} flow {} scope {}", sa, flow, scope), rep, &[]);
        let any = std::net::SocketAddr::V6(sa);
        check_len::<std::net::SocketAddr>("SocketAddr", "builtin|SocketAddr::V6(flow,scope)", &any, &format!("{:?}", any), rep, &[]);
    }
    // slices and references
    for i in 0..n / 4 {
        if !a.mine(i) {
            continue;
        }
        let mut rng = Rng::derive("c07/slices", a.seed, 0, i);
        let v = Vec::<u16>::gen(&mut rng);
        check_len::<&[u16]>("&[u16]", "builtin|&[u16]", &&v[..], &v.show(), rep, &[]);
        let s = String::gen(&mut rng);
        check_len::<&str>("&str", "builtin|&str", &s.as_str(), &s.show(), rep, &[]);
        let b = vcore::gen::gen_bytes(&mut rng, false);
        let bs: &minicbor::bytes::ByteSlice = b.as_slice().into();
        check_len::<&minicbor::bytes::ByteSlice>("&ByteSlice", "builtin|&ByteSlice", &bs, &format!("bytes[{}]", b.len()), rep, &[]);
        let p = std::path::PathBuf::from(String::gen(&mut rng));
        check_len::<&std::path::Path>("&Path", "builtin|&Path", &p.as_path(), &p.show(), rep, &[]);
        let c = std::ffi::CString::gen(&mut rng);
        check_len::<&std::ffi::CStr>("&CStr", "builtin|&CStr", &c.as_c_str(), &c.show(), rep, &[]);
        // every registered name in turn (the table is the one C03 wrote from the RFCs)
        let table = crate::c03::iana_table();
        let t = table[(i / a.nshards.max(1)) as usize % table.len()].0;
        check_len::<minicbor::data::IanaTag>("IanaTag", "builtin|IanaTag", &t, &format!("{:?}", t), rep, &[]);
    }
    // tokens: every variant; all half patterns, all simple values, byte strings with bytes >= 0x18
    if a.shard == 0 {
        for h in 0..=0xffffu16 {
            let t = Token::F16(f32::from_bits(refnum::f16_bits_to_f32_bits(h)));
            check_len::<Token>("Token", "Token::F16", &t, &format!("F16({:04x})", h), rep, &["c07".into(), "--replay".into(), "token-f16".into(), h.to_string()]);
        }
        for s in 0..=255u8 {
            check_len::<Token>("Token", "Token::Simple", &Token::Simple(s), &format!("Simple({})", s), rep, &["c07".into(), "--replay".into(), "token-simple".into(), s.to_string()]);
        }
        rep.enumerated(65536 + 256);
        rep.exhaustive.push("Token::F16 for all 65536 half patterns, Token::Simple(0..=255)".into());
    }
    for i in 0..n {
        if !a.mine(i) {
            continue;
        }
        let mut rng = Rng::derive("c07/token", a.seed, 0, i);
        let arena = Arena::new(&mut rng, 4);
        let t = gen_token(&mut rng, &arena);
        let rp = vec!["c07".into(), "--seed".into(), a.seed.to_string(), "--replay".into(), "token".into(), i.to_string()];
        check_len::<Token>("Token", token_sig(&t), &t, &format!("{:?}", t).chars().take(60).collect::<String>(), rep, &rp);
        // a byte string whose bytes are all >= 0x18
        let hi: Vec<u8> = (0..rng.below(40)).map(|_| 0x18 + (rng.below(0xe8) as u8)).collect();
        check_len::<Token>("Token", "Token::Bytes", &Token::Bytes(&hi), &format!("Bytes[{}] >= 0x18", hi.len()), rep, &rp);
    }
}

pub fn replay(a: &Args, rep: &mut Report) {
    match a.replay[0].as_str() {
        "value" => {
            let want = a.replay[1].as_str();
            let i: u64 = a.replay[2].parse().unwrap();
            macro_rules! m {
                ($t:ty) => {
                    if type_name::<$t>() == want {
                        let mut rng = Rng::derive(&format!("c07/{}", want), a.seed, 0, i);
                        let v = <$t as Subject>::gen(&mut rng);
                        println!("replaying {} value {}", want, v.show());
                        check_len::<$t>(want, &format!("builtin|{}", want), &v, &v.show(), rep, &[]);
                    }
                };
            }
            for_each_subject!(m);
        }
        "token-f16" => {
            let h: u16 = a.replay[1].parse().unwrap();
            check_len::<Token>("Token", "Token::F16", &Token::F16(f32::from_bits(refnum::f16_bits_to_f32_bits(h))), "F16", rep, &[])
        }
        "token-simple" => check_len::<Token>("Token", "Token::Simple", &Token::Simple(a.replay[1].parse().unwrap()), "Simple", rep, &[]),
        "token" => {
            let i: u64 = a.replay[1].parse().unwrap();
            let mut rng = Rng::derive("c07/token", a.seed, 0, i);
            let arena = Arena::new(&mut rng, 4);
            let t = gen_token(&mut rng, &arena);
            println!("replaying token {:?}", t);
            check_len::<Token>("Token", token_sig(&t), &t, "token", rep, &[]);
            let hi: Vec<u8> = (0..rng.below(40)).map(|_| 0x18 + (rng.below(0xe8) as u8)).collect();
            check_len::<Token>("Token", "Token::Bytes", &Token::Bytes(&hi), "bytes", rep, &[]);
        }
        o => eprintln!("unknown replay {}", o),
    }
}
