//! C13 — bounded sinks: encoding succeeds iff it fits, never overruns, and is
//! sink-independent.
//!
//! Reference: the `Vec<u8>` encoding.  Model of a bounded sink = (capacity,
//! bytes accepted).  Every sink lives inside a larger canary buffer.

use crate::subj::Subject;
use minicbor::encode::write::{Cursor, Writer};
use minicbor::encode::Write;
use minicbor::{Encode, Encoder};
use std::any::type_name;
use vcore::json::{hex, J};
use vcore::mon::{self, Canary, CANARY};
use vcore::report::{Args, Report};
use vcore::rng::{fnv64, hash_mix, Rng};

const ID: &str = "C13";

fn fail(rep: &mut Report, sink: &str, kind: &str, what: String, replay: &[String]) {
    rep.violation(&format!("{}|{}|{}", ID, sink, kind), J::obj().with("sink", J::s(sink)).with("what", J::s(what)), replay.to_vec());
}

/// After a (possibly failed) encode into a bounded sink initialised with the
/// canary pattern: `accepted` bytes (if the sink reports a position) or the
/// longest matching prefix must equal the reference, the rest is untouched.
fn prefix_ok(sink: &[u8], reference: &[u8], pos: Option<usize>) -> Result<usize, String> {
    let k = match pos {
        Some(p) => {
            if p > sink.len() {
                return Err(format!("position {} beyond capacity {}", p, sink.len()));
            }
            if p > reference.len() || sink[..p] != reference[..p] {
                return Err(format!("the first {} bytes in the sink are not a prefix of the encoding", p));
            }
            p
        }
        None => {
            let mut k = 0;
            while k < sink.len() && k < reference.len() && sink[k] == reference[k] {
                k += 1
            }
            k
        }
    };
    if sink[k..].iter().any(|b| *b != CANARY) {
        // bytes beyond the accepted prefix were modified: acceptable only if they
        // still form a prefix of the encoding (a sink without a position)
        let mut j = k;
        while j < sink.len() && j < reference.len() && sink[j] == reference[j] {
            j += 1
        }
        if sink[j..].iter().any(|b| *b != CANARY) {
            return Err(format!("sink bytes after offset {} are neither untouched nor part of the encoding", j));
        }
        if pos.is_some() {
            return Err(format!("cursor position {} but {} bytes of the encoding are in the sink", k, j));
        }
        return Ok(j);
    }
    Ok(k)
}

pub fn check_value<T: Encode<()>>(ty: &str, v: &T, show: &str, rep: &mut Report, rng: &mut Rng, replay: &[String]) {
    let reference = match mon::guarded(|| minicbor::to_vec(v)) {
        Ok(Ok(b)) => b,
        Ok(Err(_)) => return,
        Err(p) => {
            fail(rep, "Vec<u8>", "panic", p.message, replay);
            return;
        }
    };
    let len = reference.len();
    let caps: Vec<usize> = if len <= 200 {
        (0..=len + 1).collect()
    } else {
        let mut c = vec![0, 1, len - 1, len, len + 1, len / 2];
        for _ in 0..6 {
            c.push(rng.usize_below(len + 2))
        }
        c
    };
    rep.seen(hash_mix(fnv64(ty.as_bytes()), fnv64(&reference)));
    for cap in caps {
        let fits = len <= cap;
        // &mut [u8]
        {
            rep.eval();
            let mut c = Canary::new(cap, 16);
            let r = mon::guarded(|| minicbor::encode(v, c.sink()).map_err(|e| e.is_write()));
            match r {
                Err(p) => fail(rep, "&mut [u8]", "panic", format!("{} (capacity {}, encoding {} bytes of {})", p.message, cap, len, show), replay),
                Ok(r) => {
                    if !c.intact() {
                        fail(rep, "&mut [u8]", "overrun", format!("bytes outside a sink of capacity {} were modified ({} byte encoding of {})", cap, len, show), replay)
                    }
                    match (r, fits) {
                        (Ok(()), true) => {
                            if c.content()[..len] != reference[..] || c.content()[len..].iter().any(|b| *b != CANARY) {
                                fail(rep, "&mut [u8]", "bytes", format!("sink content {} differs from the Vec encoding {}", hex(&c.content()[..len.min(64)]), hex(&reference[..len.min(64)])), replay)
                            }
                        }
                        (Err(true), false) => {
                            if let Err(e) = prefix_ok(c.content(), &reference, None) {
                                fail(rep, "&mut [u8]", "prefix", format!("{} (capacity {}, {})", e, cap, show), replay)
                            }
                        }
                        (Err(false), false) => fail(rep, "&mut [u8]", "error-class", "overflow reported as a non-write error".into(), replay),
                        (Ok(()), false) => fail(rep, "&mut [u8]", "fits", format!("success although the {} byte encoding of {} exceeds capacity {}", len, show, cap), replay),
                        (Err(_), true) => fail(rep, "&mut [u8]", "fits", format!("failure although the {} byte encoding of {} fits capacity {}", len, show, cap), replay),
                    }
                }
            }
        }
        // Cursor<&mut [u8]>, Cursor<Box<[u8]>>, Writer<io::Cursor<&mut [u8]>>
        {
            rep.eval();
            let mut c = Canary::new(cap, 16);
            let r = mon::guarded(|| {
                let mut cur = Cursor::new(c.sink());
                let r = Encoder::new(&mut cur).encode(v).map(|_| ()).map_err(|e| e.is_write());
                (r, cur.position())
            });
            judge(rep, "Cursor<&mut [u8]>", r, c.content(), c.intact(), &reference, cap, show, replay);
        }
        {
            rep.eval();
            let r = mon::guarded(|| {
                let mut cur = Cursor::new(vec![CANARY; cap].into_boxed_slice());
                let r = Encoder::new(&mut cur).encode(v).map(|_| ()).map_err(|e| e.is_write());
                let pos = cur.position();
                (r, pos, cur.into_inner())
            });
            match r {
                Err(p) => fail(rep, "Cursor<Box<[u8]>>", "panic", p.message, replay),
                Ok((r, pos, content)) => judge(rep, "Cursor<Box<[u8]>>", Ok((r, pos)), &content, true, &reference, cap, show, replay),
            }
        }
        {
            rep.eval();
            let mut c = Canary::new(cap, 16);
            let r = mon::guarded(|| {
                let mut w = Writer::new(std::io::Cursor::new(c.sink()));
                let r = Encoder::new(&mut w).encode(v).map(|_| ()).map_err(|e| e.is_write());
                (r, w.get_ref().position() as usize)
            });
            judge(rep, "Writer<io::Cursor<&mut [u8]>>", r, c.content(), c.intact(), &reference, cap, show, replay);
        }
    }
    // the std::io adapter over a writer that accepts a few bytes at a time and reports
    // `Interrupted` now and then (io::Write::write_all semantics: retry, fill up to the capacity)
    for cap in [0usize, 1, len / 2, len.saturating_sub(1), len, len + 1] {
        rep.eval();
        let r = mon::guarded(|| {
            let mut w = Writer::new(ScriptIo { buf: Vec::new(), cap, calls: 0 });
            let r = Encoder::new(&mut w).encode(v).map(|_| ()).map_err(|e| e.is_write());
            let inner = w.into_inner();
            (r, inner.buf)
        });
        match r {
            Err(p) => fail(rep, "Writer<scripted io::Write>", "panic", p.message, replay),
            Ok((r, got)) => {
                let fits = len <= cap;
                let is_prefix = got.len() <= len && got[..] == reference[..got.len()];
                match (r, fits) {
                    (Ok(()), true) if got == reference => {}
                    (Ok(()), true) => fail(rep, "Writer<scripted io::Write>", "bytes", format!("an interrupted / short-writing io::Write received {} bytes, the encoding of {} has {}", got.len(), show, len), replay),
                    (Err(true), false) if is_prefix => {}
                    (Err(true), false) => fail(rep, "Writer<scripted io::Write>", "prefix", format!("after the write error the io::Write holds {} bytes that are not a prefix of the encoding", got.len()), replay),
                    (Err(false), false) => fail(rep, "Writer<scripted io::Write>", "error-class", "overflow reported as a non-write error".into(), replay),
                    (Ok(()), false) => fail(rep, "Writer<scripted io::Write>", "fits", format!("success although the {} byte encoding exceeds capacity {}", len, cap), replay),
                    (Err(_), true) => fail(rep, "Writer<scripted io::Write>", "fits", format!("failure although the {} byte encoding of {} fits capacity {} (short writes and Interrupted must be retried)", len, show, cap), replay),
                }
            }
        }
    }
    // an io::Write with one transient hard fault (WouldBlock / TimedOut / Other) after `at` bytes
    // that accepts data again afterwards: whatever the encoder does about the fault, success means
    // the complete encoding arrived and failure leaves a prefix of it (nothing is sent twice)
    let mut offs: Vec<usize> = (0..=len.min(26)).collect();
    offs.extend([len / 2, len.saturating_sub(1)]);
    for (k, at) in offs.into_iter().enumerate() {
        rep.eval();
        let r = mon::guarded(|| {
            let kind = [std::io::ErrorKind::WouldBlock, std::io::ErrorKind::TimedOut, std::io::ErrorKind::Other][k % 3];
            let mut w = Writer::new(FaultIo { buf: Vec::new(), at, kind, fired: false, chunk: 1 + k % 4 });
            let r = Encoder::new(&mut w).encode(v).map(|_| ()).map_err(|e| e.is_write());
            let inner = w.into_inner();
            (r, inner.buf, inner.fired)
        });
        match r {
            Err(p) => fail(rep, "Writer<faulting io::Write>", "panic", p.message, replay),
            Ok((r, got, fired)) => {
                let is_prefix = got.len() <= len && got[..] == reference[..got.len()];
                match r {
                    Ok(()) if got == reference => {}
                    Ok(()) => fail(rep, "Writer<faulting io::Write>", "bytes", format!("success reported, but an io::Write with one transient fault after {} bytes received {} bytes ({}), the encoding of {} has {}", at, got.len(), hex(&got[..got.len().min(40)]), show, len), replay),
                    Err(true) if is_prefix && fired => rep.count("transient io fault: write error, prefix left behind"),
                    Err(true) if !fired => fail(rep, "Writer<faulting io::Write>", "fits", "failure although the writer never failed".into(), replay),
                    Err(true) => fail(rep, "Writer<faulting io::Write>", "prefix", format!("after a fault at byte {} the io::Write holds {} bytes ({}) that are not a prefix of the encoding of {}", at, got.len(), hex(&got[..got.len().min(40)]), show), replay),
                    Err(false) => fail(rep, "Writer<faulting io::Write>", "error-class", "an io fault reported as a non-write error".into(), replay),
                }
            }
        }
    }
    // fixed array cursors
    macro_rules! arr {
        ($n:expr) => {{
            rep.eval();
            let r = mon::guarded(|| {
                let mut cur = Cursor::new([CANARY; $n]);
                let r = Encoder::new(&mut cur).encode(v).map(|_| ()).map_err(|e| e.is_write());
                let pos = cur.position();
                (r, pos, cur.into_inner())
            });
            match r {
                Err(p) => fail(rep, "Cursor<[u8; N]>", "panic", p.message, replay),
                Ok((r, pos, content)) => judge(rep, "Cursor<[u8; N]>", Ok((r, pos)), &content, true, &reference, $n, show, replay),
            }
        }};
    }
    arr!(0);
    arr!(1);
    arr!(2);
    arr!(3);
    arr!(5);
    arr!(8);
    arr!(9);
    arr!(16);
    arr!(33);
    arr!(64);
    // growable sinks: Vec through &mut, Writer<Vec>
    {
        rep.eval();
        let mut out = Vec::new();
        let r = minicbor::encode(v, &mut out);
        if r.is_err() || out != reference {
            fail(rep, "&mut Vec<u8>", "bytes", "encoding into &mut Vec differs from to_vec".into(), replay)
        }
        let mut w = Writer::new(Vec::new());
        let r = Encoder::new(&mut w).encode(v).map(|_| ());
        if r.is_err() || w.into_inner() != reference {
            fail(rep, "Writer<Vec<u8>>", "bytes", "encoding into Writer<Vec> differs from to_vec".into(), replay)
        }
    }
}

#[allow(clippy::too_many_arguments)]
/// io::Write of bounded capacity that takes 1-3 bytes per call and answers `Interrupted`
/// on every third call.
struct ScriptIo {
    buf: Vec<u8>,
    cap: usize,
    calls: usize,
}

impl std::io::Write for ScriptIo {
    fn write(&mut self, b: &[u8]) -> std::io::Result<usize> {
        self.calls += 1;
        if self.calls % 3 == 0 {
            return Err(std::io::ErrorKind::Interrupted.into());
        }
        let n = b.len().min(self.cap - self.buf.len()).min(1 + self.calls % 3);
        self.buf.extend_from_slice(&b[..n]);
        Ok(n)
    }
    fn flush(&mut self) -> std::io::Result<()> {
        Ok(())
    }
}

/// A sequence of direct `Encoder` method calls, packaged as a value so that the whole sink battery
/// applies to it.
#[derive(Debug, Clone)]
enum Op {
    U8(u8),
    U64(u64),
    I64(i64),
    Array(u64),
    Map(u64),
    Tag(u64),
    Bytes(usize),
    Str(usize),
    BeginArray,
    BeginMap,
    BeginBytes,
    BeginStr,
    End,
    Null,
    Undefined,
    Bool(bool),
    Simple(u8),
    F32(f32),
    F64(f64),
    Char(char),
}

struct Script(Vec<Op>);

impl Script {
    fn gen(rng: &mut Rng) -> Self {
        let n = 1 + rng.below(5);
        let lens = [0usize, 1, 2, 23, 24, 30];
        Script(
            (0..n)
                .map(|_| match rng.below(20) {
                    0 => Op::U8(vcore::gen::gen_int(rng, 8, false) as u8),
                    1 => Op::U64(vcore::gen::gen_u64(rng)),
                    2 => Op::I64(vcore::gen::gen_int(rng, 64, true) as i64),
                    3 => Op::Array(vcore::gen::gen_u64(rng)),
                    4 => Op::Map(vcore::gen::gen_u64(rng)),
                    5 => Op::Tag(vcore::gen::gen_u64(rng)),
                    6 => Op::Bytes(*rng.pick(&lens)),
                    7 => Op::Str(*rng.pick(&lens)),
                    8 => Op::BeginArray,
                    9 => Op::BeginMap,
                    10 => Op::BeginBytes,
                    11 => Op::BeginStr,
                    12 => Op::End,
                    13 => Op::Null,
                    14 => Op::Undefined,
                    15 => Op::Bool(rng.bool()),
                    16 => Op::Simple(*rng.pick(&[0u8, 19, 32, 255])),
                    17 => Op::F32(f32::from_bits(rng.next_u32())),
                    18 => Op::F64(f64::from_bits(rng.next_u64())),
                    _ => Op::Char(*rng.pick(&['a', 'é', '€', '😀'])),
                })
                .collect(),
        )
    }
}

impl<C> Encode<C> for Script {
    fn encode<W: Write>(&self, e: &mut Encoder<W>, _: &mut C) -> Result<(), minicbor::encode::Error<W::Error>> {
        const TEXT: &str = "abcdefghijklmnopqrstuvwxyzabcdefghij";
        for op in &self.0 {
            match op {
                Op::U8(x) => e.u8(*x)?,
                Op::U64(x) => e.u64(*x)?,
                Op::I64(x) => e.i64(*x)?,
                Op::Array(n) => e.array(*n)?,
                Op::Map(n) => e.map(*n)?,
                Op::Tag(n) => e.tag(minicbor::data::Tag::new(*n))?,
                Op::Bytes(n) => e.bytes(&TEXT.as_bytes()[..*n])?,
                Op::Str(n) => e.str(&TEXT[..*n])?,
                Op::BeginArray => e.begin_array()?,
                Op::BeginMap => e.begin_map()?,
                Op::BeginBytes => e.begin_bytes()?,
                Op::BeginStr => e.begin_str()?,
                Op::End => e.end()?,
                Op::Null => e.null()?,
                Op::Undefined => e.undefined()?,
                Op::Bool(b) => e.bool(*b)?,
                Op::Simple(n) => e.simple(*n)?,
                Op::F32(x) => e.f32(*x)?,
                Op::F64(x) => e.f64(*x)?,
                Op::Char(c) => e.char(*c)?,
            };
        }
        Ok(())
    }
}

/// io::Write that takes `chunk` bytes per call and fails exactly once, with a non-retryable error
/// kind, when `at` bytes have been accepted; afterwards it accepts data again.
struct FaultIo {
    buf: Vec<u8>,
    at: usize,
    kind: std::io::ErrorKind,
    fired: bool,
    chunk: usize,
}

impl std::io::Write for FaultIo {
    fn write(&mut self, b: &[u8]) -> std::io::Result<usize> {
        if !self.fired && self.buf.len() >= self.at {
            self.fired = true;
            return Err(self.kind.into());
        }
        let mut n = b.len().min(self.chunk);
        if !self.fired {
            n = n.min(self.at - self.buf.len());
        }
        self.buf.extend_from_slice(&b[..n]);
        Ok(n)
    }
    fn flush(&mut self) -> std::io::Result<()> {
        Ok(())
    }
}

fn judge(rep: &mut Report, sink: &str, r: Result<(Result<(), bool>, usize), mon::PanicReport>, content: &[u8], intact: bool, reference: &[u8], cap: usize, show: &str, replay: &[String]) {
    let len = reference.len();
    let fits = len <= cap;
    match r {
        Err(p) => fail(rep, sink, "panic", format!("{} (capacity {}, {})", p.message, cap, show), replay),
        Ok((r, pos)) => {
            if !intact {
                fail(rep, sink, "overrun", format!("bytes outside a sink of capacity {} were modified", cap), replay)
            }
            match (r, fits) {
                (Ok(()), true) => {
                    if pos != len {
                        fail(rep, sink, "position", format!("position {} after writing {} bytes", pos, len), replay)
                    } else if content[..len] != reference[..] || content[len..].iter().any(|b| *b != CANARY) {
                        fail(rep, sink, "bytes", format!("sink content differs from the Vec encoding of {}", show), replay)
                    }
                }
                (Err(true), false) => {
                    if let Err(e) = prefix_ok(content, reference, Some(pos)) {
                        fail(rep, sink, "prefix", format!("{} (capacity {}, {})", e, cap, show), replay)
                    }
                }
                (Err(false), false) => fail(rep, sink, "error-class", "overflow reported as a non-write error".into(), replay),
                (Ok(()), false) => fail(rep, sink, "fits", format!("success although the {} byte encoding exceeds capacity {}", len, cap), replay),
                (Err(_), true) => fail(rep, sink, "fits", format!("failure although the {} byte encoding fits capacity {}", len, cap), replay),
            }
        }
    }
}

fn run_type<T: Subject + Encode<()>>(a: &Args, rep: &mut Report, n: u64) {
    let ty = type_name::<T>();
    let label = format!("c13/{}", ty);
    for i in 0..n {
        if !a.mine(i) {
            continue;
        }
        let mut rng = Rng::derive(&label, a.seed, 0, i);
        let v = T::gen(&mut rng);
        let rp = vec!["c13".into(), "--seed".into(), a.seed.to_string(), "--replay".into(), "value".into(), ty.to_string(), i.to_string()];
        check_value::<T>(ty, &v, &v.show(), rep, &mut rng, &rp);
    }
    mon::tick();
}

/// One `Encoder` value that keeps being used after a write was rejected: every later one-byte item
/// must be accepted exactly while there is room, and every rejection must be a write error.
fn encoder_reuse(rep: &mut Report, cap: usize, big: usize) {
    rep.eval();
    let mut c = Canary::new(cap, 8);
    let r = mon::guarded(|| {
        let mut e = Encoder::new(Cursor::new(c.sink()));
        let payload = vec![0x55u8; big];
        let first = e.bytes(&payload).map(|_| ()).map_err(|x| x.is_write());
        let head = 1 + if big < 24 { 0 } else if big < 256 { 1 } else { 2 };
        let fits = head + big <= cap;
        if first.is_ok() != fits {
            return Err(format!("bytes({}) into capacity {}: {:?}", big, cap, first));
        }
        if let Err(false) = first {
            return Err("the rejected write is not reported as a write error".to_string());
        }
        for j in 0..cap + 3 {
            let before = e.writer().position();
            let r = e.u8((j % 24) as u8).map(|_| ()).map_err(|x| x.is_write());
            match (r, before < cap) {
                (Ok(()), true) => {
                    if e.writer().position() != before + 1 {
                        return Err(format!("position {} -> {} after a one-byte item", before, e.writer().position()));
                    }
                }
                (Err(true), false) => {}
                (Ok(()), false) => return Err(format!("a one-byte item was accepted at position {} of capacity {}", before, cap)),
                (Err(w), true) => return Err(format!("after an earlier rejected write, a one-byte item is refused at position {} of capacity {} (write error: {})", before, cap, w)),
                (Err(false), false) => return Err("a full sink is reported as a non-write error".to_string()),
            }
        }
        Ok(())
    });
    let rp = vec!["c13".into(), "--replay".into(), "reuse".into(), cap.to_string(), big.to_string()];
    match r {
        Err(p) => fail(rep, "Encoder<Cursor<&mut [u8]>>", "reuse-panic", p.message, &rp),
        Ok(Err(e)) => fail(rep, "Encoder<Cursor<&mut [u8]>>", "reuse-after-rejected-write", e, &rp),
        Ok(Ok(())) => {
            if !c.intact() {
                fail(rep, "Encoder<Cursor<&mut [u8]>>", "overrun", format!("capacity {}", cap), &rp)
            } else {
                rep.count("encoder reused after a rejected write")
            }
        }
    }
}

/// Raw `write_all` sequences on every cursor kind, exhaustive for small capacities.
fn raw_sequences(a: &Args, rep: &mut Report) {
    let mut n = 0u64;
    let mut idx = 0u64;
    for cap in 0..=12usize {
        let m = cap + 2;
        for code in 0..(m * m * m) {
            idx += 1;
            if !a.mine(idx) {
                continue;
            }
            let lens = [code % m, (code / m) % m, code / (m * m)];
            // model
            let mut pos = 0usize;
            let mut want = vec![CANARY; cap];
            let mut outcomes = Vec::new();
            let mut next = 1u8;
            let chunks: Vec<Vec<u8>> = lens
                .iter()
                .map(|l| {
                    (0..*l)
                        .map(|_| {
                            next = next.wrapping_add(1);
                            next
                        })
                        .collect()
                })
                .collect();
            for c in &chunks {
                if pos + c.len() <= cap {
                    want[pos..pos + c.len()].copy_from_slice(c);
                    pos += c.len();
                    outcomes.push(true)
                } else {
                    outcomes.push(false)
                }
            }
            let rp = vec!["c13".into(), "--replay".into(), "raw".into(), cap.to_string(), code.to_string()];
            macro_rules! drive {
                ($name:expr, $cur:expr, $content:expr) => {{
                    rep.eval();
                    let mut cur = $cur;
                    let chunks_ref = &chunks;
                    let r = mon::guarded(move || {
                        let chunks = chunks_ref;
                        let mut got = Vec::new();
                        let mut positions = Vec::new();
                        for c in chunks.iter() {
                            got.push(cur.write_all(c).is_ok());
                            positions.push(cur.position());
                        }
                        let content: Vec<u8> = $content(cur);
                        (got, positions, content)
                    });
                    match r {
                        Err(p) => fail(rep, $name, "raw-write_all-panic", format!("capacity {} write lengths {:?}: {} at {}", cap, lens, p.message, p.location), &rp),
                        Ok((got, positions, content)) => {
                            if got != outcomes || *positions.last().unwrap() != pos || content != want {
                                fail(rep, $name, "raw-write_all", format!("capacity {} write lengths {:?}: results {:?} (model {:?}), final position {} (model {}), content {} (model {})", cap, lens, got, outcomes, positions.last().unwrap(), pos, hex(&content), hex(&want)), &rp);
                            }
                        }
                    }
                }};
            }
            {
                let mut c = Canary::new(cap, 8);
                drive!("Cursor<&mut [u8]>", Cursor::new(c.sink()), |cur: Cursor<&mut [u8]>| cur.into_inner().to_vec());
                if !c.intact() {
                    fail(rep, "Cursor<&mut [u8]>", "overrun", format!("capacity {} lengths {:?}", cap, lens), &rp)
                }
            }
            drive!("Cursor<Box<[u8]>>", Cursor::new(vec![CANARY; cap].into_boxed_slice()), |cur: Cursor<Box<[u8]>>| cur.into_inner().to_vec());
            macro_rules! arr {
                ($n:expr) => {
                    if cap == $n {
                        drive!("Cursor<[u8; N]>", Cursor::new([CANARY; $n]), |cur: Cursor<[u8; $n]>| cur.into_inner().to_vec());
                    }
                };
            }
            arr!(0);
            arr!(1);
            arr!(2);
            arr!(3);
            arr!(4);
            arr!(5);
            arr!(6);
            arr!(7);
            arr!(8);
            arr!(9);
            arr!(10);
            arr!(11);
            arr!(12);
            // plain slice writer: same outcomes, no position
            {
                rep.eval();
                let mut c = Canary::new(cap, 8);
                {
                    let mut s: &mut [u8] = c.sink();
                    let got: Vec<bool> = chunks.iter().map(|ch| s.write_all(ch).is_ok()).collect();
                    if got != outcomes {
                        fail(rep, "&mut [u8]", "raw-write_all", format!("capacity {} lengths {:?}: results {:?}, model {:?}", cap, lens, got, outcomes), &rp)
                    }
                }
                if !c.intact() || c.content() != &want[..] {
                    fail(rep, "&mut [u8]", "raw-write_all", format!("capacity {} lengths {:?}: content {} model {}", cap, lens, hex(c.content()), hex(&want)), &rp)
                }
            }
            n += 1;
        }
    }
    rep.enumerated(n);
    rep.exhaustive.push("all sequences of three raw write_all calls with lengths 0..=cap+1 on every cursor kind and the plain slice writer, capacities 0..=12".into());
}

pub fn run(a: &Args, rep: &mut Report) {
    let n: u64 = match a.tier.as_str() {
        "thorough" => 150_000,
        "asan" => 150,
        _ => 6_000,
    };
    macro_rules! m {
        ($t:ty) => {
            run_type::<$t>(a, rep, n)
        };
    }
    for_each_subject!(m);
    // the iterator adapters (definite with an exact size hint, indefinite + break otherwise)
    // and token slices: composite encoders with their own control flow around the item writes
    for i in 0..n {
        if !a.mine(i) {
            continue;
        }
        let mut rng = Rng::derive("c13/iter", a.seed, 0, i);
        let v: Vec<u32> = (0..rng.below(6)).map(|_| vcore::gen::gen_int(&mut rng, 32, false) as u32).collect();
        let rp = vec!["c13".into(), "--seed".into(), a.seed.to_string(), "--replay".into(), "iter".into(), i.to_string()];
        let show = format!("{:?}", v);
        check_value("ArrayIter(exact)", &minicbor::encode::ArrayIter::new(v.iter()), &show, rep, &mut rng, &rp);
        check_value("ArrayIter(inexact)", &minicbor::encode::ArrayIter::new(v.iter().filter(|_| true)), &show, rep, &mut rng, &rp);
        check_value("MapIter(exact)", &minicbor::encode::MapIter::new(v.iter().map(|x| (*x, x % 3 == 0))), &show, rep, &mut rng, &rp);
        check_value("MapIter(inexact)", &minicbor::encode::MapIter::new(v.iter().filter(|_| true).map(|x| (*x, x % 3 == 0))), &show, rep, &mut rng, &rp);
    }
    // single tokens (bare container / tag heads, breaks, indefinite starts included), token
    // vectors, and scripts of direct Encoder method calls: whether a write fits depends on the
    // bytes of that write alone, never on what the head announces
    for i in 0..n {
        if !a.mine(i) {
            continue;
        }
        let mut rng = Rng::derive("c13/tokens", a.seed, 0, i);
        let arena = crate::c01::Arena::new(&mut rng, 4);
        let rp = vec!["c13".into(), "--seed".into(), a.seed.to_string(), "--replay".into(), "tokens".into(), i.to_string()];
        let t = crate::c01::gen_token(&mut rng, &arena);
        check_value("Token", &t, &format!("{:?}", t), rep, &mut rng, &rp);
        let ts: Vec<minicbor::data::Token> = (0..rng.below(5)).map(|_| crate::c01::gen_token(&mut rng, &arena)).collect();
        check_value("Vec<Token>", &ts, &format!("{:?}", ts), rep, &mut rng, &rp);
        let sc = Script::gen(&mut rng);
        check_value("Encoder method script", &sc, &format!("{:?}", sc.0), rep, &mut rng, &rp);
    }
    raw_sequences(a, rep);
    {
        let mut k = 0u64;
        for cap in 0..=40usize {
            for big in [0usize, 1, 5, 23, 24, 30, 255, 256, 300] {
                k += 1;
                if a.mine(k) {
                    encoder_reuse(rep, cap, big);
                }
            }
        }
        rep.enumerated(k / a.nshards.max(1));
    }
    rep.sample(J::obj().with("value", J::s("(u16, String) = (1000, \"hé\")")).with("capacities", J::s("0..=len+1")).with("sinks", J::s("&mut [u8], Cursor<&mut [u8]>, Cursor<Box<[u8]>>, Writer<io::Cursor<&mut [u8]>>, Cursor<[u8; N]> for 10 N, &mut Vec, Writer<Vec>")));
}

pub fn replay(a: &Args, rep: &mut Report) {
    if a.replay[0] == "reuse" {
        return encoder_reuse(rep, a.replay[1].parse().unwrap(), a.replay[2].parse().unwrap());
    }
    if a.replay[0] == "iter" {
        let i: u64 = a.replay[1].parse().unwrap();
        let mut rng = Rng::derive("c13/iter", a.seed, 0, i);
        let v: Vec<u32> = (0..rng.below(6)).map(|_| vcore::gen::gen_int(&mut rng, 32, false) as u32).collect();
        let show = format!("{:?}", v);
        check_value("ArrayIter(exact)", &minicbor::encode::ArrayIter::new(v.iter()), &show, rep, &mut rng, &[]);
        check_value("ArrayIter(inexact)", &minicbor::encode::ArrayIter::new(v.iter().filter(|_| true)), &show, rep, &mut rng, &[]);
        check_value("MapIter(exact)", &minicbor::encode::MapIter::new(v.iter().map(|x| (*x, x % 3 == 0))), &show, rep, &mut rng, &[]);
        check_value("MapIter(inexact)", &minicbor::encode::MapIter::new(v.iter().filter(|_| true).map(|x| (*x, x % 3 == 0))), &show, rep, &mut rng, &[]);
        return;
    }
    match a.replay[0].as_str() {
        "value" => {
            let want = a.replay[1].as_str();
            let i: u64 = a.replay[2].parse().unwrap();
            macro_rules! m {
                ($t:ty) => {
                    if type_name::<$t>() == want {
                        let mut rng = Rng::derive(&format!("c13/{}", want), a.seed, 0, i);
                        let v = <$t as Subject>::gen(&mut rng);
                        println!("replaying {} value {}", want, v.show());
                        check_value::<$t>(want, &v, &v.show(), rep, &mut rng, &[]);
                    }
                };
            }
            for_each_subject!(m);
        }
        _ => {
            let one = Args { shard: 0, nshards: 1, ..a.clone() };
            raw_sequences(&one, rep)
        }
    }
}
