// Detect whether the verification hooks are present in the tree being checked
// (they are add-only and guarded by --cfg minicbor_verif; if somebody removed
// them the checks fall back to black-box monitoring and say so).
use std::fs;

fn main() {
    println!("cargo:rerun-if-changed=/repo/minicbor/src/lib.rs");
    println!("cargo:rerun-if-changed=/repo/minicbor/src/verif.rs");
    println!("cargo:rerun-if-changed=/repo/minicbor-io/src/async_reader.rs");
    println!("cargo:rerun-if-changed=/repo/minicbor-io/src/async_writer.rs");
    println!("cargo:rustc-check-cfg=cfg(have_step_hook, have_stack_hook, have_io_hook, minicbor_verif)");
    let lib = fs::read_to_string("/repo/minicbor/src/lib.rs").unwrap_or_default();
    let verif = fs::read_to_string("/repo/minicbor/src/verif.rs").unwrap_or_default();
    let dec = fs::read_to_string("/repo/minicbor/src/decode/decoder.rs").unwrap_or_default();
    if lib.contains("pub mod verif") && verif.contains("pub fn reset") && verif.contains("pub fn steps") && dec.contains("crate::verif::step()") {
        println!("cargo:rustc-cfg=have_step_hook");
        if verif.contains("pub fn stack_reset") && verif.contains("pub fn stack_low") {
            println!("cargo:rustc-cfg=have_stack_hook");
        }
    }
    let r = fs::read_to_string("/repo/minicbor-io/src/async_reader.rs").unwrap_or_default();
    let w = fs::read_to_string("/repo/minicbor-io/src/async_writer.rs").unwrap_or_default();
    if r.contains("pub fn verif_state") && w.contains("pub fn verif_state") {
        println!("cargo:rustc-cfg=have_io_hook");
    }
}
