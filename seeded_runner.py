#!/usr/bin/env python3
"""Seeded breaking changes: import (with independent confirmation) and run.

  ./run.py seeded import <agent-out-dir> <name> <property-id>
        confirm in a scratch worktree that the change compiles, passes the
        existing suite, that the demonstration passes without and fails with
        it; then store it as seeded/<name>/ (patch.diff, demo.rs, meta.json)
  ./run.py seeded run [<name> ...] [--tier quick]
        for every stored change: apply it to /repo, run the check(s) of its
        property, record whether a VIOLATION was reported, undo it.
"""
import json
import os
import re
import shutil
import subprocess
import sys
import time

ROOT = os.path.dirname(os.path.abspath(__file__))
SEEDED = os.path.join(ROOT, "seeded")
REPO = "/repo"
SCRATCH = os.environ.get("SEED_SCRATCH", "/tmp/seedverify")  # override to import several changes at once
SCRATCH_TARGET = SCRATCH + "-target"
ENV = dict(os.environ, CARGO_NET_OFFLINE="true", CARGO_TERM_COLOR="never")


def sh(cmd, cwd=None, env=None, timeout=3600):
    p = subprocess.run(cmd, cwd=cwd, env=env or ENV, shell=isinstance(cmd, str), stdout=subprocess.PIPE, stderr=subprocess.STDOUT, text=True, timeout=timeout)
    return p.returncode, p.stdout


def parse_demo(txt):
    m = re.search(r"[Cc]opy (?:the file |\S*demo\.rs |it )?(?:to|as) +`?([A-Za-z0-9_./-]+\.rs)`?", txt)
    dest = m.group(1) if m else None
    cmd = None
    for line in txt.splitlines():
        mm = re.search(r"(cargo (?:\+\w+ )?(?:test|run)[^`\n]*)", line)
        if mm:
            cmd = mm.group(1).strip().rstrip(".;")
            break
    return dest, cmd


def do_import(src, name, pid):
    patch = open(os.path.join(src, "patch.diff")).read()
    demo = open(os.path.join(src, "demo.rs")).read()
    demotxt = open(os.path.join(src, "demo.txt")).read()
    readme = open(os.path.join(src, "README.md")).read() if os.path.exists(os.path.join(src, "README.md")) else ""
    dest, cmd = parse_demo(demotxt)
    if not dest or not cmd:
        print("cannot parse demo.txt: dest=%r cmd=%r" % (dest, cmd))
        return 2
    if os.path.isdir(SCRATCH):
        sh(["git", "-C", REPO, "worktree", "remove", "--force", SCRATCH])
        shutil.rmtree(SCRATCH, ignore_errors=True)
    rc, out = sh(["git", "-C", REPO, "worktree", "add", "--detach", SCRATCH, "HEAD"])
    if rc != 0:
        print(out)
        return 2
    env = dict(ENV, CARGO_TARGET_DIR=SCRATCH_TARGET)
    ran = []
    ok = False
    try:
        os.makedirs(os.path.dirname(os.path.join(SCRATCH, dest)), exist_ok=True)
        with open(os.path.join(SCRATCH, dest), "w") as f:
            f.write(demo)
        rc0, out0 = sh(cmd, cwd=SCRATCH, env=env)
        ran.append({"cmd": cmd, "tree": "unchanged", "rc": rc0})
        if rc0 != 0:
            print("REJECT %s: demo fails on the unchanged tree\n%s" % (name, out0[-1500:]))
            return 1
        rc, out = sh(["git", "apply", os.path.join(os.path.abspath(src), "patch.diff")], cwd=SCRATCH)
        if rc != 0:
            print("REJECT %s: patch does not apply\n%s" % (name, out))
            return 1
        rc1, out1 = sh(cmd, cwd=SCRATCH, env=env)
        ran.append({"cmd": cmd, "tree": "changed", "rc": rc1})
        if rc1 == 0:
            print("REJECT %s: demo passes with the change" % name)
            return 1
        if "error[" in out1 or "could not compile" in out1:
            print("REJECT %s: change or demo does not compile with the change\n%s" % (name, out1[-1500:]))
            return 1
        os.remove(os.path.join(SCRATCH, dest))
        suite = "cargo test --workspace --no-fail-fast --offline"
        rc2, out2 = sh(suite, cwd=SCRATCH, env=env)
        ran.append({"cmd": suite, "tree": "changed", "rc": rc2})
        npass = sum(int(x) for x in re.findall(r"test result: ok\. (\d+) passed", out2))
        nfail = len(re.findall(r"test result: FAILED", out2))
        if rc2 != 0 or nfail:
            print("REJECT %s: existing suite fails with the change\n%s" % (name, out2[-1500:]))
            return 1
        ok = True
        d = os.path.join(SEEDED, name)
        os.makedirs(d, exist_ok=True)
        with open(os.path.join(d, "patch.diff"), "w") as f:
            f.write(patch)
        with open(os.path.join(d, "demo.rs"), "w") as f:
            f.write(demo)
        meta = {
            "name": name,
            "property": pid,
            "needs_to_manifest": readme.strip(),
            "demo": {"place_at": dest, "cmd": cmd},
            "confirmed": {"demo_passes_unchanged": True, "demo_fails_with_change": True, "existing_suite_with_change": "%d passed, 0 failed" % npass, "ran": ran, "in": "scratch git worktree of /repo HEAD (removed afterwards)"},
            "origin": "fresh sub-agent given only the property text and a scratch worktree",
        }
        with open(os.path.join(d, "meta.json"), "w") as f:
            json.dump(meta, f, indent=1)
        print("ACCEPT %s (property %s): suite %d passed; demo fails with the change, passes without" % (name, pid, npass))
        return 0
    finally:
        sh(["git", "-C", REPO, "worktree", "remove", "--force", SCRATCH])
        shutil.rmtree(SCRATCH, ignore_errors=True)
        if not ok:
            pass


def repo_clean():
    rc, out = sh(["git", "-C", REPO, "status", "--porcelain"])
    return out.strip() == ""


def make_sandbox(sb):
    """Relocated copy: <sb>/repo (clone of /repo HEAD) and <sb>/verif (working tree of /verif
    without build output, every "/repo/" path rewritten).  Lets seeded changes be run without
    touching /repo; the registered checks themselves always run in /verif against /repo."""
    if os.path.isdir(sb):
        shutil.rmtree(sb)
    os.makedirs(sb)
    rc, out = sh(["git", "clone", "-q", "/repo", os.path.join(sb, "repo")])
    if rc != 0:
        raise RuntimeError(out)
    rc, out = sh(["rsync", "-a", "--exclude", "target*", "--exclude", "harness/gen", "--exclude", ".git", "--exclude", "replays", "--exclude", "__pycache__", ROOT + "/", os.path.join(sb, "verif") + "/"])
    if rc != 0:
        raise RuntimeError(out)
    newrepo = os.path.join(sb, "repo")
    for dp, dn, fn in os.walk(os.path.join(sb, "verif")):
        if "seeded" in dp.split(os.sep):
            continue
        for f in fn:
            if f.endswith((".toml", ".py", ".rs")):
                path = os.path.join(dp, f)
                txt = open(path).read()
                if "/repo" in txt:
                    open(path, "w").write(txt.replace('"/repo/', '"%s/' % newrepo).replace("=/repo/", "=%s/" % newrepo).replace('REPO = "/repo"', 'REPO = "%s"' % newrepo))
    return newrepo, os.path.join(sb, "verif")


def do_run(names, tier, checks_override=None, sandbox=None):
    global REPO
    root = ROOT
    if sandbox:
        REPO, root = make_sandbox(sandbox)
    if not repo_clean():
        print("%s has uncommitted changes; refusing to run" % REPO)
        return 2
    results_path = os.path.join(SEEDED, "RESULTS%s.json" % ("" if not sandbox else "." + os.path.basename(sandbox)))
    results = json.load(open(results_path)) if os.path.exists(results_path) else {}
    if not names:
        names = sorted(n for n in os.listdir(SEEDED) if os.path.isdir(os.path.join(SEEDED, n)))
    rc_all = 0
    for name in names:
        d = os.path.join(SEEDED, name)
        meta = json.load(open(os.path.join(d, "meta.json")))
        checks = checks_override or meta.get("checks") or [meta["property"]]
        rc, out = sh(["git", "-C", REPO, "apply", os.path.join(d, "patch.diff")])
        if rc != 0:
            print("%s: patch does not apply: %s" % (name, out))
            rc_all = 1
            continue
        try:
            res = {}
            for c in checks:
                t0 = time.time()
                rc, out = sh([os.path.join(root, "run.py"), "check", c, tier], cwd=root, timeout=7200)
                sigs = re.findall(r"signature: (.*)", out)
                caught = rc == 1 and "VIOLATION property=%s" % c in out
                res[c] = {"rc": rc, "caught": caught, "wall_s": round(time.time() - t0, 1), "signatures": sigs[:6], "inconclusive": re.findall(r"INCONCLUSIVE.*", out)[:2]}
                print("%s: check %s %s -> rc=%d %s (%.0fs) %s" % (name, c, tier, rc, "CAUGHT" if caught else "MISSED", time.time() - t0, sigs[:2]))
            results[name] = {"property": meta["property"], "tier": tier, "checks": res, "caught_by": [c for c, r in res.items() if r["caught"]]}
        finally:
            sh(["git", "-C", REPO, "checkout", "--", "."])
            sh(["git", "-C", REPO, "clean", "-fdq", "--", "minicbor", "minicbor-derive", "minicbor-io", "minicbor-serde"])
        with open(results_path, "w") as f:
            json.dump(results, f, indent=1, sort_keys=True)
    if not repo_clean():
        print("WARNING: %s not clean after the run" % REPO)
    if sandbox:
        shutil.rmtree(sandbox, ignore_errors=True)
    return rc_all


def main(argv):
    if argv and argv[0] == "import":
        return do_import(argv[1], argv[2], argv[3])
    if argv and argv[0] == "table":
        return table()
    if argv and argv[0] == "run":
        tier = "quick"
        names = []
        checks = None
        sandbox = None
        i = 1
        while i < len(argv):
            if argv[i] == "--tier":
                tier = argv[i + 1]
                i += 2
            elif argv[i] == "--sandbox":
                sandbox = argv[i + 1]
                i += 2
            elif argv[i] == "--checks":
                checks = argv[i + 1].split(",")
                i += 2
            else:
                names.append(argv[i])
                i += 1
        return do_run(names, tier, checks, sandbox)
    print(__doc__)
    return 2




def consolidate():
    """Merge seeded/RESULTS*.json (one per sandbox run) into seeded/RESULTS.json, keeping the
    history of every change: the first run (before any strengthening) and the latest."""
    import glob
    main = os.path.join(SEEDED, "RESULTS.json")
    merged = json.load(open(main)) if os.path.exists(main) else {}
    for k, v in list(merged.items()):
        if "history" not in v:
            merged[k] = {"property": v["property"], "history": [dict(v, source="in place")]}
    parts = sorted((p for p in glob.glob(os.path.join(SEEDED, "RESULTS.*.json"))), key=os.path.getmtime)
    for p in parts:
        src = os.path.basename(p)[len("RESULTS."):-len(".json")]
        for k, v in json.load(open(p)).items():
            e = merged.setdefault(k, {"property": v["property"], "history": []})
            e["history"].append(dict(v, source="sandbox " + src))
        os.remove(p)
    with open(main, "w") as f:
        json.dump(merged, f, indent=1, sort_keys=True)
    return merged


def table():
    merged = consolidate()
    rows = ["| change | property | needs to manifest (short) | first run | latest run | signatures (latest) |", "|---|---|---|---|---|---|"]
    import re
    pre = set(re.findall(r"(C\d\d-[A-Z]) †", open(os.path.join(ROOT, "DESIGN.md")).read()))
    for name in sorted(merged):
        e = merged[name]
        h = e["history"]
        meta = json.load(open(os.path.join(SEEDED, name, "meta.json")))
        need = meta.get("needs_to_manifest", "").strip().splitlines()
        title = need[0].lstrip("# ").strip() if need else ""
        def verdict(r):
            c = r["checks"]
            return ", ".join("%s %s" % (k, "caught" if x["caught"] else ("inconclusive" if x["rc"] == 2 else "missed")) for k, x in c.items())
        sigs = []
        for x in h[-1]["checks"].values():
            sigs += [s.split(" (x")[0] for s in x["signatures"][:2]]
        rows.append("| %s | %s | %s | %s | %s | %s |" % (name, e["property"], title[:110].replace("|", "/"), verdict(h[0]) + (" †" if name in pre else ""), verdict(h[-1]) if len(h) > 1 else "=", "; ".join("`%s`" % s.replace("|", "\\|") for s in sigs[:2])))
    print("\n".join(rows))
    return 0


if __name__ == "__main__":
    sys.exit(main(sys.argv[1:]))
