#!/usr/bin/env python3
"""Schema generator for the derive macros (C07 derived part, C08, C09, C10).

Generates *programs*: a Rust crate whose types carry #[derive(Encode, Decode,
CborLen)] with attributes drawn from a grammar covering every value-affecting
attribute of minicbor-derive, together with, per type, a value generator, a
conversion into the schema-generic `View`, a borrow check, and the schema
description as data.  The reference semantics live in harness/dsupport and
interpret the *description*, never the macro output.

usage: gen_schemas.py <out-dir> <seed> <n-types> <n-chains>
"""
import os
import random
import sys

# --------------------------------------------------------------------------- leaf types


class T:
    """A field type: Rust spelling, schema Ty, generator / view / borrow-check expression builders."""

    def __init__(self, rust, ty, gen, view, lifetime=False, default=True, attrs=None, borrow=None, b_only=False, n_only=False, nilable=False, opt_inner=None, cbor_attrs=None):
        self.rust = rust
        self.ty = ty
        self.gen = gen          # expression using rng, arena, p, depth
        self.view = view        # function: reference-expression -> View expression
        self.lifetime = lifetime
        self.default = default  # implements Default (usable with skip)
        self.attrs = attrs or []  # extra cbor(...) items required by the type (codec)
        self.borrow = borrow    # function: (reference-expression, is_b) -> statement(s) or None
        self.b_only = b_only
        self.n_only = n_only
        self.nilable = nilable
        self.free_b = False   # the #[b] / #[n] choice is free although the type has a lifetime


def prim_u(bits, rust):
    return T(rust, "Ty::U%d" % bits, "vcore::gen::gen_int(rng, %d, false) as %s" % (bits, rust), lambda x: "View::U(*%s as u64)" % x)


def prim_i(bits, rust):
    return T(rust, "Ty::I%d" % bits, "vcore::gen::gen_int(rng, %d, true) as %s" % (bits, rust), lambda x: "View::I(*%s as i64)" % x)


WITHIN = "vcore::mon::within(input, %s.as_ptr(), %s.len())"


def bchk(name):
    def f(x, is_b):
        return "if !%s { return Err(\"%s field does not point into the input\".into()) }" % (WITHIN % (x, x), name)
    return f


def cow_chk(name):
    def f(x, is_b):
        if not is_b:
            return None
        return ("match %s { std::borrow::Cow::Borrowed(s) => if !%s { return Err(\"%s under #[b] does not point into the input\".into()) }, "
                "std::borrow::Cow::Owned(_) => return Err(\"%s under #[b] is an owned copy\".into()) }") % (x, WITHIN % ("s", "s"), name, name)
    return f


U8, U16, U32, U64 = prim_u(8, "u8"), prim_u(16, "u16"), prim_u(32, "u32"), prim_u(64, "u64")
I8, I16, I32, I64 = prim_i(8, "i8"), prim_i(16, "i16"), prim_i(32, "i32"), prim_i(64, "i64")
PHANTOM = T("core::marker::PhantomData<u16>", "Ty::Phantom", "core::marker::PhantomData", lambda x: "View::Seq(vec![])")
BOOL = T("bool", "Ty::Bool", "rng.bool()", lambda x: "View::Bool(*%s)" % x)
CHAR = T("char", "Ty::Char", "vcore::gen::gen_char(rng)", lambda x: "View::Char(*%s)" % x)
F32 = T("f32", "Ty::F32", "f32::from_bits(vcore::gen::gen_f32_bits(rng))", lambda x: "View::F32(%s.to_bits())" % x)
F64 = T("f64", "Ty::F64", "f64::from_bits(vcore::gen::gen_f64_bits(rng))", lambda x: "View::F64(%s.to_bits())" % x)
STRING = T("String", "Ty::Str", "vcore::gen::gen_string(rng, false)", lambda x: "View::Str(%s.to_string())" % x)
STR_REF = T("&'a str", "Ty::Str", "arena.str(rng)", lambda x: "View::Str(%s.to_string())" % x, lifetime=True, default=False, borrow=bchk("&str"))
COW_STR = T("std::borrow::Cow<'a, str>", "Ty::Str", "{ let s = arena.str(rng); if rng.bool() { std::borrow::Cow::Borrowed(s) } else { std::borrow::Cow::Owned(s.to_string()) } }",
            lambda x: "View::Str(%s.to_string())" % x, lifetime=True, default=False, borrow=cow_chk("Cow<str>"))
BYTEVEC = T("minicbor::bytes::ByteVec", "Ty::Bytes", "minicbor::bytes::ByteVec::from(vcore::gen::gen_bytes(rng, false))", lambda x: "View::Bytes(%s.to_vec())" % x, default=False)
BYTESLICE_REF = T("&'a minicbor::bytes::ByteSlice", "Ty::Bytes", "{ let b: &minicbor::bytes::ByteSlice = arena.bytes(rng).into(); b }", lambda x: "View::Bytes(%s.to_vec())" % x, lifetime=True, default=False, borrow=bchk("&ByteSlice"))
COW_BYTESLICE = T("std::borrow::Cow<'a, minicbor::bytes::ByteSlice>", "Ty::Bytes",
                  "{ let b: &minicbor::bytes::ByteSlice = arena.bytes(rng).into(); if rng.bool() { std::borrow::Cow::Borrowed(b) } else { std::borrow::Cow::Owned(b.to_owned()) } }",
                  lambda x: "View::Bytes(%s.to_vec())" % x, lifetime=True, default=False, borrow=cow_chk("Cow<ByteSlice>"))
BYTES_VEC = T("Vec<u8>", "Ty::Bytes", "vcore::gen::gen_bytes(rng, false)", lambda x: "View::Bytes(%s.to_vec())" % x, attrs=['with = "minicbor::bytes"'])
BYTES_ARR = T("[u8; 5]", "Ty::Bytes", "{ let b = rng.bytes(5); [b[0], b[1], b[2], b[3], b[4]] }", lambda x: "View::Bytes(%s.to_vec())" % x, attrs=['with = "minicbor::bytes"'])
BYTES_REF = T("&'a [u8]", "Ty::Bytes", "arena.bytes(rng)", lambda x: "View::Bytes(%s.to_vec())" % x, lifetime=True, default=False, attrs=['with = "minicbor::bytes"'], borrow=bchk("&[u8]"))
BYTES_COW = T("std::borrow::Cow<'a, [u8]>", "Ty::Bytes", "{ let b = arena.bytes(rng); if rng.bool() { std::borrow::Cow::Borrowed(b) } else { std::borrow::Cow::Owned(b.to_vec()) } }",
              lambda x: "View::Bytes(%s.to_vec())" % x, lifetime=True, default=False, attrs=['with = "minicbor::bytes"'], borrow=cow_chk("Cow<[u8]>"))
BYTES_OPT_REF = T("Option<&'a [u8]>", "Ty::Opt(Box::new(Ty::Bytes))", "if p.present(rng) { Some(arena.bytes(rng)) } else { None }",
                  lambda x: "match %s { None => View::None, Some(b) => View::Some(Box::new(View::Bytes(b.to_vec()))) }" % x, lifetime=True, attrs=['with = "minicbor::bytes"'], nilable=True,
                  borrow=lambda x, is_b: "if let Some(s) = %s { if !%s { return Err(\"Option<&[u8]> field does not point into the input\".into()) } }" % (x, WITHIN % ("s", "s")))
BYTES_OPT_VEC = T("Option<Vec<u8>>", "Ty::Opt(Box::new(Ty::Bytes))", "if p.present(rng) { Some(vcore::gen::gen_bytes(rng, false)) } else { None }",
                  lambda x: "match %s { None => View::None, Some(b) => View::Some(Box::new(View::Bytes(b.to_vec()))) }" % x, attrs=['with = "minicbor::bytes"'], nilable=True)
BYTES_OPT_VEC_Q = T("std::option::Option<Vec<u8>>", "Ty::Opt(Box::new(Ty::Bytes))", "if p.present(rng) { Some(vcore::gen::gen_bytes(rng, false)) } else { None }",
                    lambda x: "match %s { None => View::None, Some(b) => View::Some(Box::new(View::Bytes(b.to_vec()))) }" % x, attrs=['with = "minicbor::bytes"'], nilable=True)
BYTES_OPT_VEC_C = T("core::option::Option<Vec<u8>>", "Ty::Opt(Box::new(Ty::Bytes))", "if p.present(rng) { Some(vcore::gen::gen_bytes(rng, false)) } else { None }",
                    lambda x: "match %s { None => View::None, Some(b) => View::Some(Box::new(View::Bytes(b.to_vec()))) }" % x, attrs=['with = "minicbor::bytes"'], nilable=True)
NIL_WITH = T("u32", "Ty::NilU32", "if p.present(rng) { 1 + (vcore::gen::gen_int(rng, 31, false) as u32) } else { 0 }", lambda x: "View::U(*%s as u64)" % x,
             attrs=['with = "dsupport::codecs::nilu32"', "has_nil"], nilable=True)
NIL_FNS = T("u32", "Ty::NilU32", "if p.present(rng) { 1 + (vcore::gen::gen_int(rng, 31, false) as u32) } else { 0 }", lambda x: "View::U(*%s as u64)" % x,
            attrs=['encode_with = "dsupport::codecs::nilu32::encode"', 'decode_with = "dsupport::codecs::nilu32::decode"', 'is_nil = "dsupport::codecs::nilu32::is_nil"', 'nil = "dsupport::codecs::nilu32::nil"', 'cbor_len = "dsupport::codecs::nilu32::cbor_len"'], nilable=True)

_TRI_GEN = "match rng.below(4) { 0 => dsupport::codecs::tri::Tri::Keep, 1 => dsupport::codecs::tri::Tri::Clear, _ => dsupport::codecs::tri::Tri::Set(vcore::gen::gen_int(rng, 8, false) as u8) }"
_TRI_VIEW = lambda x: "match %s { dsupport::codecs::tri::Tri::Keep => View::U(0), dsupport::codecs::tri::Tri::Clear => View::U(1), dsupport::codecs::tri::Tri::Set(n) => View::U(*n as u64 + 2) }" % x
TRI_WITH = T("dsupport::codecs::tri::Tri", "Ty::Tri", _TRI_GEN, _TRI_VIEW, attrs=['with = "dsupport::codecs::tri"', "has_nil"], nilable=True)
TRI_FNS = T("dsupport::codecs::tri::Tri", "Ty::Tri", _TRI_GEN, _TRI_VIEW,
            attrs=['encode_with = "dsupport::codecs::tri::encode"', 'decode_with = "dsupport::codecs::tri::decode"', 'is_nil = "dsupport::codecs::tri::is_nil"', 'nil = "dsupport::codecs::tri::nil"', 'cbor_len = "dsupport::codecs::tri::cbor_len"'], nilable=True)

for _t in (STR_REF, COW_STR, BYTESLICE_REF, COW_BYTESLICE, BYTES_REF, BYTES_COW, BYTES_OPT_REF):
    _t.free_b = True   # implicit borrowing (&str, &[u8], &ByteSlice, Option of those) or Cow (owned when not #[b])

PLAIN = [U8, U16, U32, U64, I8, I16, I32, I64, BOOL, CHAR, F32, F64, STRING, BYTEVEC]
BORROWING = [STR_REF, COW_STR, BYTESLICE_REF, COW_BYTESLICE, BYTES_REF, BYTES_COW]
CODEC = [BYTES_VEC, BYTES_ARR, BYTES_OPT_REF, BYTES_OPT_VEC, BYTES_OPT_VEC_Q, BYTES_OPT_VEC_C, NIL_WITH, NIL_FNS]


OPT_COUNTER = [0]


def opt(t):
    if t.attrs:
        raise ValueError("codec types are wrapped explicitly")
    if t.borrow:
        b = lambda x, is_b, t=t: (lambda inner: "if let Some(s) = %s { %s }" % (x, inner) if inner else None)(t.borrow("s", is_b))
    else:
        b = None
    # the three spellings of the same type must be treated alike by the macros
    OPT_COUNTER[0] += 1
    spelling = "std::option::Option" if OPT_COUNTER[0] % 5 == 0 else ("core::option::Option" if OPT_COUNTER[0] % 7 == 0 else "Option")
    r = T("%s<%s>" % (spelling, t.rust), "Ty::Opt(Box::new(%s))" % t.ty, "if p.present(rng) { Some(%s) } else { None }" % t.gen,
          lambda x, t=t: "match %s { None => View::None, Some(s) => View::Some(Box::new(%s)) }" % (x, t.view("s")), lifetime=t.lifetime, borrow=b, nilable=True)
    r.free_b = t in (STR_REF, BYTESLICE_REF)
    return r


ALIASES = {}   # alias name -> aliased Rust type (emitted as `pub type`)


def alias(t):
    """The same type behind a `type` alias: the macros see a bare path, not `Option<..>` / `Vec<..>`."""
    import copy
    if t.lifetime or t.attrs:
        return t
    name = "Al" + "".join(c for c in t.rust.title() if c.isalnum())
    ALIASES[name] = t.rust
    a = copy.copy(t)
    a.rust = name
    return a


def tagged(n, t):
    """`minicbor::data::Tagged<N, T>` as a field type (not the `tag` attribute): the tag is part of the value."""
    if t.attrs or t.borrow:
        raise ValueError("plain owned types only")
    return T("minicbor::data::Tagged<%d, %s>" % (n, t.rust), "Ty::Tagged(%d, Box::new(%s))" % (n, t.ty), "minicbor::data::Tagged::<%d, %s>::new(%s)" % (n, t.rust, t.gen),
             lambda x, t=t: "{ let inner = %s.value(); %s }" % (x, t.view("inner")), lifetime=False, default=False)


def boxed(t):
    """`Box<T>`: encodes as T, never nil itself (is_nil / nil are not forwarded)."""
    return T("Box<%s>" % t.rust, "Ty::Opaque(Box::new(%s))" % t.ty, "Box::new(%s)" % t.gen,
             lambda x, t=t: "{ let inner = &**%s; %s }" % (x, t.view("inner")), lifetime=False, default=False)


def cow_owned(t):
    """`Cow<'static, T>` of a sized T: encodes as T, decodes into `Owned`, never nil itself."""
    return T("std::borrow::Cow<'static, %s>" % t.rust, "Ty::Opaque(Box::new(%s))" % t.ty,
             "{ let v: %s = %s; std::borrow::Cow::Owned(v) }" % (t.rust, t.gen),
             lambda x, t=t: "{ let inner = &**%s; %s }" % (x, t.view("inner")), lifetime=False, default=False)


def shared_ref(t):
    """`&'a T` (encode only): `Encode for &T` forwards everything including `is_nil`, so the field
    behaves like a field of type T.  The referent is leaked (a few hundred small values per run)."""
    return T("&'a %s" % t.rust, t.ty, "{ let v: %s = %s; let r: &'static %s = Box::leak(Box::new(v)); r }" % (t.rust, t.gen, t.rust),
             lambda x, t=t: "{ let inner = &**%s; %s }" % (x, t.view("inner")), lifetime=True, default=False)


def mut_ref(t):
    """`&'a mut T` (encode only), like `shared_ref`."""
    return T("&'a mut %s" % t.rust, t.ty, "{ let v: %s = %s; Box::leak(Box::new(v)) }" % (t.rust, t.gen),
             lambda x, t=t: "{ let inner = &**%s; %s }" % (x, t.view("inner")), lifetime=True, default=False)


def vec(t):
    if t.borrow:
        b = lambda x, is_b, t=t: (lambda inner: "for s in %s.iter() { %s }" % (x, inner) if inner else None)(t.borrow("s", is_b))
    else:
        b = None
    return T("Vec<%s>" % t.rust, "Ty::Vec(Box::new(%s))" % t.ty, "{ let n = rng.below(4); let mut v = Vec::new(); for _ in 0..n { v.push(%s) } v }" % t.gen,
             lambda x, t=t: "View::Seq(%s.iter().map(|s| %s).collect())" % (x, t.view("s")), lifetime=t.lifetime, borrow=b)


def bmap(t):
    return T("std::collections::BTreeMap<u8, %s>" % t.rust, "Ty::Map(Box::new(Ty::U8), Box::new(%s))" % t.ty,
             "{ let n = rng.below(4); let mut m = std::collections::BTreeMap::new(); for _ in 0..n { let k = vcore::gen::gen_int(rng, 8, false) as u8; m.insert(k, %s); } m }" % t.gen,
             lambda x, t=t: "View::Map(%s.iter().map(|(k, s)| (View::U(*k as u64), %s)).collect())" % (x, t.view("s")), lifetime=t.lifetime)


def named(td):
    lt = "<'a>" if td.lifetime else ""
    if td.params:
        lt = "<%s>" % ", ".join(c for _, c in td.params)
    b = (lambda x, is_b: "%s.borrow_check(input)?;" % x) if td.lifetime else None
    return T(td.name + lt, 'Ty::Named("%s")' % td.name, "<%s%s as Case>::gen(rng, arena, &mut Presence::random(), depth + 1)" % (td.name, lt),
             lambda x: "%s.view()" % x, lifetime=td.lifetime, default=False, borrow=b)


# --------------------------------------------------------------------------- type definitions

class Field:
    def __init__(self, name, index, t, borrow_attr=False, tag=None, skip=False, decl=None):
        self.name, self.index, self.t, self.b, self.tag, self.skip = name, index, t, borrow_attr, tag, skip
        self.decl = decl   # spelling in the type definition when it differs from the concrete type (a type parameter)


class TypeDef:
    def __init__(self, name):
        self.name = name
        self.kind = "struct"          # struct | enum
        self.shape = "named"          # named | tuple | unit   (struct)
        self.encoding = None          # None | array | map
        self.tag = None
        self.transparent = False
        self.index_only = False
        self.fields = []
        self.variants = []            # (name, index, shape, encoding-override, tag, fields)
        self.lifetime = False
        self.params = []              # [(parameter name, concrete Rust type)] of a generic definition
        self.len_only = False         # only the length / bounded-sink checks run it (wire format not documented)
        self.encode_only = False      # derives Encode + CborLen only (the Decode derive rejects the shape)

    def eff_enc(self, override=None):
        e = override or self.encoding or "array"
        return "Encoding::Array" if e == "array" else "Encoding::Map"


def field_attr(f):
    if f.skip:
        return "#[cbor(skip)]"
    items = ["%s(%d)" % ("b" if f.b else "n", f.index)]
    if f.tag is not None:
        items.append("tag(%d)" % f.tag)
    extra = list(f.t.attrs)
    if len(extra) > 2:
        # the order of separate codec attributes must not matter: rotate / reverse it per field
        k = (f.index + len(f.name)) % (len(extra) + 1)
        extra = extra[::-1] if k == len(extra) else extra[k:] + extra[:k]
    items += extra
    if f.b and f.t.lifetime and not f.t.free_b:
        # the borrow is needed for the program to compile at all: keep it in the short spelling, so
        # that the `cbor(b(..))` spelling is exercised where its effect is observable at run time
        # (Cow / &str / &[u8] fields, whose provenance is monitored) rather than as a build failure
        rest = items[1:]
        return "#[%s]%s" % (items[0], " #[cbor(%s)]" % ", ".join(rest) if rest else "")
    # alternate between the short and the cbor(...) spelling of the index
    if len(items) == 1 and f.index % 2 == 0:
        return "#[%s]" % items[0]
    return "#[cbor(%s)]" % ", ".join(items)


def emit_fields_decl(fields, shape, pub="pub "):
    if shape == "unit":
        return ""
    if shape == "named":
        return "{ " + " ".join("%s %s%s: %s," % (field_attr(f), pub, f.name, f.decl or f.t.rust) for f in fields) + " }"
    return "(" + " ".join("%s %s%s," % (field_attr(f), pub, f.decl or f.t.rust) for f in fields) + ")"


def schema_fields(fields):
    # schema order: by index, skipped last
    fs = sorted([f for f in fields if not f.skip], key=lambda f: f.index) + [f for f in fields if f.skip]
    return fs


def emit_field_schema(f):
    return "FieldSchema { index: %d, tag: %s, skip: %s, ty: %s, borrow: %s }" % (
        f.index if not f.skip else 0, "Some(%d)" % f.tag if f.tag is not None else "None", "true" if f.skip else "false", f.t.ty, "true" if f.b else "false")


def emit_type(td):
    out = []
    lt = "<'a>" if td.lifetime else ""
    dlt = lt          # generics of the definition
    if td.params:
        assert not td.lifetime
        dlt = "<%s>" % ", ".join(p for p, _ in td.params)
        lt = "<%s>" % ", ".join(c for _, c in td.params)
    attrs = []
    if td.encoding:
        attrs.append("#[cbor(%s)]" % td.encoding)
    if td.tag is not None:
        attrs.append("#[cbor(tag(%d))]" % td.tag)
    if td.transparent:
        attrs.append("#[cbor(transparent)]")
    if td.index_only:
        attrs.append("#[cbor(index_only)]")
    out.append("#[derive(Debug, minicbor::Encode, minicbor::CborLen)]" if td.encode_only else "#[derive(Debug, minicbor::Encode, minicbor::Decode, minicbor::CborLen)]")
    out += attrs
    if td.kind == "struct":
        decl = emit_fields_decl(td.fields, td.shape)
        out.append("pub struct %s%s %s%s" % (td.name, dlt, decl, ";" if td.shape != "named" else ""))
    else:
        vs = []
        for (vn, vi, vshape, venc, vtag, vfields) in td.variants:
            va = ["#[n(%d)]" % vi]
            if venc:
                va.append("#[cbor(%s)]" % venc)
            if vtag is not None:
                va.append("#[cbor(tag(%d))]" % vtag)
            vs.append("%s %s %s," % (" ".join(va), vn, emit_fields_decl(vfields, vshape, pub="")))
        out.append("pub enum %s%s { %s }" % (td.name, dlt, " ".join(vs)))
    if td.encode_only:
        out.append("impl<%s'b, C> minicbor::Decode<'b, C> for %s%s { fn decode(_: &mut minicbor::Decoder<'b>, _: &mut C) -> Result<Self, minicbor::decode::Error> { Err(minicbor::decode::Error::message(\"encode-only type\")) } }" % ("'a, " if td.lifetime else "", td.name, lt))
    # family
    out.append("pub struct %sFam; impl Fam for %sFam { const NAME: &'static str = \"%s\"; type T<'a> = %s%s; }" % (td.name, td.name, td.name, td.name, lt))
    # Case impl
    def gen_block(fields, shape, ctor):
        fs = schema_fields(fields)
        lets = " ".join("let %s = %s;" % (f.name, f.t.gen) for f in fs)
        if shape == "unit":
            return "%s" % ctor
        if shape == "named":
            return "{ %s %s { %s } }" % (lets, ctor, ", ".join(f.name for f in fields))
        return "{ %s %s(%s) }" % (lets, ctor, ", ".join(f.name for f in fields))

    def view_list(fields, acc):
        fs = schema_fields(fields)
        return "vec![%s]" % ", ".join(f.t.view(acc(f)) for f in fs)

    def borrow_list(fields, acc):
        stmts = []
        for f in fields:
            if f.t.borrow:
                s = f.t.borrow(acc(f), f.b)
                if s:
                    stmts.append(s)
        return " ".join(stmts)

    if td.kind == "struct":
        if td.shape == "named":
            acc = lambda f: "(&self.%s)" % f.name
        else:
            pos = {f.name: i for i, f in enumerate(td.fields)}
            acc = lambda f: "(&self.%d)" % pos[f.name]
        gen = gen_block(td.fields, td.shape, td.name)
        view = "View::Struct(%s)" % view_list(td.fields, acc)
        borrow = borrow_list(td.fields, acc)
    else:
        arms_gen, arms_view, arms_borrow = [], [], []
        for k, (vn, vi, vshape, venc, vtag, vfields) in enumerate(td.variants):
            arms_gen.append("%d => %s," % (k, gen_block(vfields, vshape, "%s::%s" % (td.name, vn))))
            if vshape == "unit":
                pat = "%s::%s" % (td.name, vn)
            elif vshape == "named":
                pat = "%s::%s { %s }" % (td.name, vn, ", ".join(f.name for f in vfields))
            else:
                pat = "%s::%s(%s)" % (td.name, vn, ", ".join(f.name for f in vfields))
            arms_view.append("%s => View::Enum(%d, %s)," % (pat, k, view_list(vfields, lambda f: f.name)))
            arms_borrow.append("%s => { %s %s }" % (pat, " ".join("let _ = %s;" % f.name for f in vfields), borrow_list(vfields, lambda f: f.name)))
        gen = "match rng.below(%d) { %s _ => unreachable!() }" % (len(td.variants), " ".join(arms_gen))
        view = "match self { %s }" % " ".join(arms_view)
        borrow = "match self { %s }" % " ".join(arms_borrow)
    out.append("impl<'a> Case<'a> for %s%s {" % (td.name, lt))
    out.append("  #[allow(unused_variables)] fn gen(rng: &mut Rng, arena: &'a Arena, p: &mut Presence, depth: u32) -> Self { %s }" % gen)
    out.append("  fn view(&self) -> View { %s }" % view)
    out.append("  #[allow(unused_variables)] fn borrow_check(&self, input: &[u8]) -> Result<(), String> { %s Ok(()) }" % borrow)
    out.append("}")
    # schema
    if td.kind == "struct":
        kind = "Kind::Struct { encoding: %s, transparent: %s, fields: vec![%s] }" % (td.eff_enc(), "true" if td.transparent else "false", ", ".join(emit_field_schema(f) for f in schema_fields(td.fields)))
    else:
        vs = []
        for (vn, vi, vshape, venc, vtag, vfields) in td.variants:
            vs.append("VariantSchema { index: %d, tag: %s, encoding: %s, unit: %s, fields: vec![%s] }" % (
                vi, "Some(%d)" % vtag if vtag is not None and not td.index_only else "None", td.eff_enc(venc), "true" if vshape == "unit" else "false", ", ".join(emit_field_schema(f) for f in schema_fields(vfields))))
        kind = "Kind::Enum { index_only: %s, variants: vec![%s] }" % ("true" if td.index_only else "false", ", ".join(vs))
    out.append("pub fn schema_%s() -> TypeSchema { TypeSchema { name: \"%s\", tag: %s, kind: %s, loose: %s, encode_only: %s } }" % (td.name, td.name, "Some(%d)" % td.tag if td.tag is not None else "None", kind, "true" if td.len_only else "false", "true" if td.encode_only else "false"))
    return "\n".join(out)


# --------------------------------------------------------------------------- random grammar

TAGS = [0, 1, 23, 24, 255, 256, 65535, 65536, 55799, 4294967296, 18446744073709551615]


def pick_indices(rnd, n):
    """n distinct indices: dense, with gaps, sometimes >= 24 or >= 256."""
    mode = rnd.random()
    if mode < 0.35:
        idx = list(range(n))
    elif mode < 0.8:
        idx = sorted(rnd.sample(range(0, n + 6), n))
    elif mode < 0.93:
        idx = sorted(rnd.sample(range(0, 40), n))
    else:
        idx = sorted(rnd.sample(list(range(0, 8)) + [23, 24, 25, 255, 256, 300], n))
    return idx


def gen_leaf_type(rnd, pool_named, allow_borrow):
    r = rnd.random()
    if r < 0.34:
        t = rnd.choice(PLAIN)
    elif r < 0.50 and allow_borrow:
        t = rnd.choice(BORROWING)
    elif r < 0.60:
        t = rnd.choice([c for c in CODEC if allow_borrow or not c.lifetime])
    elif r < 0.72 and pool_named:
        t = named(rnd.choice(pool_named))
    else:
        base = rnd.choice(PLAIN + ([named(rnd.choice(pool_named))] if pool_named else []) + ([STR_REF, BYTESLICE_REF] if allow_borrow else []))
        k = rnd.random()
        if k < 0.6:
            t = opt(base)
        elif k < 0.8:
            t = vec(base)
        elif k < 0.9:
            t = bmap(base)
        else:
            t = opt(vec(base)) if not base.borrow else opt(base)
        if rnd.random() < 0.12:
            t = alias(t)
    if rnd.random() < 0.05 and not t.attrs and not t.borrow and not t.lifetime and not t.rust.startswith("Al"):
        t = tagged(rnd.choice([0, 7, 24, 1000, 70000]), t)
    return t


def gen_fields(rnd, n, pool_named, allow_borrow, allow_skip=True, allow_tag=True, prefix="f"):
    idx = pick_indices(rnd, n)
    fields = []
    for k in range(n):
        t = gen_leaf_type(rnd, pool_named, allow_borrow)
        b = False
        if t.lifetime and not t.free_b:
            b = True                 # lifetimes other than the implicitly borrowing forms need #[b]
        elif t.lifetime:
            b = rnd.random() < 0.6
        elif not t.lifetime:
            b = rnd.random() < 0.1   # #[b] on a non-borrowing type is allowed and must not matter
        tag = rnd.choice(TAGS) if allow_tag and rnd.random() < 0.2 else None
        fields.append(Field("%s%d" % (prefix, k), idx[k], t, b, tag))
    if allow_skip and rnd.random() < 0.25:
        t = rnd.choice([U16, STRING, opt(U8), vec(U32), BOOL])
        fields.append(Field("%ss" % prefix, None, t, skip=True))
    rnd.shuffle(fields)  # declaration order is independent of the index order
    return fields


def make_generic(rnd, td):
    """Turn up to two field types of a lifetime-free definition into type parameters
    (instantiated with the concrete type the field had)."""
    if td.kind == "struct":
        groups = [td.fields]
    else:
        groups = [v[5] for v in td.variants]
    if td.transparent or any(f.t.lifetime for g in groups for f in g):
        return td
    cands = [f for g in groups for f in g if not f.skip and not f.t.attrs and not f.t.rust.startswith("Al")]
    rnd.shuffle(cands)
    for k, f in enumerate(cands[:rnd.choice([1, 1, 2])]):
        pname = "P%d" % k
        f.decl = pname
        td.params.append((pname, f.t.rust))
    return td


def finish(td):
    def lt(fields):
        return any(f.t.lifetime for f in fields)
    if td.kind == "struct":
        td.lifetime = lt(td.fields)
    else:
        td.lifetime = any(lt(v[5]) for v in td.variants)
    return td


def gen_struct(rnd, name, pool):
    td = TypeDef(name)
    r = rnd.random()
    if r < 0.06:
        td.shape = "unit"
        td.encoding = rnd.choice([None, "array", "map"])
        td.tag = rnd.choice(TAGS) if rnd.random() < 0.3 else None
        return finish(td)
    if r < 0.14:
        td.transparent = True
        td.shape = rnd.choice(["named", "tuple"])
        t = gen_leaf_type(rnd, pool, True)
        b = t.lifetime and (not t.free_b or rnd.random() < 0.6)
        td.fields = [Field("f0", 0, t, b)]
        return finish(td)
    td.shape = "named" if rnd.random() < 0.7 else "tuple"
    td.encoding = rnd.choice([None, "array", "map", "map"])
    td.tag = rnd.choice(TAGS) if rnd.random() < 0.25 else None
    n = rnd.choice([1, 2, 2, 3, 3, 4, 5, 6])
    td.fields = gen_fields(rnd, n, pool, True)
    if rnd.random() < 0.12:
        make_generic(rnd, td)
    return finish(td)


def gen_enum(rnd, name, pool):
    td = TypeDef(name)
    td.kind = "enum"
    if rnd.random() < 0.2:
        td.index_only = True
        td.encoding = rnd.choice([None, "array", "map"])
        n = rnd.choice([1, 2, 3, 5])
        idx = pick_indices(rnd, n)
        # a variant-level tag is accepted on index_only enums and has no effect on the wire
        # ("only the variant index is encoded"): the schema records no tag for these
        td.variants = [("V%d" % k, idx[k], "unit", None, rnd.choice([None, None, 7, 300, 70000]), []) for k in range(n)]
        rnd.shuffle(td.variants)
        return finish(td)
    td.encoding = rnd.choice([None, "array", "map"])
    td.tag = rnd.choice(TAGS) if rnd.random() < 0.2 else None
    n = rnd.choice([1, 2, 3, 4])
    idx = pick_indices(rnd, n)
    for k in range(n):
        shape = rnd.choice(["unit", "tuple", "named", "named"])
        venc = rnd.choice([None, None, "array", "map"])
        vtag = rnd.choice(TAGS) if rnd.random() < 0.2 else None
        fields = [] if shape == "unit" else gen_fields(rnd, rnd.choice([1, 2, 3]), pool, True, prefix="g")
        td.variants.append(("V%d" % k, idx[k], shape, venc, vtag, fields))
    if rnd.random() < 0.12:
        make_generic(rnd, td)
    rnd.shuffle(td.variants)   # declaration order is independent of the index order
    return finish(td)


def special_types():
    """Hand-picked shapes the random grammar reaches rarely."""
    out = []
    # >= 24 and >= 256 declared optional fields, map and array encoded
    for name, enc, n in [("WideMap26", "map", 26), ("WideArr26", "array", 26), ("WideMap260", "map", 260)]:
        td = TypeDef(name)
        td.encoding = enc
        td.fields = [Field("f%d" % k, k, opt(U8) if k % 5 else opt(STRING)) for k in range(n)]
        out.append(finish(td))
    # tagged optionals between mandatory fields (array), incl. trailing ones
    td = TypeDef("TaggedOpts")
    td.fields = [Field("a", 0, opt(U32), tag=5), Field("b", 1, U8), Field("c", 2, opt(STRING), tag=24), Field("d", 4, opt(U16), tag=65536), Field("e", 3, opt(BOOL))]
    out.append(finish(td))
    td = TypeDef("TaggedOptsMap")
    td.encoding = "map"
    td.fields = [Field("a", 0, opt(U32), tag=5), Field("b", 1, U8), Field("c", 30, opt(STRING), tag=24), Field("d", 300, NIL_WITH, tag=7)]
    out.append(finish(td))
    # Option directly inside Option (only the outer None is "absent")
    td = TypeDef("OptOpt")
    td.encoding = "map"
    td.fields = [Field("a", 0, opt(U8)), Field("b", 3, opt(opt(U8))), Field("c", 1, opt(opt(STRING)))]
    out.append(finish(td))
    td = TypeDef("OptOptArr")
    td.fields = [Field("a", 0, opt(U8)), Field("b", 1, opt(opt(U8))), Field("c", 2, opt(opt(STRING)))]
    out.append(finish(td))
    # enum: unit variants with their own encoding override, variant tags
    td = TypeDef("UnitOverrides")
    td.kind = "enum"
    td.encoding = "array"
    td.variants = [("A", 0, "unit", "map", None, []), ("B", 1, "unit", None, None, []), ("C", 2, "unit", "array", 9, []), ("D", 5, "named", "map", None, [Field("x", 0, opt(U8)), Field("y", 1, opt(STRING))])]
    out.append(finish(td))
    td = TypeDef("UnitOverridesMap")
    td.kind = "enum"
    td.encoding = "map"
    td.tag = 55799
    td.variants = [("A", 0, "unit", "array", None, []), ("B", 1, "unit", None, 3, []), ("C", 24, "tuple", "array", None, [Field("x", 0, opt(U8)), Field("y", 1, U8)])]
    out.append(finish(td))
    # enum variants with absent optionals (trailing and in the middle), both encodings
    td = TypeDef("VariantOpts")
    td.kind = "enum"
    td.variants = [("A", 0, "named", None, None, [Field("x", 0, opt(U8)), Field("y", 1, opt(U8)), Field("z", 2, opt(U8))]), ("B", 1, "named", "map", None, [Field("x", 0, opt(U8)), Field("y", 1, opt(STRING)), Field("z", 7, opt(U8), tag=1)]),
                   ("C", 2, "tuple", None, None, [Field("x", 0, U8), Field("y", 1, opt(U64))])]
    out.append(finish(td))
    # nil-capable field types that are not spelled `Option<..>` in the definition:
    # type parameters instantiated with Option, and type aliases of Option
    for name, enc, shape in [("GenMap", "map", "named"), ("GenArr", "array", "named"), ("GenTup", None, "tuple")]:
        td = TypeDef(name)
        td.encoding, td.shape = enc, shape
        td.fields = [Field("id", 0, U8), Field("val", 1, opt(U16), decl="P0"), Field("mid", 2, opt(STRING), decl="P1"), Field("last", 4, alias(opt(I32)))]
        td.params = [("P0", "Option<u16>"), ("P1", "Option<String>")]
        out.append(finish(td))
    td = TypeDef("GenEnum")
    td.kind = "enum"
    td.variants = [("A", 0, "named", None, None, [Field("id", 0, U8), Field("val", 1, opt(U16), decl="P0")]), ("B", 1, "tuple", "map", None, [Field("x", 0, U8), Field("y", 1, opt(U16), decl="P0"), Field("z", 3, alias(opt(vec(U8))))]), ("C", 2, "unit", None, None, [])]
    td.params = [("P0", "Option<u16>")]
    out.append(finish(td))
    td = TypeDef("GenPlain")
    td.encoding = "map"
    td.fields = [Field("a", 0, U32, decl="P0"), Field("b", 1, alias(opt(BOOL)), tag=3), Field("c", 5, alias(vec(U8)))]
    td.params = [("P0", "u32")]
    out.append(finish(td))
    # transparent newtypes around nil-capable types, used as (trailing) fields of other types:
    # the wrapper itself is not nil, so the field is always written
    tro = TypeDef("TranspOpt")
    tro.transparent, tro.shape = True, "tuple"
    tro.fields = [Field("f0", 0, opt(U8))]
    out.append(finish(tro))
    trs = TypeDef("TranspOptStr")
    trs.transparent, trs.shape = True, "named"
    trs.fields = [Field("f0", 0, opt(STRING))]
    out.append(finish(trs))
    for name, enc in [("UsesTranspArr", "array"), ("UsesTranspMap", "map")]:
        td = TypeDef(name)
        td.encoding = enc
        td.fields = [Field("a", 0, U8), Field("b", 1, named(tro)), Field("c", 2, opt(U16)), Field("d", 3, named(trs))]
        out.append(finish(td))
    td = TypeDef("UsesTranspEnum")
    td.kind = "enum"
    td.variants = [("A", 0, "named", "map", None, [Field("x", 0, named(tro)), Field("y", 1, opt(U8))]), ("B", 1, "tuple", None, None, [Field("x", 0, U8), Field("y", 1, named(trs))])]
    out.append(finish(td))
    # partial custom codecs: only decode_with, only encode_with, encode_with + is_nil.  Which fields
    # count as nil-able is then decided from the spelling of the type, which the documentation does
    # not fix, so these types are only run by the checks that need no reference format: C07 (len ==
    # bytes written), C13 (bounded sinks) and the plain round trip of C09.  (`encode_with` + `is_nil`
    # on a type not spelled `Option` without a matching `nil` is asymmetric by the user's own
    # declaration and is left out.)
    import copy as _copy
    def with_attrs(t, attrs):
        c = _copy.copy(t)
        c.attrs = attrs
        return c
    dec_only = ['decode_with = "dsupport::codecs::plain::dec_opt_u16"']
    enc_only = ['encode_with = "dsupport::codecs::plain::enc_opt_u16"']
    enc_nil = ['encode_with = "dsupport::codecs::plain::enc_opt_u16"', 'is_nil = "dsupport::codecs::plain::is_nil_opt_u16"']
    for name, enc in [("PartialCodecMap", "map"), ("PartialCodecArr", "array")]:
        td = TypeDef(name)
        td.encoding = enc
        td.len_only = True
        td.fields = [Field("a", 0, U8), Field("b", 1, with_attrs(opt(U16), dec_only)), Field("c", 2, with_attrs(alias(opt(U16)), dec_only)), Field("d", 3, with_attrs(opt(U16), enc_only)),
                     Field("e", 4, with_attrs(alias(opt(U16)), enc_only)), Field("g", 7, opt(U8)), Field("h", 6, with_attrs(opt(U16), enc_nil), tag=9)]
        out.append(finish(td))
    # a nil-aware codec whose nil value is *not* written as null while one of its non-nil values is:
    # how such a nil is written in the middle of an array is the codec's business (not the
    # documented null), so these types only run the format-independent checks
    for name, enc in [("TriArr", "array"), ("TriMap", "map")]:
        td = TypeDef(name)
        td.encoding = enc
        td.len_only = True
        td.fields = [Field("a", 0, U8), Field("t", 1, TRI_WITH), Field("b", 2, opt(U8)), Field("u", 3, TRI_FNS), Field("c", 5, opt(STRING)), Field("v", 4, TRI_WITH, tag=9)]
        out.append(finish(td))
    td = TypeDef("TriEnum")
    td.kind = "enum"
    td.len_only = True
    td.variants = [("A", 0, "named", None, None, [Field("t", 0, TRI_WITH), Field("x", 1, opt(U8))]), ("B", 1, "tuple", "map", None, [Field("x", 0, U8), Field("t", 1, TRI_FNS)])]
    out.append(finish(td))
    # shapes only the Encode / CborLen derives accept (the Decode derive rejects them): a
    # transparent newtype with an additional skipped field in front of / behind the encoded one.
    # What such a type writes is not documented; len() = bytes written holds regardless.
    for name, shape, first in [("EncOnlySkipFirst", "tuple", True), ("EncOnlySkipLast", "tuple", False), ("EncOnlySkipNamed", "named", True)]:
        td = TypeDef(name)
        td.transparent = True
        td.shape = shape
        td.len_only = True
        td.encode_only = True
        sk = Field("cache", 0, U8, skip=True)
        fl = Field("value", 0, STRING if name != "EncOnlySkipLast" else U64)
        td.fields = [sk, fl] if first else [fl, sk]
        out.append(finish(td))
    # wrappers around nil-capable types.  Box / Cow do not forward is_nil / nil: the field is written
    # (as null) and must be present.  &T / &mut T forward is_nil: the field is optional like T itself
    # (encode-only types: references to sized values cannot be decoded).
    def opaque_fields():
        return [Field("a", 0, U8), Field("b", 1, boxed(opt(U16))), Field("c", 2, cow_owned(opt(U8))), Field("d", 3, opt(U8)), Field("e", 5, boxed(opt(STRING)), tag=11),
                Field("g", 6, cow_owned(opt(STRING)))]
    for name, enc in [("OpaqueNilArr", "array"), ("OpaqueNilMap", "map")]:
        td = TypeDef(name)
        td.encoding = enc
        td.fields = opaque_fields()
        out.append(finish(td))
    td = TypeDef("OpaqueNilEnum")
    td.kind = "enum"
    td.variants = [("A", 0, "named", "map", None, opaque_fields()[:4]), ("B", 1, "tuple", None, None, [Field("x", 0, cow_owned(opt(U16))), Field("y", 1, boxed(opt(U8)))])]
    out.append(finish(td))
    def ref_fields():
        return [Field("a", 0, U8), Field("r", 1, shared_ref(opt(U16))), Field("m", 2, mut_ref(opt(U16))), Field("s", 4, mut_ref(opt(STRING)), tag=12), Field("t", 5, shared_ref(U8)),
                Field("u", 6, mut_ref(opt(U8)))]
    for name, enc in [("EncOnlyRefsArr", "array"), ("EncOnlyRefsMap", "map")]:
        td = TypeDef(name)
        td.encoding = enc
        td.encode_only = True
        td.lifetime = True
        td.fields = ref_fields()
        out.append(finish(td))
    td = TypeDef("EncOnlyRefsEnum")
    td.kind = "enum"
    td.encode_only = True
    td.lifetime = True
    td.variants = [("A", 0, "named", "map", None, ref_fields()[:3]), ("B", 1, "tuple", None, None, [Field("x", 0, U8), Field("y", 1, mut_ref(opt(U16))), Field("z", 2, shared_ref(opt(U8)))])]
    out.append(finish(td))
    # field names a macro is tempted to use for its own locals, in structs and named variants
    def local_names(prefix_tag):
        names = ["tag", "len", "n", "i", "e", "d", "ctx", "buf", "pos", "nil", "ok", "err", "val", "key", "idx", "size"]
        tys = [U64, opt(U16), STRING, U8, opt(STRING), BOOL, U32, opt(U8)]
        return [Field(nm, k, tys[k % len(tys)], tag=(prefix_tag if k % 5 == 2 else None)) for k, nm in enumerate(names)]
    for name, enc in [("LocalNamesArr", "array"), ("LocalNamesMap", "map")]:
        td = TypeDef(name)
        td.encoding = enc
        td.fields = local_names(9)
        out.append(finish(td))
    td = TypeDef("LocalNamesEnum")
    td.kind = "enum"
    td.variants = [("A", 0, "named", None, None, local_names(300)), ("B", 1, "named", "map", 7, local_names(None)[:9])]
    out.append(finish(td))
    # wide tuple variants / tuple structs (positions 10+ sort differently as text than as numbers)
    def wide(n):
        tys = [U8, U16, STRING, BOOL, U32, opt(U8), I64, U64, CHAR, opt(STRING), I8, U16, STRING, U8]
        return [Field("w%d" % k, k, tys[k % len(tys)]) for k in range(n)]
    td = TypeDef("WideTupleEnum")
    td.kind = "enum"
    td.variants = [("A", 0, "tuple", None, None, wide(12)), ("B", 1, "tuple", "map", None, wide(13)), ("C", 2, "named", None, None, wide(11))]
    out.append(finish(td))
    for name, enc in [("WideTupleArr", "array"), ("WideTupleMap", "map")]:
        td = TypeDef(name)
        td.encoding, td.shape = enc, "tuple"
        td.fields = wide(14)
        out.append(finish(td))
    # PhantomData fields with an index are mandatory like any other (the empty array must be there)
    for name, enc, shape in [("PhantomArr", "array", "named"), ("PhantomMap", "map", "named"), ("PhantomTup", None, "tuple")]:
        td = TypeDef(name)
        td.encoding, td.shape = enc, shape
        td.fields = [Field("o", 0, opt(U8)), Field("ph", 1, PHANTOM), Field("q", 3, opt(STRING), tag=9)]
        out.append(finish(td))
    td = TypeDef("PhantomEnum")
    td.kind = "enum"
    td.variants = [("A", 0, "named", "map", None, [Field("o", 0, opt(U8)), Field("ph", 2, PHANTOM)]), ("B", 1, "tuple", None, 7, [Field("ph", 0, PHANTOM)]), ("C", 2, "unit", None, None, [])]
    out.append(finish(td))
    # Tagged<N, T> as a field type, also around nil-capable types and in front of present fields
    td = TypeDef("TaggedTy")
    td.fields = [Field("a", 0, tagged(7, opt(U8))), Field("b", 1, U8), Field("c", 2, tagged(24, opt(STRING))), Field("d", 3, tagged(1000, U16), tag=5), Field("e", 5, opt(tagged(9, I32)))]
    out.append(finish(td))
    td = TypeDef("TaggedTyMap")
    td.encoding = "map"
    td.fields = [Field("a", 0, tagged(7, opt(U8))), Field("b", 1, U8), Field("c", 30, tagged(70000, opt(vec(U8))))]
    out.append(finish(td))
    # borrowing Cows under #[b], with and without the bytes codec
    td = TypeDef("CowBorrow")
    td.fields = [Field("s", 0, COW_STR, True), Field("t", 1, COW_BYTESLICE, True), Field("u", 2, BYTES_COW, True), Field("v", 3, COW_STR, False), Field("w", 4, BYTES_REF, False), Field("x", 5, BYTES_OPT_REF, False)]
    out.append(finish(td))
    td = TypeDef("CowBorrowT")
    td.transparent = True
    td.shape = "tuple"
    td.fields = [Field("f0", 0, COW_BYTESLICE, True)]
    out.append(finish(td))
    return out


def twin_of(rnd, td, name):
    """Same schema; other names, declaration order reversed, n<->b flipped where possible."""
    import copy
    tw = copy.copy(td)
    tw.name = name

    def flip(fields, prefix):
        out = []
        for k, f in enumerate(fields):
            g = copy.copy(f)
            g.name = "%s%s_r" % (prefix, f.name)
            if not f.skip and not f.t.lifetime:
                g.b = not f.b
            out.append(g)
        out.reverse()
        return out
    if td.kind == "struct":
        tw.fields = flip(td.fields, "t")
    else:
        tw.variants = [("W" + vn, vi, vshape, venc, vtag, flip(vfields, "t")) for (vn, vi, vshape, venc, vtag, vfields) in td.variants]
        tw.variants = tw.variants  # variant order kept (View::Enum uses the position)
    return tw


# --------------------------------------------------------------------------- version chains (C10)

# (enum encoding, encoding override on the unit variant, shape it is turned into): the unit variant's
# own container kind differs from the enum's, then the documented edit "unit -> variant with optional fields"
TRANSP = []   # transparent newtypes around nil-capable types (filled from special_types)
# 4th / 5th element: encoding of the evolving struct and which optional is added at a gap index in step 2
FORCED_CHAINS = [(None, "map", "named", "array", 0), (None, "map", "tuple", "map", 0), ("array", "map", "named", "array", 1), ("map", "array", "named", "map", 2),
                 ("map", "array", "tuple", None, 3), ("map", None, "named", "map", 1), (None, None, "tuple", "array", 4)]


def chain_opt(e, force):
    """The optional enum field of a chain; in some forced chains behind a pass-through codec without
    nil functions (spelled `Option<..>`, which the macros must still treat as optional)."""
    t = opt(named(e))
    if force and force[4] in (1, 3):
        while not t.rust.startswith("Option<"):
            t = opt(named(e))
        parts = ['with = "dsupport::codecs::pass"'] if force[4] == 1 else ['decode_with = "dsupport::codecs::pass::decode"', 'encode_with = "dsupport::codecs::pass::encode"', 'cbor_len = "dsupport::codecs::pass::cbor_len"']
        t.attrs = parts
    return t


def gen_chain(rnd, cid, pool, force=None):
    """A chain of versions of one struct (and of an enum used only as an optional field)."""
    import copy
    versions = []
    enum_versions = []
    # the evolving enum
    e = TypeDef("C%dE0" % cid)
    e.kind = "enum"
    e.index_only = rnd.random() < 0.4
    e.encoding = rnd.choice([None, "map", "array"])
    if force:
        e.index_only = False
        e.encoding = force[0]
    if e.index_only:
        e.variants = [("V%d" % k, k, "unit", None, rnd.choice([None, None, 7]), []) for k in range(rnd.choice([1, 2, 3]))]
    else:
        e.variants = [("V0", 0, "unit", rnd.choice([None, "map", "array"]), None, []), ("V1", 1, "named", None, None, gen_fields(rnd, 2, pool, False, allow_skip=False, prefix="g"))]
        if rnd.random() < 0.5:
            e.variants.append(("V2", 3, "unit", rnd.choice([None, "map", "array"]), rnd.choice([None, 7]), []))
        if force:
            e.variants[0] = ("V0", 0, "unit", force[1], None, [])
    finish(e)
    enum_versions.append(e)
    s = TypeDef("C%dS0" % cid)
    s.encoding = rnd.choice([None, "array", "map"])
    if force:
        s.encoding = force[3]
    s.tag = rnd.choice(TAGS) if rnd.random() < 0.15 else None
    s.shape = "named"
    n = rnd.choice([1, 2, 3, 4])
    s.fields = gen_fields(rnd, n, pool, False, allow_skip=False)
    used = set(f.index for f in s.fields)
    if force and TRANSP:
        # a mandatory field whose type is a transparent newtype around an Option (never nil itself)
        s.fields.append(Field("tr", max(used) + 1, named(TRANSP[cid % len(TRANSP)])))
        used = set(f.index for f in s.fields)
    ei = max(used) + (3 if force else rnd.choice([1, 2, 3]))   # forced chains keep gap indices free
    s.fields.append(Field("en", ei, chain_opt(e, force), tag=rnd.choice([None, None, 6])))
    # make sure there is room for gap insertions: shift some indices up
    finish(s)
    versions.append(s)
    nsteps = rnd.choice([1, 2, 3, 4])
    if force:
        nsteps = max(nsteps, 3)
    control = None
    ever_used = set(f.index for f in s.fields)   # an index is never reused with another meaning
    for step in range(1, nsteps + 1):
        prev = versions[-1]
        preve = enum_versions[-1]
        ne = copy.deepcopy(preve)
        ne.name = "C%dE%d" % (cid, step)
        ns = TypeDef("C%dS%d" % (cid, step))
        ns.encoding, ns.tag, ns.shape = prev.encoding, prev.tag, prev.shape
        ns.fields = [copy.copy(f) for f in prev.fields if f.name != "en"]
        enf = [f for f in prev.fields if f.name == "en"][0]
        used = set(ever_used)
        edit = rnd.choice(["add_high", "add_gap", "drop_opt", "add_variant", "unit_to_fields", "flip_nb", "add_high", "add_gap"])
        if force and step == 1:
            edit = "unit_to_fields"
        if force and step == 3:
            edit = "add_variant"     # the last forced step: older readers meet a variant they do not know
        if force and step == 2:
            edit = "add_gap"
            newt = [BYTES_OPT_VEC, NIL_FNS, BYTES_OPT_VEC_Q, opt(STRING), BYTES_OPT_VEC_C][force[4]]
        newt = rnd.choice([opt(U8), opt(STRING), opt(vec(U16)), NIL_WITH, opt(I64), opt(bmap(BOOL)), BYTES_OPT_VEC, BYTES_OPT_VEC_Q, BYTES_OPT_VEC_C, NIL_FNS, alias(opt(U32))])
        if edit == "add_high":
            ns.fields.append(Field("a%d" % step, max(used) + rnd.choice([1, 1, 2, 5]), newt, tag=rnd.choice([None, None, 9, 300])))
        elif edit == "add_gap":
            gaps = [i for i in range(0, max(used)) if i not in used]
            if gaps:
                ns.fields.append(Field("a%d" % step, rnd.choice(gaps), newt, tag=(9 if force else rnd.choice([None, None, 9, 300]))))
            else:
                ns.fields.append(Field("a%d" % step, max(used) + 1, newt))
        elif edit == "drop_opt":
            cands = [f for f in ns.fields if f.t.nilable]
            if cands:
                ns.fields.remove(rnd.choice(cands))
        elif edit == "add_variant":
            vused = set(v[1] for v in ne.variants)
            vi = rnd.choice([i for i in range(0, 30) if i not in vused])
            if ne.index_only:
                ne.variants.append(("N%d" % step, vi, "unit", None, None, []))
            else:
                shape = rnd.choice(["unit", "named", "tuple"])
                vf = [] if shape == "unit" else gen_fields(rnd, rnd.choice([1, 2]), pool, False, allow_skip=False, prefix="h")
                ne.variants.append(("N%d" % step, vi, shape, rnd.choice([None, "map"]), rnd.choice([None, 4]), vf))
        elif edit == "unit_to_fields" and not ne.index_only:
            units = [k for k, v in enumerate(ne.variants) if v[2] == "unit"]
            if units:
                k = rnd.choice(units)
                shape = rnd.choice(["named", "tuple"])
                if force and step == 1:
                    k, shape = 0, force[2]
                (vn, vi, vshape, venc, vtag, vfields) = ne.variants[k]
                nf = [Field("u%d" % j, j, rnd.choice([opt(U8), opt(STRING), NIL_WITH])) for j in range(rnd.choice([1, 2]))]
                ne.variants[k] = (vn, vi, shape, venc, vtag, nf)
        elif edit == "flip_nb":
            for f in ns.fields:
                if not f.t.lifetime:
                    f.b = not f.b
        ever_used |= set(f.index for f in ns.fields)
        for f in ns.fields:
            f.name = "%s_%d" % (f.name.split("_")[0], step)   # renaming everything
        finish(ne)
        ns.fields.append(Field("en", enf.index, chain_opt(ne, force), tag=enf.tag))
        rnd.shuffle(ns.fields)
        finish(ns)
        versions.append(ns)
        enum_versions.append(ne)
    # a control version: a mandatory field added (not compatible: old data must be rejected)
    last = versions[-1]
    ctl = TypeDef("C%dCtl" % cid)
    ctl.encoding, ctl.tag, ctl.shape = last.encoding, last.tag, last.shape
    ctl.fields = [copy.copy(f) for f in last.fields]
    used = set(ever_used)
    ctl.fields.append(Field("must", max(used) + 1, rnd.choice([U8, STRING, BOOL])))
    finish(ctl)
    return versions, enum_versions, ctl


def gen_unit_chain(cid, enc, tag):
    """A chain whose first version is a unit-syntax struct (`struct S;`): later versions add only
    optional fields, so every version must read every other one."""
    def mk(name, fields, shape="named"):
        td = TypeDef(name)
        td.encoding, td.tag, td.shape = enc, tag, shape
        td.fields = fields
        return finish(td)
    v0 = mk("C%dS0" % cid, [], "unit")
    v1 = mk("C%dS1" % cid, [Field("a_1", 0, opt(U8))])
    v2 = mk("C%dS2" % cid, [Field("b_2", 2, opt(STRING), tag=9), Field("a_2", 0, opt(U8))])
    v3 = mk("C%dS3" % cid, [Field("a_3", 0, opt(U8)), Field("c_3", 1, opt(vec(U16))), Field("b_3", 2, opt(STRING), tag=9)], "tuple")
    ctl = mk("C%dCtl" % cid, [Field("a_3", 0, opt(U8)), Field("c_3", 1, opt(vec(U16))), Field("b_3", 2, opt(STRING), tag=9), Field("must", 3, U8)])
    return [v0, v1, v2, v3], [], ctl


# --------------------------------------------------------------------------- crate emission

MAIN_TMPL = """// @generated by gen_schemas.py (seed %(seed)d): %(ntypes)d schema types, %(nchains)d version chains.
#![allow(dead_code, unused_imports, non_snake_case, clippy::all)]
use dsupport::drivers::{self, Case, Fam, Which};
use dsupport::{Arena, Encoding, FieldSchema, Kind, Presence, Registry, Ty, TypeSchema, VariantSchema, View};
use vcore::mon;
use vcore::report::{Args, Report};
use vcore::rng::Rng;

#[global_allocator]
static ALLOC: mon::CountingAlloc = mon::CountingAlloc;

mod types;
use types::*;

fn registry() -> Registry {
    let mut r = Registry::new();
%(registry)s
    r
}

const NTYPES: u64 = %(ntypes)d;

fn run_values(a: &Args, rep: &mut Report, reg: &Registry, w: &Which, sub: &str, n: u64, only: Option<(&str, u64)>) {
    macro_rules! go {
        ($fam:ty) => {
            match only {
                Some((name, i)) => {
                    if name == <$fam as Fam>::NAME {
                        drivers::check_value::<$fam>(reg, rep, a.seed, i, w, sub)
                    }
                }
                None => {
                    for i in 0..n {
                        if a.mine(i) {
                            drivers::check_value::<$fam>(reg, rep, a.seed, i, w, sub)
                        }
                    }
                    mon::tick();
                }
            }
        };
    }
%(value_calls)s
}

fn run_twins(a: &Args, rep: &mut Report, sub: &str, n: u64, only: Option<(&str, u64)>) {
    macro_rules! tw {
        ($a:ty, $b:ty) => {
            match only {
                Some((name, i)) => {
                    if name == <$a as Fam>::NAME {
                        drivers::check_twin::<$a, $b>(rep, a.seed, i, sub)
                    }
                }
                None => {
                    for i in 0..n {
                        if a.mine(i) {
                            drivers::check_twin::<$a, $b>(rep, a.seed, i, sub)
                        }
                    }
                }
            }
        };
    }
%(twin_calls)s
}

fn run_compat(a: &Args, rep: &mut Report, reg: &Registry, sub: &str, n: u64, only: Option<(&str, &str, u64)>) {
    let ident = |s: &str| -> &'static str { Box::leak(s.to_string().into_boxed_str()) };
    macro_rules! cp {
        ($w:ty, $r:ty) => {
            match only {
                Some((wn, rn, i)) => {
                    if wn == <$w as Fam>::NAME && rn == <$r as Fam>::NAME {
                        drivers::check_compat::<$w, $r>(reg, rep, a.seed, i, &ident, sub)
                    }
                }
                None => {
                    for i in 0..n {
                        if a.mine(i) {
                            drivers::check_compat::<$w, $r>(reg, rep, a.seed, i, &ident, sub)
                        }
                    }
                    mon::tick();
                }
            }
        };
    }
%(compat_calls)s
}

fn main() {
    let argv: Vec<String> = std::env::args().collect();
    let args = Args::parse(&argv);
    mon::install_panic_hook();
    mon::set_alloc_active(true);
    mon::start_watchdog(900);
    let a2 = args.clone();
    let h = std::thread::Builder::new().stack_size(1 << 28).spawn(move || {
        let a = a2;
        let mut rep = Report::new(&a.check, &a.tier, a.seed, a.shard, a.nshards);
        let reg = registry();
        rep.note(format!("generated crate: seed %(seed)d, {} schema types, %(nchains)d version chains, %(npairs)d ordered version pairs", NTYPES));
        let n: u64 = a.extra("values").and_then(|s| s.parse().ok()).unwrap_or(200);
        let sub = a.check.clone();
        let w = match sub.as_str() {
            "c07" => Which { c07: true, ..Default::default() },
            "c08" => Which { c08: true, ..Default::default() },
            "c09" => Which { c09: true, ..Default::default() },
            "c13" => Which { c13: true, ..Default::default() },
            _ => Which::default(),
        };
        if !a.replay.is_empty() {
            let name = a.replay[0].clone();
            let i: u64 = a.replay[1].parse().unwrap();
            if let Some(t) = name.strip_prefix("twin:") {
                run_twins(&a, &mut rep, &sub, 0, Some((t, i)));
            } else if let Some(c) = name.strip_prefix("compat:") {
                let mut it = c.split(':');
                let (wn, rn) = (it.next().unwrap(), it.next().unwrap());
                run_compat(&a, &mut rep, &reg, &sub, 0, Some((wn, rn, i)));
            } else {
                run_values(&a, &mut rep, &reg, &w, &sub, 0, Some((&name, i)));
            }
            return rep;
        }
        match sub.as_str() {
            "c07" | "c09" | "c13" => run_values(&a, &mut rep, &reg, &w, &sub, n, None),
            "c08" => {
                run_values(&a, &mut rep, &reg, &w, &sub, n, None);
                run_twins(&a, &mut rep, &sub, n.min(256), None);
            }
            "c10" => run_compat(&a, &mut rep, &reg, &sub, n, None),
            o => panic!("unknown sub-command {}", o),
        }
        rep
    }).unwrap();
    let rep = match h.join() {
        Ok(r) => r,
        Err(_) => {
            eprintln!("VERIF-HARNESS-PANIC");
            std::process::exit(98)
        }
    };
    if !args.out.is_empty() {
        rep.write(&args.out)
    } else {
        println!("{}", rep.to_json().render())
    }
}
"""


def main():
    out, seed, ntypes, nchains = sys.argv[1], int(sys.argv[2]), int(sys.argv[3]), int(sys.argv[4])
    rnd = random.Random(seed * 7919 + 17)
    pool = []        # types usable as field types of later types
    all_types = []
    twins = []
    for td in special_types():
        all_types.append(td)
        if td.name in ("TranspOpt", "TranspOptStr"):
            TRANSP.append(td)
    for k in range(ntypes):
        name = "T%d" % k
        td = gen_struct(rnd, name, pool[-12:]) if rnd.random() < 0.6 else gen_enum(rnd, name, pool[-12:])
        all_types.append(td)
        pool.append(td)
        if k % 4 == 0 and not td.transparent:
            tw = twin_of(rnd, td, name + "Twin")
            all_types.append(tw)
            twins.append((td, tw))
    chains = []
    plain_pool = [t for t in pool if not t.lifetime]
    for c in range(nchains + len(FORCED_CHAINS)):
        vs, es, ctl = gen_chain(rnd, c, plain_pool[-10:], force=FORCED_CHAINS[c - nchains] if c >= nchains else None)
        chains.append((vs, es, ctl))
        for e in es:
            all_types.append(e)
        for v in vs:
            all_types.append(v)
        all_types.append(ctl)
    for k, (enc, tag) in enumerate([(None, None), ("map", None), ("array", 40)]):
        vs, es, ctl = gen_unit_chain(nchains + len(FORCED_CHAINS) + k, enc, tag)
        chains.append((vs, es, ctl))
        all_types.extend(vs + [ctl])
    src = ["// @generated by gen_schemas.py", "#![allow(dead_code, unused_imports, non_snake_case, unused_variables, clippy::all)]",
           "use dsupport::drivers::{Case, Fam};", "use dsupport::{Arena, Encoding, FieldSchema, Kind, Presence, Ty, TypeSchema, VariantSchema, View};", "use vcore::rng::Rng;", ""]
    for td in all_types:
        src.append(emit_type(td))
        src.append("")
    src[6:6] = ["pub type %s = %s;" % kv for kv in sorted(ALIASES.items())] + [""]
    registry = "\n".join('    r.insert("%s", schema_%s());' % (td.name, td.name) for td in all_types)
    chain_names = set()
    for vs, es, ctl in chains:
        for t in vs + es + [ctl]:
            chain_names.add(t.name)
    value_calls = "\n".join("    go!(%sFam);" % td.name for td in all_types if not td.len_only and not td.name.endswith("Twin") and not (td.name in chain_names and td.name[-3:] == "Ctl"))
    value_calls += "\n    if w.c07 || w.c13 || w.c09 {\n" + "\n".join("        go!(%sFam);" % td.name for td in all_types if td.len_only and not td.encode_only) + "\n    }"
    value_calls += "\n    if w.c07 || w.c13 {\n" + "\n".join("        go!(%sFam);" % td.name for td in all_types if td.encode_only) + "\n    }"
    twin_calls = "\n".join("    tw!(%sFam, %sFam);" % (a.name, b.name) for a, b in twins)
    pairs = []
    for vs, es, ctl in chains:
        for i in range(len(vs)):
            for j in range(len(vs)):
                if i != j:
                    pairs.append((vs[i].name, vs[j].name))
        for v in vs:
            pairs.append((v.name, ctl.name))     # old data into a reader with a new mandatory field: must be rejected
        pairs.append((ctl.name, vs[-1].name))   # the mandatory field is unknown to the older reader: ignored
    compat_calls = "\n".join("    cp!(%sFam, %sFam);" % p for p in pairs)
    os.makedirs(os.path.join(out, "src"), exist_ok=True)
    main_rs = MAIN_TMPL % dict(seed=seed, ntypes=len(all_types), nchains=nchains, registry=registry, value_calls=value_calls, twin_calls=twin_calls, compat_calls=compat_calls, npairs=len(pairs))
    files = {
        os.path.join(out, "src", "types.rs"): "\n".join(src) + "\n",
        os.path.join(out, "src", "main.rs"): main_rs,
        os.path.join(out, "Cargo.toml"): """[package]
name = "vgen"
version = "0.1.0"
edition = "2021"

[workspace]

[dependencies]
vcore = { path = "../../vcore" }
dsupport = { path = "../../dsupport" }
minicbor = { path = "/repo/minicbor", features = ["std", "half", "derive"] }

[lints.rust]
unexpected_cfgs = { level = "allow" }

[profile.release]
opt-level = 1
debug-assertions = true
overflow-checks = true
codegen-units = 16
incremental = false
""",
    }
    for path, content in files.items():
        old = open(path).read() if os.path.exists(path) else None
        if old != content:       # keep mtimes stable so that cargo does not rebuild needlessly
            with open(path, "w") as f:
                f.write(content)
    print("generated %d types (%d twins), %d chains, %d version pairs -> %s" % (len(all_types), len(twins), nchains, len(pairs), out))


if __name__ == "__main__":
    main()
